"""Harness for the rendering checks: run plasTeX (parse + render) on a LaTeX
source string under a given configuration and hand back the produced files.

This is the *only* module of the rendering checks that touches plasTeX; all
imports of plasTeX are local to the functions so that the model modules stay
importable without it.  Nothing in here is an oracle.

Isolation: plasTeX keeps interpreter-wide state between documents (the article
class patches the level of the shared index/bibliography classes, the id
generator is a module global, ...; that is C17's subject).  Every case is
therefore rendered in a freshly forked child of the worker (`isolated`): the
worker has imported plasTeX but never processed a document, so each child starts
from the pristine state.  The child renders into a fresh sub-directory of the
worker's scratch directory which is removed afterwards.
"""
import json
import os
import pickle
import shutil
import signal
import subprocess
import sys
import tempfile

CFG_DEFAULT = {
    "renderer": "HTML5",        # HTML5 | XHTML
    "theme": "default",         # default | minimal
    "split": 2,
    "filename": None,           # None = plasTeX default 'index [$id, sect$num(4)]'
    "bad_chars": None,          # None = default
    "bad_sub": None,
    "toc_depth": None,
    "toc_non_files": None,
    "base_url": None,
    "escape_high": None,
    "encoding": None,
    "disable_charsub": None,    # list of charsub sources to disable
    "sec_num_depth": None,
    "jobname": "job",
}


def preload():
    """Import everything a render needs (so that forked children do not pay)."""
    import logging
    logging.disable(logging.CRITICAL)
    import plasTeX.TeX  # noqa
    import plasTeX.Config  # noqa
    import plasTeX.Renderers.HTML5  # noqa
    import plasTeX.Renderers.XHTML  # noqa
    import plasTeX.Renderers.HTML5.Config  # noqa
    import plasTeX.Packages.article  # noqa
    import plasTeX.Packages.book  # noqa
    import plasTeX.Packages.report  # noqa
    import plasTeX.Packages.makeidx  # noqa
    import jinja2  # noqa


def make_config(cfg):
    from plasTeX.Config import defaultConfig
    from plasTeX.Renderers.HTML5.Config import addConfig
    c = dict(CFG_DEFAULT)
    c.update(cfg or {})
    config = defaultConfig()
    addConfig(config)
    config["images"]["imager"] = "none"
    config["images"]["vector-imager"] = "none"
    config["general"]["copy-theme-extras"] = False
    config["general"]["renderer"] = c["renderer"]
    config["general"]["theme"] = c["theme"]
    config["files"]["split-level"] = c["split"]
    if c["filename"] is not None:
        config["files"]["filename"] = c["filename"]
    if c["bad_chars"] is not None:
        # option values are %-interpolated by the ConfigManager: a literal % is written %%
        config["files"]["bad-chars"] = c["bad_chars"].replace("%", "%%")
    if c["bad_sub"] is not None:
        config["files"]["bad-chars-sub"] = c["bad_sub"]
    if c["toc_depth"] is not None:
        config["document"]["toc-depth"] = c["toc_depth"]
    if c["toc_non_files"] is not None:
        config["document"]["toc-non-files"] = c["toc_non_files"]
    if c["base_url"] is not None:
        config["document"]["base-url"] = c["base_url"]
    if c["escape_high"] is not None:
        config["files"]["escape-high-chars"] = c["escape_high"]
    if c["encoding"] is not None:
        config["files"]["output-encoding"] = c["encoding"]
    if c["disable_charsub"] is not None:
        config["document"]["disable-charsub"] = list(c["disable_charsub"])
    if c["sec_num_depth"] is not None:
        config["document"]["sec-num-depth"] = c["sec_num_depth"]
    return config, c


def _real_error(exc, tb):
    from vlib.core import RealError
    e = RealError(exc, tb)
    return {"key": e.key, "detail": e.detail()}


def render_here(src, cfg):
    """Parse `src` and render it into the current directory.

    Returns {"error": None | {"key","detail"}, "files": {name: bytes},
             "created": [names in the order the renderer assigned them],
             "config": {...values the oracle takes as data...}}
    Only *.html files at top level are returned (theme extras are disabled).
    """
    import logging
    logging.disable(logging.CRITICAL)
    from plasTeX.TeX import TeX, TeXDocument
    config, c = make_config(cfg)
    out = {"error": None, "files": {}, "created": [], "config": {
        "bad_chars": config["files"]["bad-chars"],
        "bad_sub": config["files"]["bad-chars-sub"],
        "filename": config["files"]["filename"],
        "sec_num_depth": config["document"]["sec-num-depth"],
        "toc_depth": config["document"]["toc-depth"],
        "toc_non_files": config["document"]["toc-non-files"],
        "encoding": config["files"]["output-encoding"],
    }}
    try:
        doc = TeXDocument(config=config)
        tex = TeX(doc)
        tex.input(src)
        doc.userdata["jobname"] = c["jobname"]
        doc.userdata["working-dir"] = os.getcwd()
        tex.parse()
        if c["renderer"] == "HTML5":
            from plasTeX.Renderers.HTML5 import Renderer
        else:
            from plasTeX.Renderers.XHTML import Renderer
        r = Renderer()
        r.render(doc)
        out["created"] = [str(v) for v in r.files.values() if v]
    except BaseException as exc:  # noqa -- reported to the oracle, never swallowed
        if type(exc).__name__ == "HarnessTimeout" or isinstance(exc, KeyboardInterrupt):
            raise
        out["error"] = _real_error(exc, sys.exc_info()[2])
    for root, dirs, files in os.walk("."):
        for f in sorted(files):
            p = os.path.normpath(os.path.join(root, f))
            if p.endswith(".paux"):
                continue
            with open(p, "rb") as fh:
                out["files"][p] = fh.read()
    return out


def isolated(fn, *args):
    """Run fn(*args) in a forked child whose cwd is a fresh sub-directory of the
    current directory; return its (picklable) result.  The child is killed if
    the caller is interrupted (watchdog).  Raises RuntimeError when the child
    dies without an answer."""
    sub = tempfile.mkdtemp(prefix="case-", dir=os.getcwd())
    rfd, wfd = os.pipe()
    sys.stdout.flush()
    sys.stderr.flush()
    pid = os.fork()
    if pid == 0:
        code = 0
        try:
            os.close(rfd)
            signal.setitimer(signal.ITIMER_REAL, 0)
            signal.signal(signal.SIGALRM, signal.SIG_DFL)
            os.chdir(sub)
            devnull = os.open(os.devnull, os.O_WRONLY)
            os.dup2(devnull, 1)
            os.dup2(devnull, 2)
            try:
                res = ("ok", fn(*args))
            except BaseException as exc:  # noqa
                import traceback
                res = ("exc", traceback.format_exc()[-3000:])
            data = pickle.dumps(res, 2)
            off = 0
            while off < len(data):
                off += os.write(wfd, data[off:off + 65536])
        except BaseException:  # noqa
            code = 3
        finally:
            os._exit(code)
    os.close(wfd)
    chunks = []
    try:
        while True:
            b = os.read(rfd, 1 << 16)
            if not b:
                break
            chunks.append(b)
        os.waitpid(pid, 0)
        pid = None
    finally:
        os.close(rfd)
        if pid is not None:
            try:
                os.kill(pid, signal.SIGKILL)
                os.waitpid(pid, 0)
            except OSError:
                pass
        shutil.rmtree(sub, ignore_errors=True)
    data = b"".join(chunks)
    if not data:
        raise RuntimeError("render child died without an answer")
    kind, val = pickle.loads(data)
    if kind == "exc":
        raise RuntimeError("render child raised:\n" + val)
    return val


def render(src, cfg):
    """Render in an isolated child of this process (the usual entry point)."""
    return isolated(render_here, src, cfg)


def render_fresh_interpreter(src, cfg, hashseed):
    """Render in a brand-new interpreter started with PYTHONHASHSEED=hashseed
    (used for the 'same on every run' clause).  Returns the same dict as
    render_here, file contents as bytes."""
    sub = tempfile.mkdtemp(prefix="fresh-", dir=os.getcwd())
    env = dict(os.environ)
    env["PYTHONHASHSEED"] = str(hashseed)
    env["PYTHONPATH"] = os.pathsep.join(p for p in sys.path if p)
    try:
        p = subprocess.run([sys.executable, "-c",
                            "import sys; from models.renderrun import _main; _main()"],
                           input=pickle.dumps((src, cfg), 2), stdout=subprocess.PIPE,
                           stderr=subprocess.DEVNULL, cwd=sub, env=env)
        if p.returncode != 0 or not p.stdout:
            raise RuntimeError("fresh interpreter failed (rc=%s)" % p.returncode)
        return pickle.loads(p.stdout)
    finally:
        shutil.rmtree(sub, ignore_errors=True)


def _main():
    src, cfg = pickle.loads(sys.stdin.buffer.read())
    out_fd = os.dup(1)
    devnull = os.open(os.devnull, os.O_WRONLY)
    os.dup2(devnull, 1)
    res = render_here(src, cfg)
    res["hashseed"] = os.environ.get("PYTHONHASHSEED")
    with os.fdopen(out_fd, "wb") as f:
        f.write(pickle.dumps(res, 2))


if __name__ == "__main__":
    _main()

"""Reference models of scoping (C04).  Pure Python, imports nothing from plasTeX.

Two independent models:

SrcModel  -- source level.  Walks a generated program (a JSON AST of group-like
             constructs, assignments and probes), *renders* it to LaTeX source and,
             alongside, interprets it with TeX's scoping rules, so that the visible
             text the program must produce is known by construction.
             Scoping rules (tex.web part 19, "saving and restoring equivalents"):
               * a local assignment made at a level different from the level of the
                 current value pushes (key, old value, old level) on the save stack
                 (section 279 eq_define / 281 eq_save); at the same level it overwrites;
               * a global assignment sets the value at level one and nothing is saved
                 (section 279 geq_define);
               * at the end of a group the entries are popped in reverse order; an
                 entry is restored unless the current value is global (level one), in
                 which case the saved value is discarded (section 283 unsave).
             Keys are control-sequence meanings and category codes of a few
             characters; LaTeX counters are global (\\setcounter, \\stepcounter,
             \\addtocounter use \\global); \\newif switches are treated as surviving,
             which is what the statement of C04 says.
             Category codes act on the *reading* of the source: every fragment whose
             reading depends on the code of a pool character is interpreted with the
             model's current table (control word = escape + maximal run of
             category-11 characters, section 354-356; comment = rest of the line
             dropped, section 350 ... ; ignored = skipped, section 345).  Macro
             arguments (\\textbf, \\mbox, \\footnote) are read before they are
             executed, so a fragment inside an argument is emitted only when the
             table that was in force when the argument was read and the live table
             agree on the character (both readings of "when is the argument
             tokenized" then coincide).
             A second, deliberately naive reading (a stack of dictionaries, global
             writes go to the bottom one) is kept *only* to tag the places where the
             two readings differ ("shadowed global"); it never predicts anything.

ApiModel  -- API level.  A list of frames {macros, lets, category table id, obj}
             with the operations documented in plasTeX/Context.py (push, pop with
             and without an object, local/global insertion, let, catcode,
             setVerbatimCatcodes).
"""

# ===========================================================================
# Source level
# ===========================================================================

CHARS = ["@", "|", "!", "~", "%"]
DEFAULT_CAT = {"@": 12, "|": 12, "!": 12, "~": 13, "%": 14}
ALLOWED_CODES = {"@": [11, 12, 14], "|": [11, 12, 14, 9], "!": [11, 12, 14, 9],
                 "~": [12, 13, 14], "%": [12, 14, 11]}
NAMES = ["xa", "xb", "xc", "za", "zb"]          # always defined (prefix)
PROBE_NAMES = ["xa", "xb", "xc"]                # have composite companions xa@y, xa|y, xa!y
NAMECHARS = ["@", "|", "!"]
FRESH = ["na", "nb"]                            # only ever defined by \newcommand
COUNTERS_PRE = ["ca", "cb"]
COUNTERS_NEW = ["cc", "cd"]
IFS = ["sa", "sb"]
LETCHARS = ["u", "v", "w"]

# uea/ueb/uec: environments made by \newenvironment (empty begin and end part; both parts \relax; empty
# begin part only).  \begin opens a group and \end closes it whatever the two parts contain.
USER_ENVS = {"uea": ("", ""), "ueb": ("\\relax ", "\\relax "), "uec": ("", "\\relax ")}
# esmall/ebf: the environment form of a font declaration (\begin{small} ... \end{small}); the declaration
# form (\small inside a group, node kind "decl") changes nothing but the font.
DECL_ENVS = {"esmall": "small", "ebf": "bfseries"}
F_DECL_OWN_ENV = "declaration-directly-in-its-own-environment"      # \begin{small} ... \small ... \end{small}
DECLS = ["small", "bfseries", "itshape"]
DECL_HOSTS = ("brace", "begingroup", "center", "quote", "uea", "ueb", "uec", "esmall", "ebf",
              "textbf", "mbox", "footnote")
GROUP_KINDS = ["brace", "begingroup", "center", "quote", "itemize", "tabular", "dollar",
               "paren", "bracket", "textbf", "mbox", "footnote", "uea", "ueb", "uec", "esmall", "ebf"]
ARG_KINDS = ("textbf", "mbox", "footnote")
MAX_DEPTH = 6

_ALLOWED_IN = {
    "par": set(GROUP_KINDS),
    "lr": set(["brace", "begingroup", "dollar", "paren", "textbf", "mbox", "tabular", "uea", "ueb", "uec",
               "esmall", "ebf"]),
    "math": set(["brace", "begingroup", "textbf", "mbox"]),
}
_CHILD_MODE = {"center": "par", "quote": "par", "itemize": "par", "tabular": "lr",
               "dollar": "math", "paren": "math", "bracket": "math", "textbf": "lr",
               "mbox": "lr", "footnote": "par"}
_OPEN = {"brace": "{", "begingroup": "\\begingroup ", "center": "\\begin{center}",
         "quote": "\\begin{quote}", "itemize": "\\begin{itemize}", "dollar": "$",
         "paren": "\\(", "bracket": "\\[", "textbf": "\\textbf{", "mbox": "\\mbox{",
         "footnote": "\\footnote{"}
_CLOSE = {"brace": "}", "begingroup": "\\endgroup ", "center": "\\end{center}",
          "quote": "\\end{quote}", "itemize": "\\end{itemize}", "dollar": "$",
          "paren": "\\)", "bracket": "\\]", "textbf": "}", "mbox": "}", "footnote": "}",
          "tabular": "\\end{tabular}"}

for _k in USER_ENVS:
    _OPEN[_k] = "\\begin{%s}" % _k
    _CLOSE[_k] = "\\end{%s}" % _k
for _k, _v in DECL_ENVS.items():
    _OPEN[_k] = "\\begin{%s}" % _v
    _CLOSE[_k] = "\\end{%s}" % _v

# tags of the known deviations (bucket key = "text-mismatch:" + tag)
T_GLOBAL = "global-prefix"
T_NEWCMD = "newcommand-scope"
T_CHARLET = "char-let"
T_SHADOW = "shadowed-global"
TAINT_TAGS = (T_GLOBAL, T_NEWCMD, T_CHARLET, T_SHADOW)


def composite(name, c):
    return name + c + "y"


def name_chars(name):
    """pool characters occurring in a control-sequence name"""
    return [c for c in name if c in CHARS]


class Val(object):
    __slots__ = ("text", "writer", "charlet", "scope")

    def __init__(self, text, writer, charlet=False, scope=0):
        self.text = text          # expansion (letters and digits)
        self.writer = writer      # def gdef edef xdef let charlet newcommand global-prefix
        self.charlet = charlet
        self.scope = scope        # serial of the scope in which it was written (0 = top)


class Seg(object):
    __slots__ = ("text", "tag", "alts")

    def __init__(self, text, tag, alts=()):
        self.text = text
        self.tag = tag
        self.alts = tuple(a for a in alts if a and a != text)


class Scope(object):
    __slots__ = ("kind", "entries", "serial", "mode", "infn", "is_arg", "changed")

    def __init__(self, kind, serial, mode, infn, is_arg):
        self.kind = kind
        self.entries = []
        self.serial = serial
        self.mode = mode
        self.infn = infn
        self.is_arg = is_arg
        self.changed = set()


def prefix_nodes():
    """The fixed preamble of every program, as ordinary nodes."""
    out = [{"k": "def", "n": n, "v": "d"} for n in NAMES]
    out += [{"k": "cat", "c": c, "code": 11} for c in NAMECHARS]
    for n in PROBE_NAMES:
        for c in NAMECHARS:
            out.append({"k": "def", "n": composite(n, c), "v": "d"})
    out += [{"k": "cat", "c": c, "code": 12} for c in NAMECHARS]
    out += [{"k": "ctr", "op": "new", "c": c} for c in COUNTERS_PRE]
    out += [{"k": "ifnew", "n": n} for n in IFS]
    return out


class SrcModel(object):

    def __init__(self, wrap=False):
        self.wrap = wrap
        self.val = {}                 # name -> Val   (TeX reading)
        self.cat = dict(DEFAULT_CAT)
        self.lvl = {}                 # key -> level of the current value
        self.save = []                # open scopes
        self.dfr = [{}]               # naive reading: stack of dicts name -> text
        self.ctr = {}
        self.ifs = {}
        self.restored = {}            # key -> (construct, inner writer)
        self.taint = {}               # name -> tag of a known deviation
        self.src = []
        self.segs = []
        self.features = set()
        self.nontrivial = False
        self.serial = 0
        self.nmark = 0
        self.dropped = 0
        self.frozen = None            # table in force when the outermost argument was read
        self.argdepth = 0
        self.maxdepth = 0
        self.nprobes = 0
        self.closed_at = None

    # -- helpers -----------------------------------------------------------
    def marker(self, letter):
        self.nmark += 1
        return "%s%d%s" % (letter.upper(), self.nmark, letter.lower())

    @property
    def level(self):
        return len(self.save)

    @property
    def mode(self):
        return self.save[-1].mode if self.save else "par"

    @property
    def infn(self):
        return self.save[-1].infn if self.save else False

    def tok_ok(self, c):
        """may a fragment whose reading depends on c be emitted here?"""
        return self.frozen is None or self.frozen[c] == self.cat[c]

    def name_ok(self, name):
        """is \\name one control word under the current table?"""
        for c in name_chars(name):
            if self.cat[c] != 11 or not self.tok_ok(c):
                return False
        return True

    def dict_text(self, name):
        for fr in reversed(self.dfr):
            if name in fr:
                return fr[name]
        return None

    def tex_text(self, name):
        v = self.val.get(name)
        return None if v is None else v.text

    def ambiguous(self, name):
        return self.tex_text(name) != self.dict_text(name)

    def would_shadow(self, name):
        """a global write of name now would leave a local binding of the naive reading"""
        return any(name in fr for fr in self.dfr[1:])

    def is_charlet(self, name):
        v = self.val.get(name)
        return v is not None and v.charlet

    def defined(self, name):
        return name in self.val

    # -- save stack --------------------------------------------------------
    def _raw(self, key):
        return self.val.get(key[1]) if key[0] == "m" else self.cat[key[1]]

    def _put(self, key, v):
        if key[0] == "m":
            if v is None:
                self.val.pop(key[1], None)
            else:
                self.val[key[1]] = v
        else:
            self.cat[key[1]] = v

    def _set_local(self, key, v):
        cur = self.level
        if self.lvl.get(key, 0) != cur:
            self.save[-1].entries.append((key, self._raw(key), self.lvl.get(key, 0)))
        self._put(key, v)
        self.lvl[key] = cur
        if cur:
            self.save[-1].changed.add(key)
        self.restored.pop(key, None)

    def _set_global(self, key, v):
        self._put(key, v)
        self.lvl[key] = 0
        self.restored.pop(key, None)
        if self.level:
            self.features.add("global-inside-group")

    def _open_scope(self, kind, mode, infn, is_arg=False):
        self.serial += 1
        self.save.append(Scope(kind, self.serial, mode, infn, is_arg))
        self.dfr.append({})
        if len(self.save) > self.maxdepth:
            self.maxdepth = len(self.save)

    def _close_scope(self):
        sc = self.save.pop()
        self.dfr.pop()
        for key, old, oldlvl in reversed(sc.entries):
            if self.lvl.get(key, 0) == 0:
                continue                      # current value is global: saved one is discarded
            inner = self._raw(key)
            self._put(key, old)
            self.lvl[key] = oldlvl
            if key[0] == "m":
                self.restored[key] = (sc.kind, inner.writer if inner is not None else "undef")
            else:
                self.restored[key] = (sc.kind, "cat")
                self.features.add("catcode-change-then-pop")
        return sc

    # -- structure ---------------------------------------------------------
    def can_open(self, kind):
        if kind not in _ALLOWED_IN[self.mode]:
            return False
        if kind == "footnote" and self.infn:
            return False
        if self.depth_count() >= MAX_DEPTH:
            return False
        return True

    def depth_count(self):
        return len([s for s in self.save if s.kind != "cell"])

    def open(self, kind, ncols=1):
        infn = self.infn or kind == "footnote"
        mode = _CHILD_MODE.get(kind, self.mode)
        self.features.add("kind:" + kind)
        if kind == "tabular":
            self.src.append("\\begin{tabular}{%s}" % ("l" * max(1, ncols)))
            self._open_scope("tabular", mode, infn)
            self._open_scope("cell", mode, infn)
            self.text()
            return
        self.src.append(_OPEN[kind])
        is_arg = kind in ARG_KINDS
        if is_arg:
            if self.argdepth == 0:
                self.frozen = dict(self.cat)
            self.argdepth += 1
        self._open_scope(kind, mode, infn, is_arg)
        if kind == "dollar":
            self.text()               # "$$" would open display math

    def close(self, pad=False):
        sc = self.save[-1]
        if sc.kind == "cell":
            self._close_scope()
            sc = self.save[-1]
        self.src.append(_CLOSE[sc.kind])
        self._close_scope()
        if sc.is_arg:
            self.argdepth -= 1
            if self.argdepth == 0:
                self.frozen = None
        self.features.add("depth:%d" % min(self.maxdepth, 9))
        if pad:
            self.text()
        else:
            self.closed_at = (len(self.src), sc.kind)

    def after_close(self):
        """kind of the construct whose closing token is the very last thing emitted"""
        if self.closed_at is not None and self.closed_at[0] == len(self.src):
            return self.closed_at[1]
        return None

    def next_cell(self):
        self._close_scope()
        self.src.append("&")
        self._open_scope("cell", self.mode, self.infn)
        self.features.add("sep:cell")
        self.text()

    def next_row(self):
        self._close_scope()
        self.src.append("\\\\")
        self._open_scope("cell", self.mode, self.infn)
        self.features.add("sep:row")
        self.text()

    def item(self):
        self.src.append("\\item ")
        self.features.add("sep:item")
        self.text()

    def text(self):
        m = self.marker("w")
        self.src.append(m)
        self.segs.append(Seg(m, "text"))

    # -- tags ----------------------------------------------------------------
    def _mtag(self, name):
        """provenance tag of the current meaning of name + non-triviality bookkeeping"""
        if name in self.taint:
            return self.taint[name]
        key = ("m", name)
        if key in self.restored:
            kind, w = self.restored[key]
            self.nontrivial = True
            self.features.add("probe-after-restore:macro")
            self.features.add("restored-by:" + kind)
            if w == "charlet" and self.after_close() == kind:
                self.features.add("first-token-after-close")
                return "first-token-after@" + kind
            return "restored(%s)@%s" % (w, kind)
        if self.ambiguous(name):
            return T_SHADOW
        v = self.val.get(name)
        if v is None:
            return "undefined"
        if self.lvl.get(key, 0) == 0 and v.scope and v.scope not in [s.serial for s in self.save]:
            self.features.add("global-survived-probed")
            self.nontrivial = True
            return "survived(%s)" % v.writer
        return "written(%s)" % v.writer

    def _ctag(self, c):
        key = ("c", c)
        if key in self.restored:
            self.nontrivial = True
            self.features.add("probe-after-restore:catcode")
            self.features.add("restored-by:" + self.restored[key][0])
            if self.after_close() == self.restored[key][0]:
                self.features.add("first-token-after-close")
                return "first-token-after@" + self.restored[key][0]
            return "cat-restored@%s" % self.restored[key][0]
        if self.lvl.get(key, 0):
            self.features.add("probe-inside:catcode")
        return "cat-set(%d)" % self.cat[c]

    # -- assignments ---------------------------------------------------------
    def _assign(self, name, val, glob, tag=None):
        """common part of every macro assignment; applies both readings and taints"""
        key = ("m", name)
        if self.is_charlet(name) and tag is None:
            tag = T_CHARLET
        if glob and self.would_shadow(name) and tag is None:
            tag = T_SHADOW
        val.scope = self.save[-1].serial if self.save else 0
        if glob:
            self._set_global(key, val)
            self.dfr[0][name] = val.text
        else:
            self._set_local(key, val)
            self.dfr[-1][name] = val.text
        if tag is not None:
            self.taint.setdefault(name, tag)
            self.features.add("construct:" + tag)

    def act(self, node):
        """Render one leaf node if it is meaningful in the current state.
        Returns True when emitted, False when dropped."""
        fn = getattr(self, "_n_" + node["k"], None)
        if fn is None:
            raise ValueError("unknown node kind %r" % (node,))
        done = fn(node)
        if not done:
            self.dropped += 1
        return bool(done)

    def _n_def(self, nd):
        name, v, pre = nd["n"], nd.get("v", "d"), nd.get("pre", "")
        if not self.name_ok(name):
            return False
        cmd = {"d": "\\def", "g": "\\gdef", "e": "\\edef", "x": "\\xdef"}[v]
        text = self.marker("d")
        glob = v in "gx" or pre == "global"
        writer = {"d": "def", "g": "gdef", "e": "edef", "x": "xdef"}[v]
        tag = None
        if pre == "global":
            cmd = "\\global" + cmd
            writer = T_GLOBAL
            tag = T_GLOBAL
        self.src.append("%s\\%s{%s}" % (cmd, name, text))
        self._assign(name, Val(text, writer), glob, tag)
        self.features.add("assign:" + writer)
        return True

    def _n_decl(self, nd):
        """a font declaration inside a group: no effect on meanings, codes or the stack"""
        if not self.save or self.save[-1].kind not in DECL_HOSTS or self.mode == "math" or \
                nd.get("d") not in DECLS:
            return False
        self.src.append("\\%s " % nd["d"])
        self.features.add("decl:" + nd["d"])
        if DECL_ENVS.get(self.save[-1].kind) == nd["d"]:
            self.features.add(F_DECL_OWN_ENV)
        return True

    def _n_renew(self, nd):
        name = nd["n"]
        if name_chars(name) or not self.defined(name):
            return False
        text = self.marker("r")
        if nd.get("braced"):
            self.src.append("\\renewcommand{\\%s}{%s}" % (name, text))
        else:
            self.src.append("\\renewcommand\\%s{%s}" % (name, text))
        self._assign(name, Val(text, "newcommand"), False, T_NEWCMD)
        self.features.add("assign:renewcommand")
        return True

    def _n_newcmd(self, nd):
        name = nd["n"]
        if name not in FRESH or self.defined(name) or self.dict_text(name) is not None:
            return False
        text = self.marker("n")
        self.src.append("\\newcommand\\%s{%s}" % (name, text))
        self._assign(name, Val(text, "newcommand"), False, T_NEWCMD)
        self.features.add("assign:newcommand")
        return True

    def _n_let(self, nd):
        name, s, pre = nd["n"], nd["s"], nd.get("pre", "")
        if name == s or not self.name_ok(name) or not self.name_ok(s):
            return False
        if not self.defined(s) or self.is_charlet(s):
            return False
        sv = self.val[s]
        tag = self.taint.get(s)
        if tag is None and self.ambiguous(s):
            tag = T_SHADOW
        glob = pre == "global"
        writer = "let"
        if glob:
            writer = T_GLOBAL
            tag = tag or T_GLOBAL
        self.src.append("%s\\let\\%s=\\%s " % ("\\global" if glob else "", name, s))
        if tag is None and self.is_charlet(name):
            tag = T_CHARLET
        self._assign(name, Val(sv.text, writer), glob, tag)
        self.features.add("assign:" + writer)
        return True

    def _n_clet(self, nd):
        name, ch = nd["n"], nd["ch"]
        if name_chars(name) or ch not in LETCHARS:
            return False
        self.src.append("\\let\\%s=%s" % (name, ch))
        # inside a macro argument the rest of the argument has already been read
        self._assign(name, Val(ch, "charlet", charlet=True), False,
                     T_CHARLET if self.argdepth else None)
        self.features.add("assign:charlet")
        return True

    def _n_cat(self, nd):
        c, code = nd["c"], nd["code"]
        if code not in ALLOWED_CODES[c]:
            return False
        # `\c is a control symbol whatever the category of c, except that an ignored
        # character is dropped by plasTeX's reader before it can follow the escape
        # character (C01 normal form): not emitted while c is ignored.
        if self.cat[c] == 9 or (self.frozen is not None and self.frozen[c] == 9):
            return False
        form = nd.get("form", "")
        if c == "@" and code == 11 and form == "at":
            self.src.append("\\makeatletter ")
        elif c == "@" and code == 12 and form == "at":
            self.src.append("\\makeatother ")
        else:
            self.src.append("\\catcode`\\%s=%d\\relax " % (c, code))
        old = self.cat[c]
        self._set_local(("c", c), code)
        self.features.add("assign:catcode")
        if self.level:
            self.features.add("catcode-inside-group")
        if nd.get("tight") and old not in (9, 11) and old != code and self.frozen is None:
            # The character whose category has just changed follows the control word directly.  The
            # control word ended at it under the OLD table (old category is not letter/ignored), but
            # TeX classifies a character when it reads it as a token, i.e. under the NEW table.
            # (Not inside a macro argument, whose characters were all classified when it was scanned.)
            self.src[-1] = self.src[-1][:-1]
            if self._n_cprobe({"c": c}):
                self.features.add("changed-char-right-after-control-word")
            else:
                self.src[-1] += " "
        return True

    def _n_ctr(self, nd):
        op, c = nd["op"], nd["c"]
        if op == "new":
            if c in self.ctr or c not in COUNTERS_PRE + COUNTERS_NEW:
                return False
            self.src.append("\\newcounter{%s}" % c)
            self.ctr[c] = 0
        else:
            if c not in self.ctr:
                return False
            v = int(nd.get("v", 1))
            if op == "set":
                self.src.append("\\setcounter{%s}{%d}" % (c, v))
                self.ctr[c] = v
            elif op == "add":
                self.src.append("\\addtocounter{%s}{%d}" % (c, v))
                self.ctr[c] += v
            elif op == "step":
                self.src.append("\\stepcounter{%s}" % c)
                self.ctr[c] += 1
            else:
                return False
        if self.level:
            self.features.add("counter-inside-group")
            self.restored[("k", c)] = self.save[-1].serial
        return True

    def _n_ifnew(self, nd):
        n = nd["n"]
        if self.level or n in self.ifs or n not in IFS:
            return False
        self.src.append("\\newif\\if%s " % n)
        self.ifs[n] = False
        return True

    def _n_ifset(self, nd):
        n, v = nd["n"], bool(nd["v"])
        if n not in self.ifs:
            return False
        self.src.append("\\%s%s " % (n, "true" if v else "false"))
        self.ifs[n] = v
        if self.level:
            self.features.add("newif-inside-group")
            self.restored[("i", n)] = self.save[-1].serial
        return True

    # -- probes ----------------------------------------------------------------
    def _emit(self, src, text, tag, alts=()):
        self.src.append(src)
        self.segs.append(Seg(text, tag, alts))
        self.nprobes += 1

    def _n_txt(self, nd):
        self.text()
        return True

    def _n_call(self, nd):
        name = nd["n"]
        if not self.name_ok(name) or not self.defined(name):
            return False
        tag = self._mtag(name)
        if not tag.startswith("first-token-after@") and tag not in TAINT_TAGS:
            tag = "call:" + tag
        self._emit("\\%s " % name, self.val[name].text, tag)
        return True

    def _n_isdef(self, nd):
        name = nd["n"]
        if name not in FRESH:
            return False
        m = self.marker("q")
        d = self.defined(name)
        tag = self._mtag(name)
        if tag not in TAINT_TAGS:
            tag = "isdef:" + tag
        self._emit("\\ifx\\%s\\undefined U%s\\else D%s\\fi " % (name, m, m),
                   ("D" if d else "U") + m, tag, ["D" + m, "U" + m])
        return True

    def _n_cprobe(self, nd):
        c = nd["c"]
        if not self.tok_ok(c):
            return False
        m = self.marker("m")
        code = self.cat[c]
        outs = {14: "", 9: m, 13: m, 11: c + m, 12: c + m}
        tag = self._ctag(c)
        if not tag.startswith("first-token-after@"):
            tag = "cprobe:" + tag
        carry = self.after_close() if code == 14 else None
        self._emit("%s%s\n" % (c, m), outs[code], tag, [m, c + m])
        if carry is not None:
            # a comment produces no token: the next fragment is still the first token
            # after the closing delimiter
            self.closed_at = (len(self.src), carry)
        return True

    def _n_nprobe(self, nd):
        name, c = nd["n"], nd["c"]
        if name not in PROBE_NAMES or c not in NAMECHARS or not self.tok_ok(c):
            return False
        code = self.cat[c]
        if code == 9:
            # an ignored character right after a control word: plasTeX's reader drops
            # ignored characters before they can end the name (C01 normal form)
            return False
        if code == 11:
            full = composite(name, c)
            if not self.defined(full):
                return False
            text = self.val[full].text + "."
            mt = self._mtag(full)
        else:
            if not self.defined(name):
                return False
            base = self.val[name].text
            text = {12: base + c + "y.", 14: base, 9: base + "y."}[code]
            mt = self._mtag(name)
        ct = self._ctag(c)
        if mt in TAINT_TAGS:
            tag = mt
        elif ct.startswith("first-token-after@"):
            tag = ct
        else:
            tag = "nprobe:%s+%s" % (ct, mt)
        self._emit("\\%s%sy.\n" % (name, c), text, tag)
        return True

    def _n_pctr(self, nd):
        c = nd["c"]
        if c not in self.ctr:
            return False
        if self.restored.get(("k", c)) and self.restored[("k", c)] not in [s.serial for s in self.save]:
            self.features.add("counter-survived-probed")
            self.nontrivial = True
        self._emit("\\arabic{%s}" % c, str(self.ctr[c]), "counter")
        return True

    def _n_pif(self, nd):
        n = nd["n"]
        if n not in self.ifs:
            return False
        if self.restored.get(("i", n)) and self.restored[("i", n)] not in [s.serial for s in self.save]:
            self.features.add("newif-survived-probed")
            self.nontrivial = True
        m = self.marker("s")
        self._emit("\\if%s T%s\\else F%s\\fi " % (n, m, m),
                   ("T" if self.ifs[n] else "F") + m, "newif", ["T" + m, "F" + m])
        return True

    # -- whole programs ------------------------------------------------------------
    def walk(self, nodes):
        for nd in nodes:
            if nd.get("k") == "g":
                self.walk_group(nd)
            else:
                self.act(nd)

    def walk_group(self, nd):
        kind = nd["t"]
        if kind not in GROUP_KINDS or not self.can_open(kind):
            self.dropped += 1
            return
        if kind == "tabular":
            rows = [r for r in nd.get("rows", []) if r] or [[[]]]
            self.open("tabular", max(len(r) for r in rows))
            for i, row in enumerate(rows):
                if i:
                    self.next_row()
                for j, cell in enumerate(row):
                    if j:
                        self.next_cell()
                    self.walk(cell)
            if nd.get("trail"):
                self.src.append("\\\\")
            self.close()
        elif kind == "itemize":
            items = nd.get("items") or [[]]
            self.open("itemize")
            for it in items:
                self.item()
                self.walk(it)
            self.close()
        else:
            self.open(kind)
            self.walk(nd.get("body", []))
            self.close(bool(nd.get("pad")))

    def expected(self):
        return "".join(s.text for s in self.segs)

    def source(self):
        return "".join(self.src)


def run_program(case):
    """case = {"wrap": bool, "body": [nodes]} -> finished SrcModel"""
    wrap = bool(case.get("wrap"))
    m = SrcModel(wrap)
    if wrap:
        m.src.append("\\documentclass{article}\n")
    m.walk(prefix_nodes())
    for k in sorted(USER_ENVS):
        m.src.append("\\newenvironment{%s}{%s}{%s}" % ((k,) + USER_ENVS[k]))
    m.src.append("\n")
    if wrap:
        m.src.append("\\begin{document}")
        # the naive reading sees the document environment as one more frame
        m.dfr.append({})
    m.walk(case.get("body", []))
    if wrap:
        m.src.append("\\end{document}\n")
    assert not m.save, "unbalanced walk"
    return m


def first_mismatch(segs, observed):
    """-> None when observed == concatenation of the segments, else
    (index, tag, expected, observed-at-that-point)"""
    pos = 0
    for i, s in enumerate(segs):
        if not s.text:
            for a in s.alts:
                if observed.startswith(a, pos):
                    return (i, s.tag, s.text, observed[pos:pos + len(a) + 8])
            continue
        if observed.startswith(s.text, pos):
            pos += len(s.text)
            continue
        return (i, s.tag, s.text, observed[pos:pos + len(s.text) + 8])
    if pos != len(observed):
        return (len(segs), "trailing", "", observed[pos:pos + 40])
    return None


# ===========================================================================
# API level
# ===========================================================================

class MObj(object):
    """model of a macro instance used as the basis of a frame"""
    __slots__ = ("inst", "cls", "end", "parent")

    def __init__(self, inst, cls, end=False, parent=None):
        self.inst = inst          # serial number (identity)
        self.cls = cls            # class name == nodeName
        self.end = end            # macroMode == MODE_END
        self.parent = parent      # inst of parentNode or None


class Frame(object):
    __slots__ = ("macros", "lets", "table", "obj")

    def __init__(self, table, obj=None, macros=None):
        self.macros = dict(macros or {})
        self.lets = {}
        self.table = table
        self.obj = obj


class ApiModel(object):
    """Stack-of-frames model of plasTeX.Context as documented in Context.py.

    default_codes: char -> category code of the default table for the characters
    the session observes (environment data); letters: the characters that stay
    category 11 under setVerbatimCatcodes (the ASCII letters of the pool)."""

    def __init__(self, default_codes, letters):
        self.tables = {0: dict(default_codes)}
        self.ntables = 1
        self.letters = set(letters)
        self.frames = [Frame(0)]
        self.shadow_pop = False       # a pop removed a local binding that shadowed an outer one
        self.nunrec = 0
        self.events = set()

    # -- reads ---------------------------------------------------------------
    @property
    def depth(self):
        return len(self.frames)

    def lookup(self, name):
        for fr in reversed(self.frames):
            if name in fr.macros:
                return fr.macros[name]
        return None

    def visible(self):
        out = set()
        for fr in self.frames:
            out.update(fr.macros)
        return out

    def get_let(self, name):
        for fr in reversed(self.frames):
            if name in fr.lets:
                return fr.lets[name]
        return None

    def code(self, ch, frame=-1):
        return self.tables[self.frames[frame].table].get(ch, 12)

    def on_stack(self):
        return [fr.obj for fr in self.frames if fr.obj is not None]

    # -- writes --------------------------------------------------------------
    def push(self, obj=None, local_macros=None):
        self.frames.append(Frame(self.frames[-1].table, obj, local_macros))

    def _drop(self):
        fr = self.frames.pop()
        for n in fr.macros:
            if self.lookup(n) is not None:
                self.shadow_pop = True
        for n in fr.lets:
            self.shadow_pop = True
        if fr.table != self.frames[-1].table:
            self.events.add("catcode-then-pop")

    def pop(self, obj=None):
        """Context.pop: without obj pop frames up to and including the first one
        that was not pushed by an object; with obj, pop through unnamed frames down
        to the frame pushed by obj (identity), or by its \\begin (same class, obj is
        an \\end instance) or by \\foo when obj is \\endfoo; never pop the frame of
        obj's parent node.  The bottom frame is never popped."""
        if obj is None:
            while len(self.frames) > 1:
                unnamed = self.frames[-1].obj is None
                self._drop()
                if unnamed:
                    break
            return
        while len(self.frames) > 1:
            o = self.frames[-1].obj
            if o is None:
                pass
            elif o.inst == obj.inst:
                self._drop()
                break
            elif obj.parent is not None and o.inst == obj.parent:
                break
            elif o.cls == obj.cls and obj.end:
                self._drop()
                break
            elif obj.cls == "end" + o.cls:
                self._drop()
                break
            self._drop()

    def add_local(self, name, value):
        self.frames[-1].macros[name] = value

    def add_global(self, name, value):
        self.frames[0].macros[name] = value

    def lookup_or_create(self, name):
        """Context.__getitem__: an unknown name gets a fresh global placeholder"""
        v = self.lookup(name)
        if v is None:
            self.nunrec += 1
            v = "unrec:%s:%d" % (name, self.nunrec)
            self.add_global(name, v)
        return v

    def let_cs(self, dest, src):
        self.frames[-1].macros[dest] = self.lookup_or_create(src)

    def let_char(self, dest, tok):
        self.frames[-1].lets[dest] = tok

    def _own_table(self, content):
        tid = self.ntables
        self.ntables += 1
        self.tables[tid] = content
        self.frames[-1].table = tid

    def catcode(self, ch, code):
        t = dict(self.tables[self.frames[-1].table])
        t[ch] = code
        self._own_table(t)

    def verbatim(self):
        self._own_table(dict((ch, 11 if ch in self.letters else 12)
                             for ch in self.tables[0]))

"""latexdoc -- generated LaTeX documents with predictions computed from the AST alone.

Reference model shared by C07 (text order / tree shape), C08 (numbering) and
C09 (labels and references).  Pure Python: imports nothing from plasTeX.

======================================================================
API
======================================================================
Case format (JSON-able dict, see "AST" below)
    doc = {"cls", "secnumdepth", "title", "thms", "body"}

    analyze(doc) -> Analysis          run the renderer and every prediction
        .source        str            the LaTeX source
        .markers       [Marker]       one per text leaf, in source order; marker i
                                      is the word  w<i>x  (MARKER_RE finds them)
            .ctx       'text' | 'math' | 'verb' | 'verbatim' | 'preamble'
            .pre/.post characters expected directly before/after the word in the
                       parsed text (after typographic substitution in running
                       text; the literal source characters in verbatim/math)
            .sec       index into .sections of the innermost enclosing unit (-1:
                       none);  .mathgroup  True inside {..} ^{..} _{..} in math
        .sections      [Section]      first (marker of toc/title), level, parent,
                                      star
        .objects       [Obj]          numbered *candidates* in source order:
            .kind      'sec' 'equation' 'row' 'caption' 'thm' 'item'
            .name      node name expected in the parsed tree (section, thmenv ..)
            .first     index of the first marker inside the object (its key)
            .number    printed number (str) or None when LaTeX prints none
            .asserted  False when the number depends on a counter that LaTeX does
                       not step because the unit is deeper than secnumdepth
            .position  1-based count for enumerate items (None otherwise)
        .labels        {name: Label}  .obj (index into objects or None), .cls in
                       LABEL_CLASSES, .order (source order), .in_arg
        .refs          [Ref]          .name .page .pos (source order), .dangling
        .counters      {name: value}  LaTeX's final counter values (asserted ones
                       only; .tainted lists the others)
        .cites/.bibitems               bibliography keys in source order
        .features      set of str     construct classes present (for histograms)
    render(doc) -> str                 = analyze(doc).source
    refs_moved(doc, where)             metamorphic variant: every \\ref taken out
                                       and re-issued in one marker-free paragraph
                                       at the 'front' or 'back' of the body
    strategies:  documents(features=ALL_FEATURES, exclude=(), size=...)
        Hypothesis strategy of cases.  `features` selects constructs, `exclude`
        names constructs removed *by construction* (see EXCLUSIONS).
    to_roman(n), to_alph(n)            independent table-driven representations

======================================================================
AST
======================================================================
doc["body"] is a flat list (LaTeX source is flat; nesting is *predicted*):
  {"k":"sec","lv":"part|chapter|section|subsection|subsubsection|paragraph|
        subparagraph","star":bool,"toc":[inl]|None,"title":[inl]}
  {"k":"appendix"}   {"k":"ctr","op":"set|add|step","c":counter,"v":int}
  {"k":"refpar","refs":[{"n":..,"page":bool}]}          (only in variants)
  blocks:
  {"k":"par","c":[inl]}            optional "open": declaration name written without
                                   braces at the start (\\small w1x ..), top level / quote only
  {"k":"list","kind":"itemize|enumerate|description","items":[{"term":[inl]|None,
        "c":[block]}]}
  {"k":"tabular","rows":[[[inl]]]}
  {"k":"env","name":"quote|center|flushleft","c":[block]}
  {"k":"float","name":"figure|table","c":[block | {"k":"caption","toc":..,"c":[inl]}]}
  {"k":"equation","c":[math],"label":name|None}
  {"k":"eqnarray","star":bool,"rows":[{"l":[math],"r":[math],"nonumber":bool,
        "label":name|None}]}
  {"k":"displaymath","c":[math]}
  {"k":"verbatim","lines":[[{"q":deco}]]}
  {"k":"thm","name":env,"title":[inl]|None,"c":[block]}
  {"k":"bib","items":[{"key":str,"c":[inl]}]}
  every block may carry "sep": 1 (blank line after it) or 0.
inlines:
  {"k":"w","q":None|"dq"|"sq"|"en"|"em"}   a marker word, optionally decorated
  {"k":"cmd","n":"textbf|emph|textit|texttt","c":[inl]}
  {"k":"decl","n":"bfseries|itshape|sffamily|small","c":[inl]}   -> {\\bfseries ..}
  {"k":"mbox","c":[inl]}  {"k":"footnote","c":[inl]}  {"k":"math","c":[math]}
  {"k":"verb","d":delimiter,"q":deco,"s":suffix}
  {"k":"label","n":name}  {"k":"ref","n":name,"page":bool}
  {"k":"cite","keys":[str]}
math:
  {"k":"w","q":None|"pr"|"en"|"bq"}   {"k":"op","s":"+"}   {"k":"sup"|"sub"|"grp",
  "c":[math]}   {"k":"frac","a":[math],"b":[math]}

LaTeX rules transcribed here (sources: LaTeX2e manual C.8.4, latex.ltx \\refstepcounter,
\\@addtoreset, \\@startsection, \\@thm, \\eqnarray, classes.dtx):
  * stepping a counter zeroes every counter declared within it, transitively;
    \\setcounter / \\addtocounter change one counter only;
  * starred units and units deeper than secnumdepth print no number and do not
    step; book/report: part -1, chapter 0, section 1 ...; article: part 0, section 1;
  * book/report: section, equation, figure, table within chapter; \\thesection =
    \\thechapter.\\arabic{section}; \\theequation/figure/table =
    [\\thechapter. if chapter>0]\\arabic{..}; article: none of these;
    \\thepart = \\Roman{part};
  * \\appendix: chapter:=0, section:=0, \\thechapter=\\Alph (book/report);
    section:=0, subsection:=0, \\thesection=\\Alph (article);
  * \\newtheorem{n}{c}[w]: counter n within w, \\then = \\thew.\\arabic{n};
    \\newtheorem{n}[s]{c}: uses counter s and \\thes;
  * eqnarray: rows are numbered consecutively, a row with \\nonumber takes none;
  * \\@currentlabel is set by \\refstepcounter *locally to the current group*;
    every environment is a group, sectioning commands act at the outer level.
"""
import copy
import re

MARKER_RE = re.compile(r"w(\d+)x")

LEVELS = {"part": -1, "chapter": 0, "section": 1, "subsection": 2,
          "subsubsection": 3, "paragraph": 4, "subparagraph": 5}
SEC_NAMES = ["part", "chapter", "section", "subsection", "subsubsection",
             "paragraph", "subparagraph"]

# decorations: name -> (source before, source after, parsed before, parsed after)
TEXT_DECO = {
    "dq": ("``", "''", "\u201c", "\u201d"),
    "sq": ("`", "'", "\u2018", "\u2019"),
    "en": ("--", "", "\u2013", ""),
    "em": ("---", "", "\u2014", ""),
}
MATH_DECO = {
    "pr": ("", "''"),
    "en": ("--", ""),
    "bq": ("`", "'"),
}

LABEL_CLASSES = (
    "clean",              # the designated object is also the most recent numbered thing
    "stale",              # a nested numbered construct has closed since (LaTeX: outer object)
    "bullet",             # inside an itemize/description item within a numbered object
    "after-unnumbered",   # most recent heading/row is unnumbered: statement is silent
    "no-object",          # nothing numbered is current: statement is silent
    "unasserted",         # designated object carries no (asserted) number
)

EXCLUSIONS = (
    "set-resets",         # \setcounter/\addtocounter on a counter that has dependants
    "eq-before-chapter",  # book/report: equation before the first numbered chapter
    "report-equation",    # report: any numbered equation
    "part-number",        # numbered \part
    "label-stale",        # labels of class 'stale'
    "label-bullet",       # labels of class 'bullet'
    "math-group-charsub", # '' -- ` inside a brace group in mathematics
    "math-eqnarray-charsub",  # '' -- ` inside eqnarray cells
    "enum-optional-label",    # \item[..] inside enumerate
)


# ----------------------------------------------------------------------
# representations (independent of plasTeX: table driven)
# ----------------------------------------------------------------------
_ROMAN_DIGITS = (
    ("", "I", "II", "III", "IV", "V", "VI", "VII", "VIII", "IX"),
    ("", "X", "XX", "XXX", "XL", "L", "LX", "LXX", "LXXX", "XC"),
    ("", "C", "CC", "CCC", "CD", "D", "DC", "DCC", "DCCC", "CM"),
)


def to_roman(n, upper=True):
    """Standard (subtractive) roman numeral of n >= 1, positional table."""
    if n < 1:
        return ""
    s = "M" * (n // 1000)
    n %= 1000
    s += _ROMAN_DIGITS[2][n // 100] + _ROMAN_DIGITS[1][(n // 10) % 10] + _ROMAN_DIGITS[0][n % 10]
    return s if upper else s.lower()


def to_alph(n, upper=True):
    if not 1 <= n <= 26:
        raise ValueError("alph out of range")
    s = "ABCDEFGHIJKLMNOPQRSTUVWXYZ"[n - 1]
    return s if upper else s.lower()


# ----------------------------------------------------------------------
# LaTeX counter machine
# ----------------------------------------------------------------------
class CounterMachine(object):
    def __init__(self, cls, secnumdepth, thms, ucounters=()):
        self.cls = cls
        self.depth = secnumdepth
        self.book = cls in ("book", "report")
        self.value = {}
        self.within = {}
        self.alph = set()          # counters printed with \Alph (after \appendix)
        self.tainted = set()
        self.thm_counter = {}      # env name -> counter name (None for starred)
        names = ["part", "section", "subsection", "subsubsection", "paragraph",
                 "subparagraph", "equation", "figure", "table"]
        if self.book:
            names.insert(1, "chapter")
        for n in names:
            self.value[n] = 0
        chain = ["section", "subsection", "subsubsection", "paragraph", "subparagraph"]
        for a, b in zip(chain, chain[1:]):
            self.within[b] = a
        if self.book:
            for n in ("section", "equation", "figure", "table"):
                self.within[n] = "chapter"
        for t in thms:
            if t.get("star"):
                self.thm_counter[t["name"]] = None
            elif t.get("shared"):
                self.thm_counter[t["name"]] = self.thm_counter[t["shared"]]
            else:
                self.value[t["name"]] = 0
                self.thm_counter[t["name"]] = t["name"]
                if t.get("within"):
                    self.within[t["name"]] = t["within"]
        self.thmnames = set(v for v in self.thm_counter.values() if v)
        # \newcounter{name}[within] declared in the preamble
        for u in ucounters or ():
            self.value[u["name"]] = 0
            if u.get("within"):
                self.within[u["name"]] = u["within"]

    def declare(self, name, within=None):
        """\\newcounter{name}[within] in the document body: the counter exists (at 0) from here on"""
        self.value[name] = 0
        if within:
            self.within[name] = within

    # -- structure --------------------------------------------------------
    def dependants(self, c):
        out = []
        for n in sorted(self.within):
            if self.within[n] == c:
                out.append(n)
                out.extend(self.dependants(n))
        return out

    def sec_level(self, lv):
        if lv == "part" and not self.book:
            return 0
        return LEVELS[lv]

    # -- operations ---------------------------------------------------------
    def step(self, c):
        self.value[c] += 1
        for d in self.dependants(c):
            self.value[d] = 0

    def set(self, c, v):
        self.value[c] = v

    def add(self, c, v):
        self.value[c] += v

    def taint(self, c):
        self.tainted.add(c)
        self.tainted.update(self.dependants(c))

    def appendix(self):
        if self.book:
            self.value["chapter"] = 0
            self.value["section"] = 0
            self.alph.add("chapter")
        else:
            self.value["section"] = 0
            self.value["subsection"] = 0
            self.alph.add("section")

    # -- representations ---------------------------------------------------
    def _own(self, c):
        v = self.value[c]
        if c in self.alph:
            return to_alph(v) if 1 <= v <= 26 else "?"
        if c == "part":
            return to_roman(v)
        return str(v)

    def the(self, c):
        if c in ("equation", "figure", "table"):
            if self.book and self.value["chapter"] > 0:
                return self.the("chapter") + "." + str(self.value[c])
            return str(self.value[c])
        if c in ("part", "chapter"):
            return self._own(c)
        if c == "section":
            if self.book:
                return self.the("chapter") + "." + self._own(c)
            return self._own(c)
        if c in self.thmnames:
            w = self.within.get(c)
            if w:
                return self.the(w) + "." + str(self.value[c])
            return str(self.value[c])
        return self.the(self.within[c]) + "." + str(self.value[c])

    def uses(self, c):
        """Counters the printed form of c depends on (c and its within chain)."""
        out = [c]
        while out[-1] in self.within:
            out.append(self.within[out[-1]])
        return out

    def ok(self, c):
        return not any(x in self.tainted for x in self.uses(c))


# ----------------------------------------------------------------------
# records
# ----------------------------------------------------------------------
class Rec(object):
    def __init__(self, **kw):
        self.__dict__.update(kw)

    def __repr__(self):
        return "Rec(%s)" % ", ".join("%s=%r" % kv for kv in sorted(self.__dict__.items()))

    def as_dict(self):
        return dict(self.__dict__)


class Analysis(object):
    pass


# ----------------------------------------------------------------------
# renderer + predictions (one pass, source order)
# ----------------------------------------------------------------------
class _Emitter(object):
    def __init__(self, doc):
        self.doc = doc
        self.out = []
        self.markers = []
        self.sections = []
        self.objects = []
        self.labels = {}
        self.refs = []
        self.cites = []
        self.bibitems = []
        self.features = set()
        self.cm = CounterMachine(doc["cls"], doc["secnumdepth"], doc.get("thms") or [], doc.get("ucounters") or [])
        self.pending = []            # objects/sections waiting for their first marker
        self.secstack = []           # indices into sections
        self.frames = [None]         # \@currentlabel per open group (object index)
        self.fbullet = [False]       # per open group: the last \item/\bibitem seen in it stepped nothing
        self.funnum = [False]        # per open group: an unnumbered unit came after the current object
        self.last_event = None       # ('obj', i) | ('unnumbered',) | ('bullet',)
        self.ctx = "preamble"
        self.mathgroup = 0
        self.mathenv = None
        self.listkinds = []          # kinds of the open lists, outermost first
        self.seen_numbered_chapter = False
        self.in_arg = 0
        self.event_log = []          # counter-relevant events, for non-triviality
        self.set_parent_seen = False
        self.owner = ["front"]       # innermost construct that owns the text being emitted

    # -- low level ----------------------------------------------------------
    def w(self, s):
        self.out.append(s)

    def marker(self, pre="", post="", spre="", spost=""):
        i = len(self.markers)
        sec = self.secstack[-1] if self.secstack else -1
        self.markers.append(Rec(i=i, ctx=self.ctx, pre=pre, post=post, sec=sec,
                                mathgroup=self.mathgroup > 0, owner=self.owner[-1],
                                mathenv=self.mathenv if self.ctx == "math" else None))
        for p in self.pending:
            p.first = i
        del self.pending[:]
        self.w("%sw%dx%s" % (spre, i, spost))
        return i

    def push(self):
        self.frames.append(self.frames[-1])
        self.fbullet.append(self.fbullet[-1])
        self.funnum.append(self.funnum[-1])

    def pop(self):
        self.frames.pop()
        self.fbullet.pop()
        self.funnum.pop()

    def new_object(self, kind, name, number, asserted=True, position=None, refstep=True):
        o = Rec(kind=kind, name=name, first=None, number=number, asserted=asserted,
                position=position, index=len(self.objects), after_set_parent=self.set_parent_seen)
        self.objects.append(o)
        self.pending.append(o)
        if refstep:
            self.frames[-1] = o.index
            self.fbullet[-1] = False
            self.funnum[-1] = False
            self.last_event = ("obj", o.index)
        return o

    # -- inline -------------------------------------------------------------
    def word(self, n):
        q = n.get("q")
        if q and self.ctx in ("text",):
            spre, spost, pre, post = TEXT_DECO[q]
            self.features.add("deco-text")
            self.marker(pre, post, spre, spost)
        elif q and self.ctx == "preamble":
            self.marker()
        else:
            self.marker()

    def literal_word(self, q):
        """Word in verbatim/verb context: decorations stay literal."""
        if q:
            spre, spost = TEXT_DECO[q][0], TEXT_DECO[q][1]
            self.features.add("deco-" + self.ctx)
            self.marker(spre, spost, spre, spost)
        else:
            self.marker()

    def inlines(self, items):
        first = True
        for n in items:
            if not first:
                self.w(" ")
            first = False
            self.inline(n)

    def inline(self, n):
        k = n["k"]
        if k == "w":
            self.word(n)
        elif k == "cmd":
            self.features.add("fontcmd")
            self.w("\\%s{" % n["n"])
            self.arg(n["c"], "fontcmd")
            self.w("}")
        elif k == "decl":
            self.features.add("declaration")
            bare = bool(n.get("bare"))       # unbraced: lasts to the end of the enclosing argument
            if bare:
                self.features.add("bare-declaration-as-whole-argument")
            self.w(("\\%s " if bare else "{\\%s ") % n["n"])
            self.push()
            self.owner.append("declaration")
            self.inlines(n["c"])
            self.owner.pop()
            self.pop()
            if not bare:
                self.w("}")
        elif k == "bgrp":
            # a plain brace group {..} (no declaration): a group node in the tree, the words stay words
            self.features.add("plain-brace-group")
            self.w("{")
            self.push()
            self.owner.append("bgroup")
            self.inlines(n["c"])
            self.owner.pop()
            self.pop()
            self.w("}")
        elif k == "mbox":
            self.features.add("mbox")
            self.w("\\mbox{")
            self.arg(n["c"], "mbox")
            self.w("}")
        elif k == "footnote":
            self.features.add("footnote")
            self.w("\\footnote{")
            self.arg(n["c"], "footnote")
            self.w("}")
        elif k == "math":
            self.features.add("inline-math")
            self.w("$")
            self.math(n["c"])
            self.w("$")
        elif k == "verb":
            self.features.add("verb")
            old, self.ctx = self.ctx, "verb"
            self.w("\\verb" + n["d"])
            self.literal_word(n.get("q"))
            self.w(n.get("s") or "")
            self.w(n["d"])
            self.ctx = old
        elif k == "label":
            self.label(n["n"])
        elif k == "ref":
            self.ref(n)
        elif k == "cite":
            self.features.add("cite")
            self.cites.append(Rec(keys=list(n["keys"]), pos=len(self.cites)))
            self.w("\\cite{%s}" % ",".join(n["keys"]))
        else:
            raise ValueError("unknown inline %r" % k)

    def arg(self, items, owner=None):
        self.push()
        self.in_arg += 1
        if owner:
            self.owner.append(owner)
        self.inlines(items)
        if owner:
            self.owner.pop()
        self.in_arg -= 1
        self.pop()

    def label(self, name):
        cur = self.frames[-1]
        if cur is None:
            cls = "no-object"
        else:
            o = self.objects[cur]
            if o.number is None or not o.asserted:
                cls = "unasserted"
            elif self.last_event == ("obj", cur):
                cls = "clean"
            elif self.last_event is not None and self.last_event[0] == "obj":
                cls = "stale"
            elif self.last_event == ("bullet",):
                cls = "bullet"
            else:
                cls = "after-unnumbered"
            # still inside an unnumbered item after a nested construct closed: plasTeX's current
            # object is the bullet item again (the listed 'bullet' finding), not a stale inner one
            if cls in ("stale", "after-unnumbered") and self.fbullet[-1]:
                cls = "bullet"
            # a nested construct closed after an unnumbered unit (\section*, ...): whether the label
            # then belongs to that unit or to the last numbered object is not fixed by the statement
            elif cls == "stale" and self.funnum[-1]:
                cls = "after-unnumbered"
        self.labels[name] = Rec(name=name, obj=cur, cls=cls, order=len(self.labels),
                                in_arg=self.in_arg > 0, refs_before=sum(
                                    1 for r in self.refs if r.name == name))
        self.features.add("label-" + cls)
        self.w("\\label{%s}" % name)

    def ref(self, n):
        self.refs.append(Rec(name=n["n"], page=bool(n.get("page")), pos=len(self.refs),
                             before_label=n["n"] not in self.labels))
        self.w("\\%s{%s}" % ("pageref" if n.get("page") else "ref", n["n"]))

    # -- math -----------------------------------------------------------------
    def math(self, items, env="inline"):
        old, self.ctx = self.ctx, "math"
        self.mathenv = env
        self._math(items)
        self.ctx = old

    def _math(self, items):
        first = True
        for n in items:
            if not first:
                self.w(" ")
            first = False
            k = n["k"]
            if k == "w":
                q = n.get("q")
                if q:
                    spre, spost = MATH_DECO[q]
                    self.features.add("deco-math-eqnarray" if self.mathenv == "eqnarray" else
                                      "deco-math-group" if self.mathgroup else "deco-math")
                    self.marker(spre, spost, spre, spost)
                else:
                    self.marker()
            elif k == "op":
                self.w(n["s"])
            elif k == "ref":
                self.features.add("ref-in-math")
                self.ref(n)
            elif k in ("sup", "sub", "grp"):
                self.features.add("math-group")
                self.w({"sup": "^{", "sub": "_{", "grp": "{"}[k])
                self.mathgroup += 1
                self._math(n["c"])
                self.mathgroup -= 1
                self.w("}")
            elif k == "frac":
                self.features.add("math-group")
                self.mathgroup += 1
                self.w("\\frac{")
                self._math(n["a"])
                self.w("}{")
                self._math(n["b"])
                self.w("}")
                self.mathgroup -= 1
            else:
                raise ValueError("unknown math %r" % k)

    # -- blocks -----------------------------------------------------------------
    def blocks(self, items):
        for b in items:
            self.block(b)

    def sep(self, b):
        self.w("\n\n" if b.get("sep", 1) else "\n")

    _OWNER = {"par": "par", "tabular": "cell", "verbatim": "verbatim", "equation": "equation",
              "eqnarray": "eqnarray", "displaymath": "displaymath", "bib": "bibitem"}

    def block(self, b):
        k = b["k"]
        own = self._OWNER.get(k)
        if own:
            self.owner.append(own if (k != "par" or self.owner[-1] in ("front", "body")) else
                              self.owner[-1] + "-par")
        getattr(self, "b_" + k)(b)
        if own:
            self.owner.pop()
        self.sep(b)

    def b_par(self, b):
        if b.get("open"):
            # unscoped declaration: lasts until the enclosing group / document ends
            self.features.add("open-declaration")
            self.w("\\%s " % b["open"])
        self.inlines(b["c"])

    def b_refpar(self, b):
        first = True
        for r in b["refs"]:
            if not first:
                self.w(" ")
            first = False
            self.ref(r)

    def b_list(self, b):
        kind = b["kind"]
        self.features.add(kind)
        if self.listkinds:
            self.features.add("nested-list")
        if len(self.listkinds) >= 4:
            raise ValueError("list nesting deeper than 4")
        self.w("\\begin{%s}\n" % kind)
        self.push()
        self.listkinds.append(kind)
        pos = 0
        optseen = False
        for it in b["items"]:
            self.w("\\item")
            if kind == "enumerate" and it.get("term") is None:
                pos += 1
                o = self.new_object("item", "item", str(pos), position=pos)
                o.after_optional = optseen
            else:
                # itemize/description items and \item[..] in enumerate: LaTeX steps nothing
                if kind == "enumerate":
                    optseen = True
                    self.features.add("enumerate-optional-label")
                self.last_event = ("bullet",)
                self.fbullet[-1] = True
            if it.get("term") is not None:
                self.features.add("item-term")
                self.w("[")
                self.arg(it["term"], "term")
                self.w("]")
            self.w(" ")
            if len(it["c"]) > 1:
                self.features.add("multi-block-item")
            self.owner.append("item")
            self.blocks(it["c"])
            self.owner.pop()
        self.listkinds.pop()
        self.pop()
        self.w("\\end{%s}" % kind)

    def b_tabular(self, b):
        self.features.add("tabular")
        if self.listkinds:
            self.features.add("table-in-list")
        ncol = max(len(r) for r in b["rows"])
        self.w("\\begin{tabular}{%s}\n" % ("l" * ncol))
        self.push()
        for ri, row in enumerate(b["rows"]):
            for ci, cell in enumerate(row):
                if ci:
                    self.w(" & ")
                self.push()
                self.inlines(cell)
                self.pop()
            if ri < len(b["rows"]) - 1:
                self.w(" \\\\\n")
        self.pop()
        self.w("\n\\end{tabular}")

    def b_env(self, b):
        self.features.add(b["name"])
        self.w("\\begin{%s}\n" % b["name"])
        self.push()
        self.owner.append(b["name"])
        self.blocks(b["c"])
        self.owner.pop()
        self.pop()
        self.w("\\end{%s}" % b["name"])

    def b_float(self, b):
        self.features.add(b["name"])
        self.w("\\begin{%s}\n" % b["name"])
        self.push()
        self.owner.append(b["name"])
        self.blocks(b["c"])
        self.owner.pop()
        self.pop()
        self.w("\\end{%s}" % b["name"])

    def b_caption(self, b):
        self.features.add("caption")
        ctr = b["float"]
        self.cm.step(ctr)
        self.event_log.append("step:" + ctr)
        self.new_object("caption", "caption", self.cm.the(ctr), asserted=self.cm.ok(ctr))
        self.w("\\caption")
        if b.get("toc") is not None:
            self.w("[")
            self.arg(b["toc"], "caption-toc")
            self.w("]")
        self.w("{")
        self.arg(b["c"], "caption")
        self.w("}")

    def _equation_number(self):
        self.cm.step("equation")
        self.event_log.append("step:equation")
        if self.cm.book and not self.seen_numbered_chapter:
            self.features.add("eq-before-chapter")
        if self.doc["cls"] == "report":
            self.features.add("report-equation")
        return self.cm.the("equation"), self.cm.ok("equation")

    def b_equation(self, b):
        self.features.add("equation")
        self.w("\\begin{equation}")
        self.push()
        num, okk = self._equation_number()
        self.new_object("equation", "equation", num, asserted=okk)
        self.math(b["c"], "equation")
        if b.get("label"):
            self.label(b["label"])
        self.pop()
        self.w("\\end{equation}")

    def b_eqnarray(self, b):
        star = b.get("star")
        self.features.add("eqnarray*" if star else "eqnarray")
        name = "eqnarray*" if star else "eqnarray"
        self.w("\\begin{%s}\n" % name)
        self.push()
        for ri, row in enumerate(b["rows"]):
            if star:
                pass
            elif row.get("nonumber"):
                self.features.add("nonumber")
                self.new_object("row", "ArrayRow", None, refstep=False)
                self.last_event = ("unnumbered",); self.funnum[-1] = True
            else:
                num, okk = self._equation_number()
                o = self.new_object("row", "ArrayRow", num, asserted=okk)
                o.rowindex = ri
            self.math(row["l"], "eqnarray")
            self.w(" &=& ")
            self.math(row["r"], "eqnarray")
            if row.get("nonumber") and not star:
                self.w(" \\nonumber")
            if row.get("label") and not star and not row.get("nonumber"):
                self.label(row["label"])
            if ri < len(b["rows"]) - 1:
                self.w(" \\\\\n")
        self.pop()
        self.w("\n\\end{%s}" % name)

    def b_displaymath(self, b):
        self.features.add("displaymath")
        self.w("\\[")
        self.push()
        self.math(b["c"], "displaymath")
        self.pop()
        self.w("\\]")

    def b_verbatim(self, b):
        self.features.add("verbatim")
        old, self.ctx = self.ctx, "verbatim"
        self.w("\\begin{verbatim}\n")
        for line in b["lines"]:
            first = True
            for t in line:
                if not first:
                    self.w(" ")
                first = False
                self.literal_word(t.get("q"))
            self.w("\n")
        self.w("\\end{verbatim}")
        self.ctx = old

    def b_thm(self, b):
        self.features.add("theorem")
        ctr = self.cm.thm_counter[b["name"]]
        self.w("\\begin{%s}" % b["name"])
        self.push()
        if ctr is None:
            self.new_object("thm", "thmenv", None, refstep=False)
            self.last_event = ("unnumbered",); self.funnum[-1] = True
        else:
            self.cm.step(ctr)
            self.event_log.append("step:" + ctr)
            if ctr != b["name"]:
                self.features.add("theorem-shared")
            if self.cm.within.get(ctr):
                self.features.add("theorem-within")
            self.new_object("thm", "thmenv", self.cm.the(ctr), asserted=self.cm.ok(ctr))
        if b.get("title") is not None:
            self.w("[")
            self.arg(b["title"], "thm-title")
            self.w("]")
        self.w("\n")
        self.owner.append("thm")
        self.blocks(b["c"])
        self.owner.pop()
        self.pop()
        self.w("\\end{%s}" % b["name"])

    def b_bib(self, b):
        self.features.add("thebibliography")
        self.w("\\begin{thebibliography}{9}\n")
        self.push()
        for it in b["items"]:
            o = Rec(key=it["key"], first=None, index=len(self.bibitems))
            self.bibitems.append(o)
            self.pending.append(o)
            self.last_event = ("bullet",)
            self.fbullet[-1] = True
            self.w("\\bibitem{%s} " % it["key"])
            self.inlines(it["c"])
            self.w("\n")
        self.pop()
        self.w("\\end{thebibliography}")

    # -- top level items ---------------------------------------------------------
    def b_sec(self, b):
        lv = b["lv"]
        self.features.add(lv + ("*" if b.get("star") else ""))
        level = LEVELS[lv]
        while self.secstack and self.sections[self.secstack[-1]].level >= level:
            self.secstack.pop()
        parent = self.secstack[-1] if self.secstack else -1
        s = Rec(first=None, level=level, parent=parent, star=bool(b.get("star")),
                index=len(self.sections), name=lv)
        self.sections.append(s)
        self.secstack.append(s.index)
        self.pending.append(s)
        cm = self.cm
        if b.get("star"):
            self.new_object("sec", lv, None, refstep=False)
            self.last_event = ("unnumbered",); self.funnum[-1] = True
        elif cm.sec_level(lv) > cm.depth:
            # LaTeX: no \refstepcounter at all -> everything that depends on the
            # counter is outside what is asserted from here on
            cm.taint(lv)
            self.features.add("unnumbered-by-depth")
            self.new_object("sec", lv, None, refstep=False)
            self.last_event = ("unnumbered",); self.funnum[-1] = True
        else:
            had = [d for d in cm.dependants(lv) if cm.value[d]]
            if had:
                self.features.add("reset-event")
                self.event_log.append("reset:" + lv)
            cm.step(lv)
            self.event_log.append("step:" + lv)
            if lv == "chapter":
                self.seen_numbered_chapter = True
            if lv in cm.alph:
                self.features.add("appendix-unit")
            if lv == "part":
                self.features.add("numbered-part")
            self.new_object("sec", lv, cm.the(lv), asserted=cm.ok(lv))
        self.w("\\%s%s" % (lv, "*" if b.get("star") else ""))
        old, self.ctx = self.ctx, "text"
        if b.get("toc") is not None:
            self.features.add("toc-title")
            self.w("[")
            self.arg(b["toc"], "sec-toc")
            self.w("]")
        self.w("{")
        self.arg(b["title"], "sec-title")
        self.w("}")
        self.ctx = old

    def b_appendix(self, b):
        self.features.add("appendix")
        self.cm.appendix()
        self.w("\\appendix")

    def b_newctr(self, b):
        self.features.add("user-counter-declared-in-body" + ("-within" if b.get("within") else ""))
        self.cm.declare(b["name"], b.get("within"))
        if b.get("within"):
            self.w("\\newcounter{%s}[%s]" % (b["name"], b["within"]))
        else:
            self.w("\\newcounter{%s}" % b["name"])

    def b_ctr(self, b):
        op, c, v = b["op"], b["c"], b.get("v", 0)
        self.features.add("ctr-" + op)
        deps = [d for d in self.cm.dependants(c)]
        if op == "step":
            self.cm.step(c)
            self.w("\\stepcounter{%s}" % c)
        else:
            if deps:
                self.features.add("set-on-parent")
                if any(self.cm.value[d] for d in deps):
                    self.features.add("set-on-parent-nonzero")
                    self.set_parent_seen = True
            if op == "set":
                self.cm.set(c, v)
                self.w("\\setcounter{%s}{%d}" % (c, v))
            else:
                self.cm.add(c, v)
                self.w("\\addtocounter{%s}{%d}" % (c, v))
        self.event_log.append(op + ":" + c)

    # -- document ---------------------------------------------------------------
    def run(self):
        d = self.doc
        self.w("\\documentclass{%s}\n" % d["cls"])
        for t in d.get("thms") or []:
            if t.get("star"):
                self.w("\\newtheorem*{%s}{%s}\n" % (t["name"], t["cap"]))
            elif t.get("shared"):
                self.w("\\newtheorem{%s}[%s]{%s}\n" % (t["name"], t["shared"], t["cap"]))
            elif t.get("within"):
                self.w("\\newtheorem{%s}{%s}[%s]\n" % (t["name"], t["cap"], t["within"]))
            else:
                self.w("\\newtheorem{%s}{%s}\n" % (t["name"], t["cap"]))
        for u in d.get("ucounters") or []:
            self.features.add("user-counter" + ("-within" if u.get("within") else ""))
            if u.get("within"):
                self.w("\\newcounter{%s}[%s]\n" % (u["name"], u["within"]))
            else:
                self.w("\\newcounter{%s}\n" % u["name"])
        if d.get("title") is not None:
            self.features.add("title")
            self.w("\\title{")
            self.arg(d["title"], "doc-title")
            self.w("}\n")
        self.w("\\begin{document}\n")
        self.ctx = "text"
        self.owner = ["body"]
        self.push()
        for b in d["body"]:
            self.block(b)
        self.pop()
        self.w("\\end{document}\n")
        if self.pending:
            # objects after the last marker: they have no key
            for p in self.pending:
                p.first = None
        a = Analysis()
        a.source = "".join(self.out)
        a.markers = self.markers
        a.sections = self.sections
        a.objects = self.objects
        a.labels = self.labels
        a.refs = self.refs
        for r in a.refs:
            r.dangling = r.name not in self.labels
        a.cites = self.cites
        a.bibitems = self.bibitems
        a.features = self.features
        a.tainted = set(self.cm.tainted)
        a.counters = dict((k, v) for k, v in self.cm.value.items()
                          if k not in self.cm.tainted)
        a.events = self.event_log
        a.set_parent_seen = self.set_parent_seen
        a.cls = d["cls"]
        return a


def analyze(doc):
    return _Emitter(doc).run()


def render(doc):
    return analyze(doc).source


# ----------------------------------------------------------------------
# AST utilities
# ----------------------------------------------------------------------
INLINE_KINDS = ("w", "cmd", "decl", "bgrp", "mbox", "footnote", "math", "verb", "label", "ref", "cite")
_INLINE_CONTAINERS = ("cmd", "decl", "bgrp", "mbox", "footnote", "math")


def _walk_inlines(items, fn):
    """Rebuild an inline list; fn(node) returns the node, a replacement, or None."""
    out = []
    for n in items:
        n = fn(n)
        if n is None:
            continue
        if n["k"] in _INLINE_CONTAINERS:
            n = dict(n, c=_walk_inlines(n["c"], fn))
        out.append(n)
    return out


def transform(node, fn_inline=None, fn_block=None):
    """Deep copy of an AST.  fn_inline(n) is applied to every inline node (return
    None to delete it); fn_block(b) to every dict that has a block kind, before
    its children are visited (must return a dict)."""
    if isinstance(node, list):
        if node and all(isinstance(x, dict) for x in node) and \
                node[0].get("k") in INLINE_KINDS:
            return _walk_inlines(node, fn_inline) if fn_inline else copy.deepcopy(node)
        return [transform(x, fn_inline, fn_block) for x in node]
    if isinstance(node, dict):
        if fn_block is not None and node.get("k") not in INLINE_KINDS:
            node = fn_block(node)
        return dict((k, transform(v, fn_inline, fn_block)) for k, v in node.items())
    return node


def refs_moved(doc, where):
    """Variant with every \\ref / \\pageref removed from its place and re-issued,
    in the original order, in one paragraph at the front or the back of the body.
    Marker numbering is unchanged (the new paragraph has no text)."""
    refs = []

    def strip(n):
        if n["k"] == "ref":
            refs.append({"n": n["n"], "page": bool(n.get("page"))})
            return None
        return n
    new = transform(doc, strip)
    blk = {"k": "refpar", "refs": refs, "sep": 1}
    if refs:
        if where == "front":
            new["body"] = [blk] + new["body"]
        else:
            new["body"] = new["body"] + [blk]
    return new


def drop_labels(doc, names):
    names = set(names)

    def fi(n):
        if n["k"] == "label" and n["n"] in names:
            return None
        return n

    def fb(b):
        if b.get("k") == "equation" and b.get("label") in names:
            b = dict(b, label=None)
        elif b.get("k") == "eqnarray":
            b = dict(b, rows=[dict(r, label=None) if r.get("label") in names else r
                              for r in b["rows"]])
        return b
    return transform(doc, fi, fb)


# ----------------------------------------------------------------------
# Hypothesis strategies
# ----------------------------------------------------------------------
ALL_FEATURES = frozenset([
    "sections", "title", "fonts", "decl", "mbox", "footnote", "math", "verb", "quotes",
    "lists", "tabular", "envs", "floats", "display", "verbatim", "theorems",
    "labels", "refs", "counters", "appendix", "bib", "secnumdepth",
])


def documents(features=ALL_FEATURES, exclude=(), max_items=14, classes=("article", "book", "report"),
              boost=()):
    """Strategy of document cases.  `features` (subset of ALL_FEATURES) selects the
    constructs, `exclude` (subset of EXCLUSIONS) removes constructs by construction,
    `boost` lists block kinds (par list tabular env equation eqnarray displaymath
    verbatim thm float) that get extra weight."""
    from hypothesis import strategies as st
    F = frozenset(features)
    X = frozenset(exclude)

    deco_text = st.sampled_from([None, None, None, "dq", "sq", "en", "em"]) if "quotes" in F \
        else st.just(None)
    deco_math = st.sampled_from([None, None, "pr", "en", "bq"]) if "quotes" in F else st.just(None)

    @st.composite
    def word(draw):
        return {"k": "w", "q": draw(deco_text)}

    @st.composite
    def math(draw, depth=0, noq=False):
        n = draw(st.integers(1, 3))
        out = []
        for i in range(n):
            if i:
                out.append({"k": "op", "s": draw(st.sampled_from(["+", "-", "=", "<", ","]))})
            q = draw(deco_math)
            if q and (noq or (depth > 0 and "math-group-charsub" in X)):
                q = None
            out.append({"k": "w", "q": q})
            if depth == 0 and "refs" in F and draw(st.integers(0, 7)) == 0:
                # a reference written inside the formula
                out.append({"k": "ref", "n": draw(st.integers(0, 40)), "page": False})
            if depth < 2 and draw(st.integers(0, 3)) == 0:
                kind = draw(st.sampled_from(["sup", "sub", "grp", "frac"]))
                if kind == "frac":
                    out.append({"k": "frac", "a": draw(math(depth + 1, noq)), "b": draw(math(depth + 1, noq))})
                else:
                    out.append({"k": kind, "c": draw(math(depth + 1, noq))})
        return out

    @st.composite
    def optional_inlines(draw):
        """Content of an optional argument ([toc] title, \\item[term]); a quarter are macro-free text
        with a plain brace group (\\item[{w} w], the idiom for brackets in labels)."""
        if draw(st.integers(0, 3)) == 0:
            grp = {"k": "bgrp", "c": [draw(word()) for _ in range(draw(st.integers(1, 2)))]}
            out = [grp]
            if draw(st.booleans()):
                out.insert(draw(st.integers(0, 1)), draw(word()))
            return out
        return draw(inlines(1, True, False, 1))

    @st.composite
    def title_inlines(draw):
        """A sectioning title; one in five is a single node: an unbraced declaration that absorbs
        the whole title (\\section{\\itshape a ``b'' -- c})."""
        t = draw(inlines(1, True, True, 2))
        if "decl" in F and draw(st.integers(0, 4)) == 0:
            t = [{"k": "decl", "n": draw(st.sampled_from(["itshape", "bfseries", "sffamily"])), "c": t,
                  "bare": True}]
        return t

    @st.composite
    def inlines(draw, depth=0, inarg=False, labels=True, maxn=4):
        """Always starts with a word (so that every object has its own first marker)."""
        out = [draw(word())]
        n = draw(st.integers(0, maxn))
        for _ in range(n):
            choices = ["w", "w"]
            if depth < 2:
                if "fonts" in F:
                    choices.append("cmd")
                if "decl" in F:
                    choices.append("decl")
                if "mbox" in F:
                    choices.append("mbox")
                if "footnote" in F and not inarg:
                    choices.append("footnote")
            if "math" in F:
                choices.append("math")
            if "verb" in F and not inarg:
                choices.append("verb")
            if "labels" in F and labels:
                choices.extend(["label", "label"])
            if "refs" in F:
                choices.extend(["ref", "ref"])
            if "bib" in F:
                choices.append("cite")
            k = draw(st.sampled_from(choices))
            if k == "w":
                out.append(draw(word()))
            elif k == "cmd":
                out.append({"k": "cmd", "n": draw(st.sampled_from(["textbf", "emph", "textit", "texttt"])),
                            "c": draw(inlines(depth + 1, True, labels, 2))})
            elif k == "decl":
                out.append({"k": "decl", "n": draw(st.sampled_from(["bfseries", "itshape", "sffamily", "small"])),
                            "c": draw(inlines(depth + 1, inarg, labels, 2))})
            elif k == "mbox":
                out.append({"k": "mbox", "c": draw(inlines(depth + 1, True, labels, 2))})
            elif k == "footnote":
                out.append({"k": "footnote", "c": draw(inlines(depth + 1, True, False, 2))})
            elif k == "math":
                out.append({"k": "math", "c": draw(math())})
            elif k == "verb":
                out.append({"k": "verb", "d": draw(st.sampled_from(["|", "+", "!", "="])),
                            "q": draw(deco_text), "s": draw(st.sampled_from(["", "", "{", "_", "$x"]))})
            elif k == "label":
                out.append({"k": "label", "n": "?"})
            elif k == "ref":
                out.append({"k": "ref", "n": draw(st.integers(0, 40)), "page": draw(st.integers(0, 4)) == 0})
            elif k == "cite":
                out.append({"k": "cite", "keys": draw(st.lists(st.sampled_from(BIBKEYS + ["nokey"]),
                                                               min_size=1, max_size=2, unique=True))})
        return out

    def par(depth=0, labels=True):
        return inlines(0, False, labels).map(lambda c: {"k": "par", "c": c})

    @st.composite
    def block(draw, depth, thmnames, toplevel=False, infloat=None, openok=False):
        choices = ["par"] * 5
        if depth < 4 and "lists" in F:
            choices.extend(["list", "list"])
        if "tabular" in F:
            choices.append("tabular")
        if depth < 3 and "envs" in F:
            choices.append("env")
        if "display" in F and infloat is None:
            choices.extend(["equation", "eqnarray", "displaymath"])
        if "verbatim" in F and infloat is None:
            choices.append("verbatim")
        if "theorems" in F and thmnames and depth < 3 and infloat is None:
            choices.extend(["thm", "thm", "thm"])
        if toplevel and "floats" in F:
            choices.extend(["float", "float"])
        for extra in boost:
            if extra in choices:
                choices.extend([extra, extra])
        k = draw(st.sampled_from(choices))
        sep = draw(st.integers(0, 2)) > 0
        if k == "par":
            b = draw(par())
            sep = 1
            if "decl" in F and (toplevel or openok) and infloat is None and draw(st.integers(0, 7)) == 0:
                b["open"] = draw(st.sampled_from(["small", "bfseries", "itshape", "centering"]))
        elif k == "list":
            kind = draw(st.sampled_from(["itemize", "enumerate", "enumerate", "description"]))
            items = []
            for _ in range(draw(st.integers(1, 3))):
                first = draw(par())
                rest = draw(st.lists(block(depth + 1, thmnames), max_size=2)) if depth < 3 else []
                term = None
                if kind == "description" or (kind == "enumerate" and "enum-optional-label" not in X
                                             and draw(st.integers(0, 7)) == 0):
                    term = draw(optional_inlines())
                if rest and kind == "enumerate" and "labels" in F and draw(st.integers(0, 2)) == 0:
                    rest.append({"k": "par", "c": [{"k": "w", "q": None}, {"k": "label", "n": "?"}], "sep": 1})
                items.append({"term": term, "c": [first] + rest})
            b = {"k": "list", "kind": kind, "items": items}
        elif k == "tabular":
            ncol = draw(st.integers(1, 3))
            rows = [[draw(inlines(1, False, True, 1)) for _ in range(ncol)]
                    for _ in range(draw(st.integers(1, 3)))]
            # a row may have one empty cell (an empty top-left corner, a gap), never all of them
            if ncol >= 2:
                for row in rows:
                    if draw(st.integers(0, 3)) == 0:
                        row[draw(st.sampled_from([0, 0, ncol - 1, draw(st.integers(0, ncol - 1))]))] = []
            b = {"k": "tabular", "rows": rows}
        elif k == "env":
            b = {"k": "env", "name": draw(st.sampled_from(["quote", "center", "flushleft"])),
                 "c": draw(st.lists(block(depth + 1, thmnames, openok=True), min_size=1, max_size=3))}
            # half of the environments end right after their last paragraph (no blank line before
            # \end{..}); a third hold just one such paragraph, so no \par token occurs inside at all
            tight = draw(st.integers(0, 5))
            if tight == 0:
                b["c"] = [draw(par())]
            if tight <= 2 and b["c"][-1]["k"] == "par" and not b["c"][-1].get("open"):
                b["c"][-1] = dict(b["c"][-1], sep=0)
        elif k == "equation":
            b = {"k": "equation", "c": draw(math()),
                 "label": "?" if ("labels" in F and draw(st.booleans())) else None}
        elif k == "eqnarray":
            star = draw(st.integers(0, 4)) == 0
            rows = []
            for _ in range(draw(st.integers(1, 3))):
                nn = draw(st.integers(0, 3)) == 0
                noq = "math-eqnarray-charsub" in X
                rows.append({"l": draw(math(0, noq)), "r": draw(math(1, noq)), "nonumber": nn,
                             "label": "?" if ("labels" in F and not nn and not star
                                              and draw(st.booleans())) else None})
            b = {"k": "eqnarray", "star": star, "rows": rows}
        elif k == "displaymath":
            b = {"k": "displaymath", "c": draw(math())}
        elif k == "verbatim":
            lines = draw(st.lists(st.lists(st.builds(lambda q: {"q": q}, deco_text), min_size=1, max_size=3),
                                  min_size=1, max_size=3))
            b = {"k": "verbatim", "lines": lines}
            sep = 1
        elif k == "thm":
            body = [draw(par())] + draw(st.lists(block(depth + 1, thmnames), max_size=2))
            if len(body) > 1 and "labels" in F and draw(st.booleans()):
                body.append({"k": "par", "c": [{"k": "w", "q": None}, {"k": "label", "n": "?"}], "sep": 1})
            b = {"k": "thm", "name": draw(st.sampled_from(thmnames)),
                 # the optional note may carry the theorem's label (LaTeX steps the counter before it)
                 "title": draw(inlines(1, True, True, 1)) if draw(st.integers(0, 3)) == 0 else None,
                 "c": body}
        elif k == "float":
            name = draw(st.sampled_from(["figure", "table"]))
            body = []
            ncap = draw(st.sampled_from([0, 1, 1, 1, 2]))
            for i in range(draw(st.integers(1, 2))):
                body.append(draw(st.one_of(par(), block(depth + 1, thmnames, infloat=name))))
            for i in range(ncap):
                cap = {"k": "caption", "float": name,
                       "toc": draw(optional_inlines()) if draw(st.integers(0, 4)) == 0 else None,
                       "c": draw(inlines(1, True, True, 2)), "sep": draw(st.integers(0, 1))}
                pos = draw(st.integers(0, len(body)))
                body.insert(pos, cap)
                if "labels" in F and draw(st.booleans()):
                    body.insert(pos + 1, {"k": "par", "c": [{"k": "label", "n": "?"}, {"k": "w", "q": None}],
                                          "sep": 1})
            b = {"k": "float", "name": name, "c": body}
        b["sep"] = 1 if sep else 0
        return b

    @st.composite
    def document(draw):
        pool = list(classes)
        if "report-equation" in X and len(pool) > 1 and "report" in pool:
            pool = [c for c in pool if c != "report"] * 3 + ["report"]
        cls = draw(st.sampled_from(pool))
        book = cls in ("book", "report")
        depth = draw(st.sampled_from([2, 2, 3, 1, 5, 0, 4, -1])) if "secnumdepth" in F else 2
        if not book and depth < 0:
            depth = 0       # article: \part at secnumdepth -1 (documented normal form)
        seclevels = (["part", "chapter", "section", "subsection", "subsubsection", "paragraph", "subparagraph"]
                     if book else
                     ["part", "section", "subsection", "subsubsection", "paragraph", "subparagraph"])
        thms = []
        if "theorems" in F:
            nthm = draw(st.sampled_from([0, 1, 2, 2, 3, 3]))
            caps = ["Theorem", "Lemma", "Remark"]
            for i in range(nthm):
                t = {"name": "thm" + "abc"[i], "cap": caps[i], "shared": None, "within": None, "star": False}
                mode = draw(st.sampled_from(["own", "own", "within", "within", "shared", "shared", "shared", "star"]))
                if mode == "shared" and any(not x["star"] and not x["shared"] for x in thms):
                    t["shared"] = draw(st.sampled_from([x["name"] for x in thms
                                                        if not x["star"] and not x["shared"]]))
                elif mode == "within":
                    t["within"] = draw(st.sampled_from((["chapter"] if book else []) + ["section", "subsection"]))
                elif mode == "star":
                    t["star"] = True
                thms.append(t)
        thmnames = [t["name"] for t in thms]
        ctrnames = [c for c in (["chapter"] if book else []) +
                    ["section", "subsection", "subsubsection", "equation", "figure", "table"]]
        ctrnames += [t["name"] for t in thms if not t["star"] and not t["shared"]]
        # user counters: \newcounter{uca}[section] etc.; they are stepped/set by the counter commands
        # and their final value is compared (resetting when the parent is stepped is the point)
        ucounters = []
        if "counters" in F and "user-counter" not in X:
            for i in range(draw(st.integers(0, 2))):
                ucounters.append({"name": "uc" + "ab"[i],
                                  "within": draw(st.sampled_from([None, "section", "subsection"] +
                                                                 (["chapter"] if book else []) +
                                                                 (["uca"] if i == 1 else [])))})
            ctrnames += [u["name"] for u in ucounters] * 3
        body = []
        n = draw(st.integers(1, max_items))
        have_chapter = False
        i = 0
        cur = 0
        if book and "eq-before-chapter" in X and "sections" in F and draw(st.integers(0, 4)) > 0:
            # numbered equations are only asserted after the first numbered chapter
            cur = 1
            body.append({"k": "sec", "lv": "chapter", "star": False, "toc": None,
                         "title": draw(inlines(1, True, True, 2)), "sep": 1})
        while i < n:
            i += 1
            r = draw(st.integers(0, 9))
            if "sections" in F and r < 4:
                # level walk: mostly next deeper / same / shallower, sometimes a jump
                step = draw(st.sampled_from([-2, -1, 0, 0, 1, 1, 1, 1, 2]))
                cur = min(max(cur + step, 0), len(seclevels) - 1)
                if not body and draw(st.booleans()):
                    cur = 1 if book else 1
                lv = seclevels[cur]
                star = draw(st.integers(0, 5)) == 0
                if lv == "part" and "part-number" in X:
                    star = True
                if lv == "chapter" and not star:
                    have_chapter = True
                body.append({"k": "sec", "lv": lv, "star": star,
                             "toc": draw(optional_inlines()) if draw(st.integers(0, 4)) == 0 else None,
                             "title": draw(title_inlines()), "sep": draw(st.integers(0, 1))})
            elif "counters" in F and r == 4 and ctrnames:
                c = draw(st.sampled_from(ctrnames))
                op = draw(st.sampled_from(["set", "add", "step", "set"]))
                # (mostly small values; sometimes one that puts the next step on a round number)
                v = draw(st.integers(0, 7)) if draw(st.integers(0, 4)) else \
                    draw(st.sampled_from([9, 10, 19, 20, 29, 99, 100, 109]))
                body.append({"k": "ctr", "op": op, "c": c, "v": v, "sep": 1})
            elif "appendix" in F and r == 5 and draw(st.integers(0, 2)) == 0 and \
                    not any(b["k"] == "appendix" for b in body):
                body.append({"k": "appendix", "sep": 1})
                top = "chapter" if book else "section"
                cur = seclevels.index(top)
                body.append({"k": "sec", "lv": top, "star": False, "toc": None,
                             "title": draw(inlines(1, True, True, 2)), "sep": 1})
            else:
                body.append(draw(block(0, thmnames, toplevel=True)))
        if "bib" in F and draw(st.integers(0, 2)) == 0:
            keys = draw(st.lists(st.sampled_from(BIBKEYS), min_size=1, max_size=3, unique=True))
            bib = {"k": "bib", "items": [{"key": k, "c": draw(inlines(1, False, False, 1))} for k in keys],
                   "sep": 1}
            pos = draw(st.sampled_from([len(body), len(body), 0, draw(st.integers(0, len(body)))]))
            body.insert(pos, bib)
        if "counters" in F and "user-counter" not in X and len(body) >= 2 and draw(st.integers(0, 3)) == 0:
            # a counter declared in the body, after its parent may already have been stepped,
            # then stepped/set at later positions
            i = draw(st.integers(1, len(body) - 1))
            w = draw(st.sampled_from(["section", "section", "subsection", None] + (["chapter"] if book else [])))
            body.insert(i, {"k": "newctr", "name": "ucl", "within": w, "sep": 1})
            for _ in range(draw(st.integers(1, 4))):
                j = draw(st.integers(i + 1, len(body)))
                body.insert(j, {"k": "ctr", "op": draw(st.sampled_from(["step", "step", "step", "set"])), "c": "ucl",
                                "v": draw(st.integers(0, 7)), "sep": 1})
        doc = {"cls": cls, "secnumdepth": depth,
               "title": draw(inlines(1, True, False, 2)) if ("title" in F and draw(st.booleans())) else None,
               "thms": thms, "ucounters": ucounters, "body": body}
        return finalize(doc, X)

    return document()


BIBKEYS = ["ka", "kb", "kc", "kd"]
LABEL_STYLES = ["l%d", "sec:l%d", "l %d", "l_%d", "l-%d", "l.%d", "my l%d x", "l%d", "eq:first_l%d"]


def _iter_blocks(items):
    for b in items:
        yield b
        k = b.get("k")
        if k == "list":
            for it in b["items"]:
                for x in _iter_blocks(it["c"]):
                    yield x
        elif k in ("env", "float", "thm"):
            for x in _iter_blocks(b["c"]):
                yield x


def finalize(doc, exclude=()):
    """Deterministic post-pass of the strategy: names the labels, resolves the
    reference indices, sanitises counter commands, and removes the constructs
    listed in `exclude` plus those outside every property's domain."""
    X = frozenset(exclude)
    doc = copy.deepcopy(doc)
    # 1. give every label slot a unique name
    counter = [0]

    def fresh():
        counter[0] += 1
        # label keys are arbitrary text: blanks and punctuation are legal and common ("sec:intro",
        # "main result"); the style is a function of the slot number (no random choice here)
        i = counter[0] - 1
        return LABEL_STYLES[i % len(LABEL_STYLES)] % i

    def name(n):
        if n["k"] == "label" and n["n"] == "?":
            n = dict(n, n=fresh())
        return n

    def nameb(b):
        if b.get("k") == "equation" and b.get("label") == "?":
            b = dict(b, label=fresh())
        elif b.get("k") == "eqnarray":
            b = dict(b, rows=[dict(r, label=fresh()) if r.get("label") == "?" else r
                              for r in b["rows"]])
        return b
    doc = transform(doc, name, nameb)

    # 2. sanitise counter commands against the model (values stay in 0..20 and
    #    Alph-printed counters in 1..26; counters must exist in the class)
    cm = CounterMachine(doc["cls"], doc["secnumdepth"], doc.get("thms") or [], doc.get("ucounters") or [])
    body = []
    for b in doc["body"]:
        if b["k"] == "newctr":
            if b["name"] in cm.value or (b.get("within") and b["within"] not in cm.value):
                continue
            cm.declare(b["name"], b.get("within"))
        if b["k"] == "ctr":
            c = b["c"]
            if c not in cm.value:
                continue
            if b["op"] in ("set", "add") and "set-resets" in X and cm.dependants(c):
                b = dict(b, op="step")
            if b["op"] == "add":
                b = dict(b, v=b["v"] - 2)
        body.append(b)
    doc["body"] = body
    # values: run the analysis and drop commands that drive a counter negative
    doc = _drop_bad_counter_ops(doc)

    # 3. structural exclusions
    if "eq-before-chapter" in X or "report-equation" in X:
        doc = _drop_equations(doc, X)

    # 4. classify labels with the model; drop those outside the domain / excluded
    a = analyze(doc)
    drop = []
    for nm, lab in a.labels.items():
        if lab.cls in ("no-object", "unasserted", "after-unnumbered"):
            drop.append(nm)
        elif lab.cls == "stale" and "label-stale" in X:
            drop.append(nm)
        elif lab.cls == "bullet" and "label-bullet" in X:
            drop.append(nm)
    taken = {}
    # one label per object (the label *is* the object's id); callers that pass "+multi-label"
    # (C09) keep a second label on the same object: both keys must resolve to it
    per_object = 2 if "+multi-label" in X else 1
    for nm in sorted(a.labels, key=lambda n: a.labels[n].order):
        if nm in drop:
            continue
        if taken.get(a.labels[nm].obj, 0) >= per_object:
            drop.append(nm)
            continue
        taken[a.labels[nm].obj] = taken.get(a.labels[nm].obj, 0) + 1
    if drop:
        doc = drop_labels(doc, drop)
        a = analyze(doc)
    names = sorted(a.labels, key=lambda n: a.labels[n].order)

    # 5. resolve reference indices: mostly existing labels, sometimes dangling
    def res(n):
        if n["k"] == "ref" and not isinstance(n["n"], str):
            i = n["n"]
            if names and i % 7 != 6:
                n = dict(n, n=names[i % len(names)])
            else:
                n = dict(n, n="zz%d" % (i % 3))
        return n
    doc = transform(doc, res)
    return doc


def _drop_bad_counter_ops(doc):
    """Remove \\setcounter/\\addtocounter commands that would make a value negative or
    push an \\Alph-printed counter out of 0..25."""
    cm = CounterMachine(doc["cls"], doc["secnumdepth"], doc.get("thms") or [], doc.get("ucounters") or [])
    out = []
    app = False
    for b in doc["body"]:
        k = b["k"]
        if k == "appendix":
            app = True
        if k == "ctr":
            c, op, v = b["c"], b["op"], b.get("v", 0)
            if op == "add" and v == 0:
                continue
            # a conservative static bound: keep explicit values small, and leave the
            # appendix top unit alone (Alph range)
            top = "chapter" if cm.book else "section"
            if app and c == top and op != "step":
                continue
            if op == "add" and v < 0:
                # only allowed when the model value stays >= 0: decide with a dry run
                try:
                    val = analyze(dict(doc, body=out)).counters.get(c)
                except Exception:
                    val = None
                if val is None or val + v < 0:
                    continue
        out.append(b)
    return dict(doc, body=out)


def _drop_equations(doc, X):
    book = doc["cls"] in ("book", "report")
    if not book:
        return doc
    allways = "report-equation" in X and doc["cls"] == "report"
    before = "eq-before-chapter" in X
    seen = [False]

    def filt(items, top):
        out = []
        for b in items:
            k = b.get("k")
            if top and k == "sec" and b["lv"] == "chapter" and not b.get("star") \
                    and doc["secnumdepth"] >= 0:
                seen[0] = True
            numbered_eq = k == "equation" or (k == "eqnarray" and not b.get("star"))
            if numbered_eq and (allways or (before and not seen[0])):
                b = {"k": "displaymath", "c": (b["c"] if k == "equation" else b["rows"][0]["l"]),
                     "sep": b.get("sep", 1)}
            elif k == "list":
                b = dict(b, items=[dict(it, c=filt(it["c"], False)) for it in b["items"]])
            elif k in ("env", "float", "thm"):
                b = dict(b, c=filt(b["c"], False))
            out.append(b)
        return out
    return dict(doc, body=filt(doc["body"], True))

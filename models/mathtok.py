"""Reference model for C11 (math source / verbatim).  Pure Python, no plasTeX import.

Three independent pieces:

tokens(src)
    A small token splitter for LaTeX *math* source under the default category
    codes (TeXbook ch. 7/8): a control word is a backslash followed by a maximal
    run of letters, a control symbol is a backslash followed by one non-letter,
    everything else is a single character token; blanks (space, tab, newline)
    are dropped ("blanks aside" in the C11 statement; blanks after a control
    word are skipped by TeX anyway); an unescaped '%' starts a comment that runs
    to the end of the line (what the author wrote is what TeX reads, and TeX
    never sees comments).  '\\ ' (control space) is a control symbol and is kept.

expand(toks, macros)
    A substitution expander for parameterised user macros (\\newcommand with
    0..9 arguments, optionally a default for the first one; \\def with
    undelimited parameters).  An undelimited argument is one token or one
    balanced brace group whose outer braces are removed (TeXbook p. 204); an
    optional argument is recognised when the next token is '[' and runs to the
    first ']' at brace level 0 (LaTeX \\@ifnextchar / \\@xargdef).  The body is
    substituted and re-scanned, so macros may call macros (the generator keeps
    them recursion free; a fuel counter turns an accidental loop into an
    exception = harness error, never a verdict).

documented representation choices of plasTeX, applied to the *expected* side
    angle_delims: \\left< ... \\right> (and \\big< ...) are reconstructed as
        \\langle / \\rangle (plasTeX/Base/LaTeX/Math.py AngleReplacingDelimiter
        docstring: "needs to replace < or > as arguments by \\langle or \\rangle").
    lt_gt: the HTML payload writes '<' as '\\lt ' and '>' as '\\gt '
        (Math.py mathjax_lt_gt docstring).
    wrap: '$...$' for in-line formulas whatever the author's delimiters,
        '\\[ ... \\]' for displaymath / $$ / \\begin{displaymath},
        '\\begin{equation} ... \\end{equation}' for equation
        (Math.py math.source / displaymath.source, unittests/Source.py).
"""

BLANKS = " \t\n\r"


def _isletter(c):
    return c.isalpha()


def tokens(src):
    out = []
    i, n = 0, len(src)
    while i < n:
        c = src[i]
        if c == "\\":
            if i + 1 >= n:
                out.append("\\")
                i += 1
                continue
            d = src[i + 1]
            if _isletter(d):
                j = i + 1
                while j < n and _isletter(src[j]):
                    j += 1
                out.append(src[i:j])
                i = j
            else:
                out.append(src[i:i + 2])
                i += 2
        elif c == "%":
            j = src.find("\n", i)
            i = n if j < 0 else j + 1
        elif c in BLANKS:
            i += 1
        else:
            out.append(c)
            i += 1
    return out


class ExpandError(Exception):
    pass


class MacroDef(object):
    """name: control word incl. backslash; nargs 0..9; default: token list or
    None (first argument optional when not None); body: token list."""

    def __init__(self, name, nargs, default, body):
        self.name = name
        self.nargs = nargs
        self.default = default
        self.body = body


def macro_table(defs):
    """defs: list of {"name","nargs","default" (str|None),"body" (str),"how"}"""
    table = {}
    for d in defs:
        default = None if d.get("default") is None else tokens(d["default"])
        table[d["name"]] = MacroDef(d["name"], d["nargs"], default, tokens(d["body"]))
    return table


def _read_undelimited(toks, i):
    """-> (argument tokens, next index)"""
    if i >= len(toks):
        raise ExpandError("argument expected at end of input")
    t = toks[i]
    if t == "{":
        depth = 1
        j = i + 1
        while j < len(toks):
            if toks[j] == "{":
                depth += 1
            elif toks[j] == "}":
                depth -= 1
                if depth == 0:
                    return toks[i + 1:j], j + 1
            j += 1
        raise ExpandError("unbalanced argument")
    if t == "}":
        raise ExpandError("argument expected, found }")
    return [t], i + 1


def _read_optional(toks, i):
    """-> (tokens or None, next index)"""
    if i < len(toks) and toks[i] == "[":
        depth = 0
        j = i + 1
        while j < len(toks):
            if toks[j] == "{":
                depth += 1
            elif toks[j] == "}":
                depth -= 1
            elif toks[j] == "]" and depth == 0:
                return toks[i + 1:j], j + 1
            j += 1
        raise ExpandError("unterminated optional argument")
    return None, i


def _substitute(body, args):
    out = []
    i = 0
    while i < len(body):
        t = body[i]
        if t == "#" and i + 1 < len(body) and body[i + 1] in "123456789":
            k = int(body[i + 1])
            if k > len(args):
                raise ExpandError("parameter #%d without argument" % k)
            out.extend(args[k - 1])
            i += 2
        else:
            out.append(t)
            i += 1
    return out


TEXT_BOX_COMMANDS = set(["\\mbox", "\\text", "\\hbox", "\\textbf", "\\textit", "\\textrm", "\\textsf",
                         "\\texttt", "\\textup", "\\textsl", "\\textsc", "\\textnormal"])


def _ifmmode_branch(toks, i, math):
    """toks[i] is \\ifmmode: return (branch tokens, index after the matching \\fi).  Only \\ifmmode
    nests here (the generated macro bodies contain no other conditional)."""
    depth = 0
    j = i + 1
    else_at = None
    while j < len(toks):
        t = toks[j]
        if t == "\\ifmmode":
            depth += 1
        elif t == "\\fi":
            if depth == 0:
                break
            depth -= 1
        elif t == "\\else" and depth == 0 and else_at is None:
            else_at = j
        j += 1
    if j >= len(toks):
        raise ExpandError("\\ifmmode without \\fi")
    if math:
        branch = toks[i + 1:(else_at if else_at is not None else j)]
    else:
        branch = toks[else_at + 1:j] if else_at is not None else []
    return branch, j + 1


def expand(toks, table, fuel=2000, math=True):
    """Expand user macros left to right.  The mode (math / text) is tracked through text boxes
    (\\mbox{..}, \\text{..}, ...), brace groups and $..$ / \\(..\\) inside text, so that \\ifmmode in a
    macro body selects the branch TeX would select at that place."""
    toks = list(toks)
    out = []
    i = 0
    mode = bool(math)
    stack = []                  # saved modes of the open groups / nested formulas
    text_brace_next = False
    while i < len(toks):
        t = toks[i]
        if t == "\\ifmmode":
            branch, j = _ifmmode_branch(toks, i, mode)
            toks[i:j] = branch
            continue
        m = table.get(t)
        if m is None:
            if t in TEXT_BOX_COMMANDS:
                text_brace_next = True
            elif t == "{":
                stack.append(("{", mode))
                if text_brace_next:
                    mode = False
                text_brace_next = False
            elif t == "}":
                while stack and stack[-1][0] != "{":
                    stack.pop()
                if stack:
                    mode = stack.pop()[1]
            elif t in ("$", "\\(", "\\)"):
                if t != "\\(" and stack and stack[-1][0] == "$":
                    mode = stack.pop()[1]           # closes a formula opened inside text
                elif not mode and t != "\\)":
                    stack.append(("$", mode))
                    mode = True
                text_brace_next = False
            elif t.strip():
                text_brace_next = False
            out.append(t)
            i += 1
            continue
        fuel -= 1
        if fuel < 0:
            raise ExpandError("expansion does not terminate")
        j = i + 1
        args = []
        k = 0
        if m.default is not None and m.nargs >= 1:
            opt, j = _read_optional(toks, j)
            args.append(m.default if opt is None else opt)
            k = 1
        while k < m.nargs:
            a, j = _read_undelimited(toks, j)
            args.append(a)
            k += 1
        toks[i:j] = _substitute(m.body, args)
    return out


DELIM_COMMANDS = set(["\\left", "\\right", "\\big", "\\bigl", "\\bigr", "\\Big", "\\Bigl", "\\Bigr",
                      "\\bigg", "\\biggl", "\\biggr", "\\Bigg", "\\Biggl", "\\Biggr"])


def angle_delims(toks):
    out = []
    for i, t in enumerate(toks):
        if i > 0 and toks[i - 1] in DELIM_COMMANDS:
            if t == "<":
                t = "\\langle"
            elif t == ">":
                t = "\\rangle"
        out.append(t)
    return out


def lt_gt(toks):
    return ["\\lt" if t == "<" else "\\gt" if t == ">" else t for t in toks]


WRAPS = {
    "inline": (["$"], ["$"]),
    "display": (["\\[", ], ["\\]"]),
    "equation": (tokens("\\begin{equation}"), tokens("\\end{equation}")),
}

HTML_WRAPS = {
    "inline": (["\\("], ["\\)"]),
    "display": (["\\["], ["\\]"]),
    "equation": (tokens("\\begin{equation}"), tokens("\\end{equation}")),
}


def expected_source_tokens(formula, table, kind):
    body = angle_delims(expand(tokens(formula), table))
    pre, post = WRAPS[kind]
    return pre + body + post


def expected_html_tokens(formula, table, kind):
    body = lt_gt(angle_delims(expand(tokens(formula), table)))
    pre, post = HTML_WRAPS[kind]
    return pre + body + post


def first_difference(a, b):
    """index and a small window around the first differing position"""
    n = min(len(a), len(b))
    i = 0
    while i < n and a[i] == b[i]:
        i += 1
    if i == n and len(a) == len(b):
        return None
    return {"index": i, "expected": a[max(0, i - 3):i + 4], "observed": b[max(0, i - 3):i + 4]}


def balanced(toks):
    """brace balance of a token list (validity predicate used by the generator's self check)"""
    depth = 0
    for t in toks:
        if t == "{":
            depth += 1
        elif t == "}":
            depth -= 1
            if depth < 0:
                return False
    return depth == 0


# --------------------------------------------------------------------------
# verbatim: by-construction removal of the end delimiter
# --------------------------------------------------------------------------

BREAKER = "|"


def break_delimiters(body, delims):
    """Insert a breaker character into every occurrence of every delimiter (before
    its last character), repeatedly, so that the result contains none of them.
    The delimiters here never contain the breaker, so one insertion destroys an
    occurrence and cannot create a new one that is not handled by the loop."""
    changed = True
    guard = 0
    while changed:
        changed = False
        guard += 1
        if guard > 1000:
            raise ExpandError("break_delimiters does not terminate")
        for d in delims:
            if d and d in body:
                body = body.replace(d, d[:-1] + BREAKER + d[-1])
                changed = True
    return body

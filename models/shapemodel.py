"""Reference model of list and table shape (C10).

Pure Python, imports nothing from plasTeX.  A case is a JSON document AST (built
by the strategies in props/C10_shapes.py); this module

  * renders the AST to LaTeX source (`render_case`),
  * predicts, from the AST alone, the shape the statement of C10 prescribes
    (`expect_list`, `expect_table`): items / own content / terms / nesting, rows /
    cells / spans / own content, and which cell *boundaries* carry a rule,
  * compares a prediction with a plain-data observation extracted from the
    document tree (`compare_list`, `compare_table`) and names the first
    difference with a root-cause bucket key.

Text leaves are unique marker words  z q xyz  (xyz over a..y, fixed length so that
abutting markers can be told apart).  Probe uses `\\PQ{xyz}` expand to `zoxyz`
while the definition made before the table is in force and to `zixyz` once a
`\\def\\PQ` made in the *same* cell (group) is in force: a `zi` marker where the
model expects `zo` is formatting that leaked out of its cell.

LaTeX facts the model relies on (LaTeX2e manual C.10.2, source2e lttab.dtx):
  * `*{n}{cols}` is n copies of cols; `@{..}` and `|` add no column;
  * a `|` left of the first column belongs to the first column, every other `|`
    belongs to the column on its left; `\\multicolumn{n}{spec}{..}` replaces the
    specification (and so the bars) of the columns it covers by `spec`;
  * `\\hline` / `\\cline{a-b}` may only follow `\\\\` (or start the table) and draw a
    rule at that row boundary over all / columns a..b;
  * each cell is a group, so assignments and declarations end with the cell.

Borders are judged per boundary (DESIGN.md C10): the horizontal boundary between
non-empty rows i and i+1 at column j is *ruled* iff the cell above has a bottom
border or the cell below has a top border; vertical boundaries likewise with
right/left.  Empty rows (all cells blank) are not rows; rules written around them
fall on the boundary between the neighbouring non-empty rows.  A `\\cline` that
covers a spanning cell only partly leaves that cell's columns undetermined (None).
"""
import re

MARK_RE = re.compile(r"z[qoi][a-y]{3}")
LETTERS = "abcdefghijklmnopqrstuvwxy"


def stem(i):
    return LETTERS[(i // 625) % 25] + LETTERS[(i // 25) % 25] + LETTERS[i % 25]


def assign_marks(node, counter=None):
    """Give every dict that has an "m" key the next unused stem (DFS, insertion
    order).  Used by the strategies; a finished case carries its markers."""
    if counter is None:
        counter = [0]
    if isinstance(node, dict):
        if "m" in node:
            node["m"] = stem(counter[0])
            counter[0] += 1
        for k in node:
            if k != "m":
                assign_marks(node[k], counter)
    elif isinstance(node, list):
        for x in node:
            assign_marks(x, counter)
    return node


def markers(text):
    return MARK_RE.findall(text)


def pick(ws, k, options):
    """Deterministic layout choice number k of a construct with layout seed ws."""
    return options[(ws * 7919 + k * 104729 + (ws ^ k) * 31) % len(options)]


# ---------------------------------------------------------------------------
# column specifications
# ---------------------------------------------------------------------------
def expand_spec(items):
    out = []
    for it in items:
        if it["t"] == "star":
            for _ in range(it["n"]):
                out.extend(expand_spec(it["body"]))
        else:
            out.append(it)
    return out


def spec_shape(items):
    """-> (ncols, bars, lead_at): bars[k] is True when a `|` stands right of column
    k (k=0: left of the first column); lead_at: an @-expression precedes the first
    column."""
    ncols = 0
    bars = [False]
    lead_at = False
    for it in expand_spec(items):
        if it["t"] in ("col", "p"):
            ncols += 1
            bars.append(False)
        elif it["t"] == "bar":
            bars[ncols] = True
        elif it["t"] == "at":
            if ncols == 0:
                lead_at = True
    return ncols, bars, lead_at


def render_spec(items):
    s = []
    for it in items:
        t = it["t"]
        if t == "col":
            s.append(it["c"])
        elif t == "p":
            s.append("p{%s}" % it["w"])
        elif t == "bar":
            s.append("|")
        elif t == "at":
            s.append("@{%s}" % it["body"])
        elif t == "star":
            s.append("*{%d}{%s}" % (it["n"], render_spec(it["body"])))
        else:
            raise ValueError(t)
    return "".join(s)


# ---------------------------------------------------------------------------
# inline pieces (cell bodies, paragraphs, terms)
# ---------------------------------------------------------------------------
class Sink(object):
    """Collects the expectation of one 'owner' (cell / item / term): own markers in
    source order and the nested shapes (tables, lists) in source order."""

    def __init__(self):
        self.marks = []
        self.nested = []
        self.decl = []        # markers that stand after a font declaration


def render_pieces(pieces, sink, math, inner, ws, salt=0, decl=False):
    """Render a piece list.  `inner`: the cell-local \\def\\PQ is in force.
    Returns the source text."""
    out = []
    for n, p in enumerate(pieces):
        k = p["k"]
        if k == "w":
            out.append("zq" + p["m"])
            sink.marks.append("zq" + p["m"])
            if decl:
                sink.decl.append("zq" + p["m"])
        elif k == "g":
            out.append("{" + render_pieces(p["body"], sink, math, inner, ws, salt + 3 * n + 1, decl) + "}")
        elif k == "cmd":
            body_math = math and p["cmd"] != "mbox"
            out.append("\\" + p["cmd"] + "{" +
                       render_pieces(p["body"], sink, body_math, inner, ws, salt + 3 * n + 2, decl) + "}")
        elif k == "math":
            body = render_pieces(p["body"], sink, True, inner, ws, salt + 3 * n + 2, decl)
            if math:
                out.append(body)
            else:
                out.append(("$%s$" if p.get("d", 0) == 0 else "\\(%s\\)") % body)
        elif k == "sub":
            out.append(("_" if p.get("d", 0) == 0 else "^") + "{zq" + p["m"] + "}")
            sink.marks.append("zq" + p["m"])
            if decl:
                sink.decl.append("zq" + p["m"])
        elif k == "tab":
            texp = {}
            src = render_table(p["t"], texp, inner)
            sink.nested.append(texp["exp"])
            tmath = p["t"]["env"] == "array"
            if tmath and not math:
                src = "$" + src + "$"
            elif not tmath and math:
                src = "\\mbox{" + src + "}"
            out.append(src)
        elif k == "decl":
            out.append("\\" + p["cmd"] + pick(ws, salt + n, [" ", "{}", " "]))
            decl = True
        elif k == "def":
            out.append("\\def\\PQ#1{zi#1}")
            inner = True
        elif k == "probe":
            out.append("\\PQ{" + p["m"] + "}")
            sink.marks.append(("zi" if inner else "zo") + p["m"])
            if decl:
                sink.decl.append(("zi" if inner else "zo") + p["m"])
        else:
            raise ValueError(k)
        if n + 1 < len(pieces):
            out.append(pick(ws, salt + 11 * n + 5, [" ", " ", "", "\n"]))
    return "".join(out)


def has_marker(pieces):
    for p in pieces:
        if p["k"] in ("w", "probe", "sub"):
            return True
        if p["k"] in ("g", "cmd", "math") and has_marker(p["body"]):
            return True
        if p["k"] == "tab":
            return True
    return False


# ---------------------------------------------------------------------------
# tables
# ---------------------------------------------------------------------------
def row_is_empty(row):
    return all(c.get("mc") is None and not c["body"] for c in row["cells"])


def render_rule(r):
    if r["r"] == "hline":
        return "\\hline"
    return "\\cline{%d-%d}" % (r["a"], r["b"])


def render_table(t, holder, inner=False):
    """Render table AST `t`; holder['exp'] receives the expectation."""
    ws = t.get("ws", 0)
    math = t["env"] == "array"
    ncols, bars, lead_at = spec_shape(t["spec"])
    head = "\\begin{%s}" % t["env"]
    if t["env"] == "tabular*":
        head += "{%s}" % t.get("width", "10cm")
    if t.get("pos"):
        head += "[%s]" % t["pos"]
    head += "{" + render_spec(t["spec"]) + "}"
    out = [head, pick(ws, 1, ["\n", " ", "\n", ""])]

    exp_rows = []        # non-empty rows: list of cells
    gaps = []            # rules standing above non-empty row g (and final gap)
    gap_empty = []       # number of empty rows inside the gap
    pending = []
    pending_empty = 0
    nrows = len(t["rows"])
    for i, row in enumerate(t["rows"]):
        for r in row["rules"]:
            out.append(render_rule(r) + pick(ws, 20 + i, [" ", "\n", " "]))
            pending.append(r)
        cells_src = []
        cells_exp = []
        col = 1
        for j, c in enumerate(row["cells"]):
            sink = Sink()
            mc = c.get("mc")
            # every cell is a group: a \def in it does not outlive it
            body = render_pieces(c["body"], sink, math, inner, ws, 100 * i + 10 * j)
            if mc is not None:
                n = mc["n"]
                mncols, mbars, mlead = spec_shape(mc["spec"])
                if mncols != 1:
                    raise ValueError("multicolumn spec must have one column")
                src = "\\multicolumn{%d}{%s}{%s}" % (n, render_spec(mc["spec"]), body)
                left, right = mbars[0], mbars[1]
            else:
                n = 1
                mlead = False
                src = body
                left = bars[0] if col == 1 else False
                right = bars[col] if col <= ncols else False
            cells_exp.append({"span": n, "start": col, "end": col + n - 1,
                              "markers": sink.marks, "nested": sink.nested,
                              "decl": sink.decl,
                              "left": left, "right": right, "mc": mc is not None,
                              "mc_lead_at": mlead})
            col += n
            cells_src.append(src)
        sep_l = pick(ws, 40 + i, [" ", "", " ", "\n"])
        sep_r = pick(ws, 60 + i, [" ", "", " "])
        out.append((sep_l + "&" + sep_r).join(cells_src))
        last = i == nrows - 1
        if not last or t.get("last_end", False):
            out.append(pick(ws, 80 + i, [" ", "", ""]) + row.get("end", "\\\\") +
                       pick(ws, 90 + i, ["\n", " ", "\n", " % c\n"]))
        else:
            out.append(pick(ws, 80 + i, [" ", "\n", ""]))
        if row_is_empty(row):
            pending_empty += 1
        else:
            exp_rows.append(cells_exp)
            gaps.append(pending)
            gap_empty.append(pending_empty)
            pending = []
            pending_empty = 0
    for r in t.get("tail", []):
        out.append(render_rule(r) + pick(ws, 95, [" ", "\n"]))
        pending.append(r)
    gaps.append(pending)
    gap_empty.append(pending_empty + (1 if t.get("last_end", False) else 0))
    out.append("\\end{%s}" % t["env"])

    holder["exp"] = {"ncols": ncols, "lead_at": lead_at, "rows": exp_rows,
                     "hb": [boundary_row(gaps[g],
                                         exp_rows[g - 1] if g > 0 else None,
                                         exp_rows[g] if g < len(exp_rows) else None, ncols)
                            for g in range(len(exp_rows) + 1)] if exp_rows else [],
                     "gap_rules": gaps, "gap_empty": gap_empty}
    return "".join(out)


def cell_at(cells, j):
    if cells is None:
        return None
    for c in cells:
        if c["start"] <= j <= c["end"]:
            return c
    return None


def boundary_row(rules, upper, lower, ncols):
    """Tri-state per column 1..ncols: True ruled, False not ruled, None undetermined
    (partly covered span) -- index 0 unused."""
    width = ncols
    for cells in (upper, lower):
        if cells:
            width = max(width, cells[-1]["end"])
    val = [False] * (width + 1)
    if any(r["r"] == "hline" for r in rules):
        return [True] * (width + 1)
    clines = [r for r in rules if r["r"] == "cline"]
    for r in clines:
        for j in range(r["a"], min(r["b"], width) + 1):
            val[j] = True
    for cells in (upper, lower):
        for c in cells or ():
            if c["span"] == 1:
                continue
            for r in clines:
                lo, hi = max(r["a"], c["start"]), min(r["b"], c["end"])
                if lo <= hi and not (r["a"] <= c["start"] and c["end"] <= r["b"]):
                    for j in range(c["start"], c["end"] + 1):
                        val[j] = None
    # a spanning cell has one border for all its columns: if a fully covered and an
    # uncovered part met in one cell the columns would already be None (partial).
    return val


def table_source(t):
    holder = {}
    src = render_table(t, holder)
    return src, holder["exp"]


def _cause_h(exp, g, j, missing):
    """Root-cause tag of a wrong horizontal boundary (gap g, column j): the first
    circumstance, in a fixed priority order, that distinguishes this boundary."""
    rows = exp["rows"]
    upper = rows[g - 1] if g > 0 else None
    lower = rows[g] if g < len(rows) else None
    rules = exp["gap_rules"][g]
    up_c, lo_c = cell_at(upper, j), cell_at(lower, j)
    if (lower is not None and lo_c is None) or (upper is not None and up_c is None):
        return "neighbour-row-is-shorter"
    only_cline = any(r["r"] == "cline" for r in rules) and not any(r["r"] == "hline" for r in rules)
    if only_cline:
        for cells in (upper, lower):
            for c in cells or ():
                if c["span"] > 1 and c["start"] < j:
                    return "cline-after-span"
    if exp["gap_empty"][g] and g == 0:
        return "leading-empty-row"
    if exp["gap_empty"][g] and g < len(rows):
        return "empty-row-between"
    if exp["gap_empty"][g] > 1:
        return "trailing-empty-row"
    if only_cline:
        return "cline"
    return "hline" if rules else "no-rule"


def _cause_v(exp, row, j):
    cells = exp["rows"][row]
    lc = None
    rc = None
    for c in cells:
        if c["end"] == j:
            lc = c
        if c["start"] == j + 1:
            rc = c
    if any(c is not None and c["mc"] and c["mc_lead_at"] for c in (lc, rc)):
        return "at-before-first-column"
    mc = any(c is not None and c["mc"] for c in (lc, rc))
    if exp["lead_at"] and not (lc is not None and lc["mc"] and (rc is None or rc["mc"])):
        return "at-before-first-column"
    if mc:
        return "multicolumn"
    if any(c["span"] > 1 and c["end"] <= j for c in cells):
        return "after-span"
    return "plain"


def compare_table(exp, obs, path="table"):
    """None when the observation has the predicted shape, else (key, detail)."""
    rows = exp["rows"]
    if obs.get("strays"):
        return ("table:stray-child", {"at": path, "children": obs["strays"]})
    if len(obs["rows"]) != len(rows):
        tags = []
        if any(exp["gap_empty"]):
            tags.append("with-empty-rows")
        return ("table:row-count" + (":" + "+".join(tags) if tags else ""),
                {"at": path, "expected_rows": len(rows), "observed_rows": len(obs["rows"]),
                 "observed": [[c["markers"] for c in r] for r in obs["rows"]]})
    for i, (er, orow) in enumerate(zip(rows, obs["rows"])):
        if len(er) != len(orow):
            return ("table:cell-count", {"at": "%s/row%d" % (path, i + 1),
                                         "expected": [c["markers"] for c in er],
                                         "observed": [c["markers"] for c in orow]})
        for j, (ec, oc) in enumerate(zip(er, orow)):
            where = "%s/row%d/cell%d" % (path, i + 1, j + 1)
            if ec["span"] != oc["span"]:
                return ("table:colspan", {"at": where, "expected": ec["span"], "observed": oc["span"]})
            if ec["markers"] != oc["markers"]:
                em, om = ec["markers"], oc["markers"]
                if len(em) == len(om) and all(a == b or (a[:2] != b[:2] and a[2:] == b[2:])
                                              for a, b in zip(em, om)):
                    return ("table:definition-leaks-into-next-cell",
                            {"at": where, "expected": em, "observed": om})
                return ("table:cell-text", {"at": where, "expected": em, "observed": om})
            if len(ec["nested"]) != len(oc["nested"]):
                return ("table:nested-table-count", {"at": where, "expected": len(ec["nested"]),
                                                     "observed": len(oc["nested"])})
            for k, (en, on) in enumerate(zip(ec["nested"], oc["nested"])):
                r = compare_table(en, on, where + "/table%d" % (k + 1))
                if r is not None:
                    return r
            for m in oc.get("decl", []):
                if m not in ec["decl"]:
                    return ("table:declaration-leaks", {"at": where, "marker": m})
        if sum(c["span"] for c in orow) != sum(c["span"] for c in er):
            return ("table:span-sum", {"at": "%s/row%d" % (path, i + 1)})
    # vertical boundaries, per row
    for i, (er, orow) in enumerate(zip(rows, obs["rows"])):
        edges = {}
        for ec, oc in zip(er, orow):
            a = edges.setdefault(ec["start"] - 1, [False, False])
            a[0] = a[0] or ec["left"]
            a[1] = a[1] or oc["left"]
            b = edges.setdefault(ec["end"], [False, False])
            b[0] = b[0] or ec["right"]
            b[1] = b[1] or oc["right"]
        for j in sorted(edges):
            want, got = edges[j]
            if want != got:
                cause = _cause_v(exp, i, j)
                kind = "wrong" if cause == "at-before-first-column" else ("missing" if want else "extra")
                return ("table:vborder-%s:%s" % (kind, cause),
                        {"at": "%s/row%d" % (path, i + 1), "boundary_right_of_column": j,
                         "expected": want, "observed": got})
    # horizontal boundaries, per gap
    for g in range(len(rows) + 1 if rows else 0):
        upper_e = rows[g - 1] if g > 0 else None
        lower_e = rows[g] if g < len(rows) else None
        upper_o = obs["rows"][g - 1] if g > 0 else None
        lower_o = obs["rows"][g] if g < len(rows) else None
        want_row = exp["hb"][g]
        for j in range(1, len(want_row)):
            want = want_row[j]
            got = False
            present = False
            for cells_e, cells_o, side in ((upper_e, upper_o, "bottom"), (lower_e, lower_o, "top")):
                if cells_e is None:
                    continue
                for ec, oc in zip(cells_e, cells_o):
                    if ec["start"] <= j <= ec["end"]:
                        present = True
                        got = got or oc[side]
            if not present or want is None:
                continue
            if want != got:
                cause = _cause_h(exp, g, j, want)
                kind = "wrong" if cause == "cline-after-span" else ("missing" if want else "extra")
                return ("table:hborder-%s:%s" % (kind, cause),
                        {"at": "%s/gap%d" % (path, g), "column": j, "expected": want,
                         "observed": got, "rules": exp["gap_rules"][g]})
    return None


def table_features(exp, t, top=True):
    f = set()
    rows = exp["rows"]
    f.add("table:rows=%d" % min(len(rows), 6))
    f.add("table:cols=%d" % exp["ncols"])
    if any(c["mc"] for r in rows for c in r):
        f.add("table:multicolumn")
    if any(c["span"] > 1 for r in rows for c in r):
        f.add("table:span>1")
    rules = [r for g in exp["gap_rules"] for r in g]
    if any(r["r"] == "hline" for r in rules):
        f.add("table:hline")
    if any(r["r"] == "cline" for r in rules):
        f.add("table:cline")
    if any(v is None for hb in exp["hb"] for v in hb):
        f.add("table:cline-partial-span(undetermined)")
    if any(exp["gap_empty"][1:-1]) or (exp["gap_empty"] and exp["gap_empty"][0]):
        f.add("table:empty-row")
    if any(sum(c["span"] for c in r) < exp["ncols"] for r in rows):
        f.add("table:short-row")
    if any(not c["markers"] and not c["nested"] for r in rows for c in r):
        f.add("table:empty-cell")
    if any(c["nested"] for r in rows for c in r):
        f.add("table:nested")
    if any(m.startswith("zo") or m.startswith("zi") for r in rows for c in r for m in c["markers"]):
        f.add("table:probe")
    if any(c["decl"] for r in rows for c in r):
        f.add("table:font-declaration")
    seq = [c for r in t["rows"] if not row_is_empty(r) for c in r["cells"]]
    rowlast = set()
    n = 0
    for r in t["rows"]:
        if not row_is_empty(r):
            n += len(r["cells"])
            rowlast.add(n - 1)
    for k in range(len(seq) - 1):
        if any(p["k"] == "def" for p in seq[k]["body"]) and any(p["k"] == "probe" for p in seq[k + 1]["body"]):
            f.add("table:probe-right-after-defining-cell" + ("(next row)" if k in rowlast else "(same row)"))
    flat = expand_spec(t["spec"])
    for it in flat:
        if it["t"] == "bar":
            f.add("spec:|")
        elif it["t"] == "at":
            f.add("spec:@{}")
        elif it["t"] == "p":
            f.add("spec:p{}")
    if any(it["t"] == "star" for it in t["spec"]):
        f.add("spec:*{n}{}")
    if exp["lead_at"]:
        f.add("spec:@-before-first-column")
    f.add("env:" + t["env"])
    return f


# ---------------------------------------------------------------------------
# lists
# ---------------------------------------------------------------------------
PAR_SEPS = ("\n\n", "\\par ", "\n\n\n", "\\par\n", " \n \n")


def render_blocks(blocks, sink, subs, depth, ws, salt):
    out = []
    for n, b in enumerate(blocks):
        sep = b.get("sep", " ")
        out.append(sep)
        k = b["k"]
        if k == "p":
            out.append(render_pieces(b["body"], sink, False, False, ws, salt + 13 * n))
        elif k == "list":
            h = {}
            out.append(render_list(b["l"], h, depth + 1))
            subs.append(h["exp"])
        elif k == "env":
            out.append("\\begin{%s}" % b["name"])
            out.append(render_blocks(b["blocks"], sink, subs, depth, ws, salt + 17 * n + 1))
            out.append(pick(ws, salt + n, [" ", "\n", ""]) + "\\end{%s}" % b["name"])
        elif k == "tab":
            h = {}
            src = render_table(b["t"], h)
            if b["t"]["env"] == "array":
                src = "$" + src + "$"
            out.append(src)
            collect_table_marks(h["exp"], sink.marks)
        else:
            raise ValueError(k)
    return "".join(out)


def collect_table_marks(exp, into):
    for r in exp["rows"]:
        for c in r:
            # own markers and nested tables interleave in source order only
            # approximately; tables inside list items hold no nested tables
            into.extend(c["markers"])
            for n in c["nested"]:
                collect_table_marks(n, into)


def render_list(l, holder, depth=1):
    ws = l.get("ws", 0)
    out = ["\\begin{%s}" % l["env"], pick(ws, 1, ["\n", " ", "", "\n\n", " % c\n"])]
    items = []
    for i, it in enumerate(l["items"]):
        out.append("\\item")
        term = None
        if it.get("term") is not None:
            ts = Sink()
            out.append(pick(ws, 70 + i, ["", "", " ", "\n", ""]) + "[" +
                       render_pieces(it["term"], ts, False, False, ws, 1000 + i) + "]")
            term = ts.marks
        else:
            out.append(pick(ws, 2 + i, [" ", "\n", " "]) if it["blocks"] else "")
        sink = Sink()
        subs = []
        out.append(render_blocks(it["blocks"], sink, subs, depth, ws, 50 * i))
        out.append(pick(ws, 30 + i, ["\n", " ", "\n\n", "\n"]))
        items.append({"term": term, "own": sink.marks, "subs": subs})
    out.append("\\end{%s}" % l["env"])
    ungrouped = any(p["k"] == "decl" for it in l["items"] for b in it["blocks"] if b["k"] == "p"
                    for p in b["body"])
    holder["exp"] = {"env": l["env"], "items": items, "depth": depth, "ungrouped_decl": ungrouped}
    return "".join(out)


def list_source(l):
    h = {}
    src = render_list(l, h)
    return src, h["exp"]


def compare_list(exp, obs, path="list"):
    r = _compare_list(exp, obs, path)
    return r


def _compare_list(exp, obs, path):
    r = _compare_list1(exp, obs, path)
    if r is not None and exp.get("ungrouped_decl") and r[0] in ("list:item-count", "list:item-content",
                                                               "list:nesting", "list:non-item-child") \
            and r[1]["at"].count("/") <= path.count("/") + 1:
        return ("list:declaration-in-item-swallows-following-items", r[1])
    return r


def _compare_list1(exp, obs, path):
    if exp["env"] != obs["env"]:
        return ("list:wrong-environment", {"at": path, "expected": exp["env"], "observed": obs["env"]})
    if len(exp["items"]) != len(obs["items"]):
        return ("list:item-count", {"at": path, "expected": len(exp["items"]),
                                    "observed": len(obs["items"]),
                                    "observed_items": [o["own"] for o in obs["items"]],
                                    "non_item_children": obs.get("strays", [])})
    if obs.get("strays"):
        return ("list:non-item-child", {"at": path, "children": obs["strays"]})
    for i, (e, o) in enumerate(zip(exp["items"], obs["items"])):
        where = "%s/item%d" % (path, i + 1)
        if (e["term"] or []) != (o["term"] or []):
            return ("list:term", {"at": where, "expected": e["term"], "observed": o["term"]})
        if (e["term"] is None) != (o["term"] is None) and e["term"] is None:
            return ("list:term-invented", {"at": where, "observed": o["term"]})
        if e["own"] != o["own"]:
            return ("list:item-content", {"at": where, "expected": e["own"], "observed": o["own"]})
        if len(e["subs"]) != len(o["subs"]):
            return ("list:nesting", {"at": where, "expected_sublists": len(e["subs"]),
                                     "observed_sublists": len(o["subs"])})
        for k, (es, os_) in enumerate(zip(e["subs"], o["subs"])):
            r = _compare_list(es, os_, where + "/list%d" % (k + 1))
            if r is not None:
                return r
    return None


def list_depth(exp):
    d = 1
    for it in exp["items"]:
        for s in it["subs"]:
            d = max(d, 1 + list_depth(s))
    return d


def list_features(l, exp):
    f = set()
    f.add("list:depth=%d" % list_depth(exp))

    def walk(l, exp):
        f.add("list:" + l["env"])
        f.add("list:items=%s" % (len(l["items"]) if len(l["items"]) < 4 else "4+"))
        for it in l["items"]:
            if any(p["k"] == "decl" for b in it["blocks"] if b["k"] == "p" for p in b["body"]):
                f.add("list:ungrouped-declaration-in-item")
            if it.get("term") is not None:
                f.add("list:term" if it["term"] else "list:empty-term")
            if not it["blocks"]:
                f.add("list:empty-item")
            npar = 0
            for n, b in enumerate(it["blocks"]):
                if b["k"] == "p":
                    if npar and b.get("sep") in PAR_SEPS:
                        f.add("list:multi-paragraph-item")
                    npar += 1
                elif b["k"] == "env":
                    f.add("list:nested-env")
                    if any(bb["k"] == "list" for bb in b["blocks"]):
                        f.add("list:list-inside-env")
                    for bb in b["blocks"]:
                        if bb["k"] == "list":
                            walk(bb["l"], None)
                elif b["k"] == "tab":
                    f.add("list:table-in-item")
                elif b["k"] == "list":
                    if n == 0:
                        f.add("list:item-starts-with-list")
                    if n == len(it["blocks"]) - 1:
                        f.add("list:item-ends-with-list")
                    else:
                        f.add("list:text-after-sublist")
                    walk(b["l"], None)
    walk(l, exp)
    return f

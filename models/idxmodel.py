"""Reference model of index building (C18).  Pure Python, no plasTeX import.

An index entry is written  level ('!' level)* ['|' encap]  with
level = [sort '@'] display;  '"' quotes the next character (makeindex manual,
section "input format": the quoted character loses its special meaning and the
quote itself is dropped).  The *line* an entry belongs to is the path of its
levels, a level being identified by (sort key, display text, display source):
makeindex merges two entries iff both the sort and the actual field are equal.

The model does not predict one index: where keys tie under the collation function
the statement allows any order.  It states validity predicates over the observed
index tree (plain data extracted by props/C18_index.py):

 P1  no two sibling lines have the same identity ("merged into one line"), and
     the set of paths equals the set of paths (with prefixes) the entries name;
 P2  the page list of every path is exactly its occurrences, in document order,
     with the entry's type (normal / see / seealso);
 P3  along every sibling list the collation keys of the sort keys are
     non-decreasing (collation function = environment data handed in);
 P4  the groups are consecutive runs of the top-level list, the entries of a group
     share the heading class of their sort key's first character (letter -> that
     letter upper-cased, accents removed; anything else -> a non-letter heading),
     a letter group is titled by its letter, adjacent groups differ in title;
 P5  every group has exactly `index-columns` columns whose concatenation is the
     group's entries in order.
"""
import re

SPECIALS = '!@|"'

# accented initials used by the generator and the letter they file under
# (restricted to characters whose decomposition is one ASCII letter + marks)
import unicodedata


def base_letter(ch):
    d = unicodedata.normalize("NFD", ch)
    if d and "a" <= d[0].lower() <= "z" and all(unicodedata.combining(c) for c in d[1:]):
        return d[0].upper()
    return None


def heading_class(sort):
    """'L:<letter>' for letters, 'underscore', 'symbols'."""
    if not sort:
        return "symbols"
    b = base_letter(sort[0])
    if b is not None:
        return "L:" + b
    if sort[0] == "_":
        return "underscore"
    return "symbols"


def quote(s):
    return "".join('"' + c if c in SPECIALS else c for c in s)


def strip_markup(src):
    prev = None
    while prev != src:
        prev = src
        src = re.sub(r"\\[a-zA-Z]+\{([^{}]*)\}", r"\1", src)
    return src


def nows(s):
    return re.sub(r"\s+", "", s)


def render_entry(e):
    """Entry AST -> the argument of \\index.  A level is {"sort": str|None,
    "disp": str (LaTeX source; its specials are quoted)}."""
    parts = []
    for lv in e["levels"]:
        s = quote(lv["disp"])
        if lv.get("sort") is not None:
            s = quote(lv["sort"]) + "@" + s
        parts.append(s)
    out = "!".join(parts)
    if e.get("encap"):
        out += "|" + e["encap"]
    return out


def parse_entry(text):
    """makeindex's reading of an \\index argument -> (levels, encap); a level is
    (sort, display source).  Used as a self-check of render_entry and to derive
    the expected paths from the *text* that is handed to the processor."""
    levels = []
    cur = []
    sort = None
    encap = None
    i = 0
    n = len(text)
    while i < n:
        c = text[i]
        if c == '"' and i + 1 < n:
            cur.append(text[i + 1])
            i += 2
            continue
        if c == "!":
            levels.append((sort, "".join(cur)))
            cur, sort = [], None
        elif c == "@":
            sort = "".join(cur)
            cur = []
        elif c == "|":
            encap = text[i + 1:]
            break
        else:
            cur.append(c)
        i += 1
    levels.append((sort, "".join(cur)))
    out = []
    for s, d in levels:
        t = strip_markup(d)
        out.append((t if s is None else s, d))
    return out, encap


def level_id(sort, disp_src):
    return (sort, strip_markup(disp_src), nows(disp_src))


def entry_type(encap):
    if not encap:
        return "normal"
    m = re.match(r"[a-zA-Z]+", encap)
    name = m.group(0) if m else ""
    if name == "see":
        return "see"
    if name == "seealso":
        return "seealso"
    return "normal"


def expected_index(entry_texts):
    """-> {path: [(ordinal, type), ...]} with every prefix present (possibly with
    no pages).  path = tuple of level ids; ordinal = position in document order."""
    exp = {}
    for n, text in enumerate(entry_texts):
        levels, encap = parse_entry(text)
        path = ()
        for k, (s, d) in enumerate(levels):
            path = path + (level_id(s, d),)
            exp.setdefault(path, [])
        exp[path].append((n, entry_type(encap)))
    return exp


def obs_id(node):
    return (node["sort"], node["text"], nows(node["src"]))


def validate(tree, groups, entry_texts, collate, columns):
    """tree: list of top-level nodes {"sort","text","src","pages":[{"ord","type"}],
    "children":[...]}; groups: [{"title", "columns": [[top-level index, ...], ...]}].
    Returns None or (key, detail)."""
    exp = expected_index(entry_texts)

    # ---- P1a duplicates, P3 order (per sibling list) -------------------------------
    def walk(nodes, path):
        ids = [obs_id(x) for x in nodes]
        seen = {}
        for i, ident in enumerate(ids):
            if ident in seen:
                j = seen[ident]
                ck = (collate(ident[0]), collate(ident[1]))
                between = [ids[k] for k in range(j + 1, i)]
                tied = [b for b in between if (collate(b[0]), collate(b[1])) == ck and b != ident]
                if tied:
                    return ("index:duplicate-line:tied-collation-keys",
                            {"under": list(path), "line": list(ident), "positions": [j, i],
                             "tied_with": [list(b) for b in tied],
                             "siblings": [list(x) for x in ids]})
                return ("index:duplicate-line:other",
                        {"under": list(path), "line": list(ident), "positions": [j, i],
                         "siblings": [list(x) for x in ids]})
            seen[ident] = i
        for i in range(len(nodes) - 1):
            a, b = collate(nodes[i]["sort"]), collate(nodes[i + 1]["sort"])
            if a > b:
                return ("index:siblings-out-of-collation-order",
                        {"under": list(path), "first": nodes[i]["sort"], "second": nodes[i + 1]["sort"],
                         "siblings": [x["sort"] for x in nodes]})
        for x in nodes:
            r = walk(x["children"], path + (obs_id(x),))
            if r is not None:
                return r
        return None

    r = walk(tree, ())
    if r is not None:
        return r

    # ---- P1b paths, P2 pages -----------------------------------------------------------
    got = {}

    def collect(nodes, path):
        for x in nodes:
            p = path + (obs_id(x),)
            got[p] = x["pages"]
            collect(x["children"], p)
    collect(tree, ())
    missing = [p for p in exp if p not in got]
    extra = [p for p in got if p not in exp]
    if missing or extra:
        leaf_elsewhere = [p for p in missing if any(q[-1] == p[-1] for q in extra)]
        # a separator character inside the page format that was taken for a key
        # separator leaves a level made of the beginning of the format
        heads = set()
        for t in entry_texts:
            enc = parse_entry(t)[1]
            if enc and any(c in enc for c in "!@|"):
                heads.add(nows(re.split(r"[!@|]", enc)[0]))
        special_encap = [p for p in extra
                         if any(h and lv[2].replace("}", "").startswith(h.replace("}", "")) for lv in p for h in heads)]
        if special_encap:
            key = "index:separator-inside-page-format-splits-the-key"
        elif leaf_elsewhere:
            key = "index:entry-under-wrong-parent"
        elif missing:
            key = "index:entry-missing"
        else:
            key = "index:entry-invented"
        return (key, {"missing": [list(map(list, p)) for p in sorted(missing)[:4]],
                      "extra": [list(map(list, p)) for p in sorted(extra)[:4]]})
    for p in sorted(exp):
        want = exp[p]
        have = got[p]
        want_ord = [o for o, _ in want]
        have_ord = [pg["ord"] for pg in have]
        if want_ord != have_ord:
            if sorted(x for x in have_ord if x is not None) == want_ord and None not in have_ord:
                key = "index:pages-out-of-document-order"
            elif len(have_ord) < len(want_ord):
                key = "index:page-reference-lost"
            elif len(have_ord) > len(want_ord):
                key = "index:page-reference-extra"
            else:
                key = "index:page-reference-wrong"
            return (key, {"path": [list(x) for x in p], "expected_occurrences": want_ord,
                          "observed_occurrences": have_ord})
        want_t = [t for _, t in want]
        have_t = [pg["type"] for pg in have]
        if want_t != have_t:
            return ("index:page-type", {"path": [list(x) for x in p], "expected": want_t,
                                        "observed": have_t})

    # ---- P4 groups, P5 columns --------------------------------------------------------------
    flat = []
    for g in groups:
        for col in g["columns"]:
            flat.extend(col)
    if flat != list(range(len(tree))):
        if sorted(x for x in flat if x is not None) == list(range(len(tree))) and None not in flat:
            key = "index:columns-change-the-order"
        elif len(flat) < len(tree):
            key = "index:columns-lose-an-entry"
        else:
            key = "index:columns-not-a-partition"
        return (key, {"expected": list(range(len(tree))), "observed": flat,
                      "groups": [[g["title"], g["columns"]] for g in groups]})
    prev_title = None
    for g in groups:
        members = [i for col in g["columns"] for i in col]
        classes = sorted(set(heading_class(tree[i]["sort"]) for i in members))
        if not members:
            return ("index:empty-group", {"title": g["title"]})
        if len(classes) != 1:
            return ("index:group-mixes-initials", {"title": g["title"], "classes": classes,
                                                   "sort_keys": [tree[i]["sort"] for i in members]})
        cls = classes[0]
        title = g["title"]
        if cls.startswith("L:"):
            if title != cls[2:]:
                return ("index:group-heading-wrong", {"title": title, "expected": cls[2:],
                                                      "sort_keys": [tree[i]["sort"] for i in members]})
        elif len(title) == 1 and base_letter(title) is not None:
            return ("index:group-heading-wrong", {"title": title, "expected": cls,
                                                  "sort_keys": [tree[i]["sort"] for i in members]})
        if prev_title is not None and prev_title == title:
            return ("index:group-split", {"title": title})
        prev_title = title
        if len(g["columns"]) != columns:
            return ("index:column-count", {"title": title, "expected": columns,
                                           "observed": len(g["columns"])})
    return None


def features(entry_texts, collate):
    f = set()
    exp = expected_index(entry_texts)
    if any(len(v) >= 2 for v in exp.values()):
        f.add("merge(same-path>=2)")
    parents = set(p[:-1] for p in exp if len(p) > 1)
    kids = {}
    for p in exp:
        if len(p) > 1:
            kids[p[:-1]] = kids.get(p[:-1], 0) + 1
    if any(kids[p] + (1 if exp.get(p) else 0) >= 2 for p in kids):
        f.add("prefix-shared")
    if parents:
        f.add("sub-entries")
    if any(len(p) == 3 for p in exp):
        f.add("sub-sub-entries")
    by_parent = {}
    for p in exp:
        by_parent.setdefault(p[:-1], []).append(p[-1])
    tie = False
    for sibs in by_parent.values():
        ck = {}
        for s in sibs:
            k = (collate(s[0]), collate(s[1]))
            if k in ck:
                tie = True
            ck[k] = 1
    if tie:
        f.add("tied-collation-keys")
    heads = set(heading_class(p[0][0]) for p in exp)
    f.add("groups=%s" % (len(heads) if len(heads) < 6 else "6+"))
    if "symbols" in heads:
        f.add("group:symbols")
    if "underscore" in heads:
        f.add("group:underscore")
    if any(p[0][0] and ord(p[0][0][0]) > 127 for p in exp):
        f.add("accented-initial")
    types = set(t for v in exp.values() for _, t in v)
    if "see" in types:
        f.add("encap:see")
    if "seealso" in types:
        f.add("encap:seealso")
    if any("|text" in e or "|emph" in e for e in entry_texts):
        f.add("encap:format")
    if any("@" in re.sub(r'"@', "", e) for e in entry_texts):
        f.add("sort@display")
    if any('"' in e for e in entry_texts):
        f.add("quoted-special")
    if any("\\" in e.split("|")[0] for e in entry_texts):
        f.add("formatted-display")
    n = len(entry_texts)
    f.add("entries=%s" % ("5-10" if n <= 10 else "11-20" if n <= 20 else "21-40"))
    nontrivial = ("merge(same-path>=2)" in f and "prefix-shared" in f
                  and len(heads) >= 3)
    return f, nontrivial

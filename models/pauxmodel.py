"""Reference model for C20 (cross-document label data, the .paux file).

Pure Python, imports nothing from plasTeX.  Four parts:

1. documents   -- a labelled-object list -> LaTeX source + the numbers LaTeX's counter
                  rules give (article class: \\section k, \\subsection k.j, equation /
                  figure / each \\newtheorem counter 1..n document-wide) + the shape of
                  the target location (sectioning units make files, everything else is
                  `<file of the enclosing unit>#<label>`).
2. faults      -- bytes -> bytes transformations (truncation, bit flip, splice, opcode-aware
                  edits, renderer-key swap, foreign content) applied to a file the program
                  wrote.  Deterministic functions of (good bytes, fault spec).
3. file states -- an independent decode of file content with the standard library
                  (`pickle.loads`), reduced to what a reader may legitimately get out of it.
4. expectations - what `restore` may yield for a file state and what a `persist` must leave.

The statement speaks of interrupted writes and bit rot.  A flipped bit inside a string
payload gives a loadable file that *says* something else; no reader can know.  The model
therefore predicts from what the faulty file says (decoded here, independently): labels
that the file no longer spells, or spells in a malformed way, may be absent; labels that a
restore yields must be spelled by the file with exactly those attributes; nothing else may
appear.  Where the file is unchanged this is "the saved labels with unchanged attributes".
"""
import io
import pickle
import sys

RENDERERS = ("HTML5", "XHTML")
ATTRS = ("macroName", "ref", "title", "captionName", "id", "url")
CHECKED = ("ref", "title", "captionName", "id", "url")

# --------------------------------------------------------------------------
# 1. documents
# --------------------------------------------------------------------------
SECTIONING = ("sec", "sub")
KINDS = ("sec", "sub", "eq", "thm", "lem", "fig", "par")

PREAMBLE = ("\\documentclass{article}\n\\newtheorem{thm}{Theorem}\n"
            "\\newtheorem{lem}{Lemma}\n\\begin{document}\n")


def title_tex(pieces):
    out = []
    for kind, text in pieces:
        if kind == "w":
            out.append(text)
        elif kind == "em":
            out.append("\\emph{%s}" % text)
        elif kind == "bf":
            out.append("\\textbf{%s}" % text)
        elif kind == "math":
            out.append("$%s$" % text)
        else:
            raise ValueError(kind)
    return " ".join(out)


def title_words(pieces):
    """Plain words that must appear, in this order, in the rendered title."""
    return [text for kind, text in pieces if kind in ("w", "em", "bf")]


def has_nonascii(pieces):
    return any(ord(ch) > 127 for _, text in pieces for ch in text)


def build_doc(items):
    """items: [{"t": kind, "l": label|None, "title": [[kind, text], ...]}]

    Returns (source, expected) with expected = {label: {"ref", "kind", "container",
    "words"}}; container = label of the enclosing sectioning unit, None when the object
    is in the top-level file, "?" when the unit has no label (generated file name)."""
    src = [PREAMBLE]
    exp = {}
    sec = sub = 0
    counters = {"eq": 0, "thm": 0, "lem": 0, "fig": 0}
    container = None
    for n, it in enumerate(items):
        t, lab = it["t"], it.get("l")
        labtex = "\\label{%s}" % lab if lab else ""
        if t == "sec":
            sec += 1
            sub = 0
            ref = "%d" % sec
            src.append("\\section{%s}%s\nText %d.\n\n" % (title_tex(it["title"]), labtex, n))
            container = lab or "?"
        elif t == "sub":
            if sec == 0:
                raise ValueError("subsection before the first section")
            sub += 1
            ref = "%d.%d" % (sec, sub)
            src.append("\\subsection{%s}%s\nText %d.\n\n" % (title_tex(it["title"]), labtex, n))
            container = lab or "?"
        elif t == "eq":
            counters["eq"] += 1
            ref = "%d" % counters["eq"]
            src.append("\\begin{equation}%s a_{%d} = b \\end{equation}\n" % (labtex, n))
        elif t in ("thm", "lem"):
            counters[t] += 1
            ref = "%d" % counters[t]
            src.append("\\begin{%s}%s Statement %d. \\end{%s}\n" % (t, labtex, n, t))
        elif t == "fig":
            counters["fig"] += 1
            ref = "%d" % counters["fig"]
            src.append("\\begin{figure} Body %d. \\caption{%s}%s\\end{figure}\n"
                       % (n, title_tex(it["title"]), labtex))
        elif t == "par":
            src.append("Paragraph %d.\n\n" % n)
            continue
        else:
            raise ValueError(t)
        if lab:
            if lab in exp:
                raise ValueError("duplicate label")
            exp[lab] = {"ref": ref, "kind": t,
                        "container": None if t in SECTIONING else container,
                        "words": title_words(it["title"]) if t in SECTIONING else []}
            if t in SECTIONING:
                exp[lab]["container"] = None
    src.append("\\end{document}\n")
    return "".join(src), exp


def refs_doc(labels, own="dtwo"):
    """D2: refers to every label of D1 (and to one that nobody defines)."""
    body = " ".join("R%d \\ref{%s}" % (i, lab) for i, lab in enumerate(labels))
    return ("\\documentclass{article}\n\\begin{document}\n\\section{Refs}\\label{%s}\n"
            "%s U \\ref{undefined-label} O \\ref{%s}.\n\\end{document}\n" % (own, body, own))


def check_capture(exp, cap):
    """Compare what run 1 rendered (captured under the renderer) with the numbers and the
    target shape the document model predicts.  Returns None or (key, detail)."""
    if set(cap) != set(exp):
        return ("model:label-set", {"expected": sorted(exp), "captured": sorted(cap)})
    for lab in sorted(exp):
        e, c = exp[lab], cap[lab]
        if c.get("ref") != e["ref"]:
            return ("model:number", {"label": lab, "expected": e["ref"], "captured": c.get("ref")})
        if c.get("id") != lab:
            return ("model:id", {"label": lab, "captured": c.get("id")})
        url = c.get("url")
        if not isinstance(url, str) or not url:
            return ("model:url", {"label": lab, "captured": url})
        if e["kind"] in SECTIONING:
            if "#" in url or not url.endswith(".html"):
                return ("model:url", {"label": lab, "captured": url, "expected": "a file"})
        else:
            if not url.endswith("#" + lab):
                return ("model:url", {"label": lab, "captured": url, "expected": "...#" + lab})
            cont = e["container"]
            if cont is None:
                want = "index.html#" + lab
            elif cont == "?":
                want = None
            else:
                want = cap[cont]["url"] + "#" + lab
            if want is not None and url != want:
                return ("model:url", {"label": lab, "captured": url, "expected": want})
        pos = 0
        title = c.get("title", "")
        for w in e["words"]:
            i = title.find(w, pos)
            if i < 0:
                return ("model:title", {"label": lab, "captured": title, "missing": w})
            pos = i + len(w)
    return None


# --------------------------------------------------------------------------
# 2. faults
# --------------------------------------------------------------------------
FOREIGN = ("empty", "text", "list", "top-none", "top-str", "entry-list", "entry-none",
           "entry-str", "entry-int", "proto0", "proto2", "extra-key", "unknown-macro",
           "known-macro", "value-not-dict", "poison-first", "missing", "binary-junk", "two-pickles")
NONDICT_FOREIGN = ("entry-list", "entry-none", "entry-str", "entry-int")
POISON_FOREIGN = ("poison-first",)


def _nth(data, byte, which):
    idx = [i for i in range(len(data)) if data[i] == byte]
    if not idx:
        return None
    return idx[which % len(idx)]


def apply_fault(good, spec, rname):
    """good: bytes the program wrote; returns the faulty content (bytes) or None for a
    missing file.  Pure function of its arguments."""
    k = spec["k"]
    if k == "trunc":
        return good[:spec["at"] % (len(good) + 1)]
    if k == "flip":
        if not good:
            return good
        bit = spec["bit"] % (len(good) * 8)
        b = bytearray(good)
        b[bit // 8] ^= 1 << (bit % 8)
        return bytes(b)
    if k == "splice":
        b = bytearray(good)
        for pos, dele, ins in spec["edits"]:
            p = pos % (len(b) + 1)
            b[p:p + dele] = bytes.fromhex(ins)
        return bytes(b)
    if k == "opcode":
        # '}' EMPTY_DICT -> ']' EMPTY_LIST | 'N' NONE | ')' EMPTY_TUPLE
        i = _nth(good, 0x7d, spec["which"])
        if i is None:
            return good
        b = bytearray(good)
        b[i] = {"list": 0x5d, "none": 0x4e, "tuple": 0x29}[spec["to"]]
        return bytes(b)
    if k == "lenbump":
        # SHORT_BINUNICODE (0x8c, 1-byte length) or BINUNICODE ('X', 4-byte length)
        op = 0x8c if spec.get("op", "short") == "short" else 0x58
        i = _nth(good, op, spec["which"])
        if i is None or i + 1 >= len(good):
            return good
        b = bytearray(good)
        b[i + 1] = (b[i + 1] + spec["delta"]) % 256
        return bytes(b)
    if k == "swapkey":
        to = spec["to"]
        old = b"\x8c" + bytes([len(rname)]) + rname.encode("ascii")
        new = b"\x8c" + bytes([len(to)]) + to.encode("ascii")
        return good.replace(old, new, 1)
    if k == "foreign":
        return foreign(good, spec["what"], rname)
    raise ValueError(k)


def foreign(good, what, rname):
    if what == "missing":
        return None
    if what == "empty":
        return b""
    if what == "text":
        return b"\\relax \n\\newlabel{sec:a}{{1}{1}}\n"
    if what == "binary-junk":
        return bytes(range(256))
    if what == "list":
        return pickle.dumps(["HTML5", "XHTML"])
    if what == "top-none":
        return pickle.dumps(None)
    if what == "top-str":
        return pickle.dumps(rname)
    try:                                  # (in a history the current content may be damaged)
        data = pickle.loads(good)
    except Exception:
        data = {}
    if not isinstance(data, dict):
        data = {}
    if not isinstance(data.get(rname, {}), dict):
        data[rname] = {}
    if what == "entry-list":
        data[rname] = []
    elif what == "entry-none":
        data[rname] = None
    elif what == "entry-str":
        data[rname] = "labels"
    elif what == "entry-int":
        data[rname] = 7
    elif what == "proto0":
        return pickle.dumps(data, protocol=0)
    elif what == "proto2":
        return pickle.dumps(data, protocol=2)
    elif what == "two-pickles":
        return pickle.dumps(data) + pickle.dumps(data)
    elif what == "extra-key":
        data["SomeOtherRenderer"] = {"x": {"ref": "9", "id": "x", "url": "x.html"}}
    elif what == "unknown-macro":
        for key in list(data.get(rname, {})):
            if isinstance(data[rname][key], dict):
                data[rname][key] = dict(data[rname][key], macroName="nosuchmacro")
    elif what == "known-macro":
        for key in list(data.get(rname, {})):
            if isinstance(data[rname][key], dict):
                data[rname][key] = dict(data[rname][key], macroName="section")
    elif what == "value-not-dict":
        table = dict(data.get(rname, {}))
        table["zz-not-a-dict"] = None
        data[rname] = table
    elif what == "poison-first":
        table = {"aa-not-a-dict": None}
        table.update(data.get(rname, {}))
        data[rname] = table
    else:
        raise ValueError(what)
    return pickle.dumps(data)


# --------------------------------------------------------------------------
# 3. file states
# --------------------------------------------------------------------------
MISSING = ("missing",)


def decode(content):
    """Independent reading of file content.  ("missing",) | ("err", name) | ("ok", obj)."""
    if content is None:
        return MISSING
    # CPython prints "SystemError: deallocated bytearray object has exported buffers"
    # straight to sys.stderr when a corrupted BYTEARRAY8 opcode fails; keep reports readable
    old, sys.stderr = sys.stderr, io.StringIO()
    try:
        return ("ok", pickle.loads(content))
    except Exception as exc:          # MemoryError / RecursionError are Exceptions too
        return ("err", type(exc).__name__)
    finally:
        sys.stderr = old


def canon(x, depth=0, stack=()):
    """Order-insensitive, cycle-safe canonical form used to compare decoded structures."""
    if isinstance(x, str):
        return "s:" + str.__str__(x)
    if x is None or isinstance(x, (bool, int, float, bytes)):
        return "%s:%r" % (type(x).__name__, x)
    if id(x) in stack or depth > 12:
        return "<cycle>"
    stack = stack + (id(x),)
    if isinstance(x, dict):
        items = [(canon(k, depth + 1, stack), canon(v, depth + 1, stack)) for k, v in x.items()]
        return ("d", tuple(sorted(items, key=repr)))
    if isinstance(x, (list, tuple)):
        return (type(x).__name__[0], tuple(canon(v, depth + 1, stack) for v in x))
    return "o:" + type(x).__name__


def wellformed_entry(v):
    """A label entry every reader must be able to apply: a dict of known attribute names
    (without macroName: which class gets instantiated is then the default) to strings."""
    if not isinstance(v, dict) or not v:
        return False
    for a, val in v.items():
        if not isinstance(a, str) or a not in CHECKED or not isinstance(val, str):
            return False
        if a == "id" and not val:       # an id cannot be empty (no label is the empty string)
            return False
    return True


def entry_strings(v):
    return dict((a, str.__str__(val)) for a, val in v.items())


def nondict_entry(state, rname):
    """The design-time defect's construct: loadable dict whose entry for rname is no dict."""
    if state[0] != "ok" or not isinstance(state[1], dict):
        return False
    try:
        if rname not in state[1]:
            return False
    except TypeError:
        return False
    return not isinstance(state[1][rname], dict)


def poison_entry(state, rname, cap):
    """A loadable table for rname holding, under a label the current document does not
    define, an entry that is not well formed (persist keeps it; restore may stop at it --
    it does for a non-dict, an empty id, an attribute name that cannot be set)."""
    if state[0] != "ok" or not isinstance(state[1], dict):
        return False
    table = state[1].get(rname)
    if not isinstance(table, dict):
        return False
    return any(k not in cap and not wellformed_entry(v) for k, v in table.items())


def classify(state, rname):
    if state[0] == "missing":
        return "missing"
    if state[0] == "err":
        return "unloadable"
    v = state[1]
    if not isinstance(v, dict):
        return "loadable-non-dict"
    if rname not in v:
        return "loadable-no-entry"
    if not isinstance(v[rname], dict):
        return "loadable-non-dict-entry"
    mode, _ = expect_restore(state, rname)
    return "loadable-table-" + mode


# --------------------------------------------------------------------------
# 4. expectations
# --------------------------------------------------------------------------
def expect_restore(state, rname):
    """-> (mode, table).  mode 'none': no label may appear; 'exact': exactly `table`;
    'subset': only labels the file spells, with the attributes it spells for those in
    `table` (keys of malformed entries are in table with value None)."""
    if state[0] != "ok" or not isinstance(state[1], dict):
        return "none", {}
    v = state[1]
    if rname not in v or not isinstance(v[rname], dict):
        return "none", {}
    table, allgood = {}, True
    for key, val in v[rname].items():
        if isinstance(key, str) and wellformed_entry(val):
            table[key] = entry_strings(val)
        else:
            allgood = False
            try:
                table[key] = None
            except TypeError:
                pass
    return ("exact" if allgood else "subset"), table


def check_restored(state, rname, got):
    """got: {label: {attr: value}} read from the restored nodes (only attributes the file
    spells are read).  Returns None or (key, detail)."""
    mode, table = expect_restore(state, rname)
    for key in got:
        if key not in table:
            return ("foreign-label", {"label": repr(key), "mode": mode,
                                      "file_spells": sorted(map(repr, table))})
    if mode == "exact":
        for key in table:
            if key not in got:
                return ("label-lost", {"label": key, "restored": sorted(map(repr, got)),
                                       "file_spells": sorted(table)})
    for key, attrs in got.items():
        want = table[key]
        if want is None:
            continue
        for a in CHECKED:
            if a in want and attrs.get(a) != want[a]:
                return ("roundtrip-mismatch:" + a, {"label": key, "file_says": want[a],
                                                    "restored": repr(attrs.get(a))})
    return None


def check_resaved(prev, new, rname, cap, clean):
    """prev: file state before persist; new: state of the file persist left; cap: the
    current document's labels as rendered ({label: {attr: str}}); clean: the previous
    content was produced by saves alone (no fault since the last rewrite).
    Returns None or (key, detail)."""
    if new[0] != "ok":
        return ("resave-not-loadable", {"state": list(new[:2])})
    d = new[1]
    if not isinstance(d, dict):
        return ("resave-not-loadable", {"top_level": type(d).__name__})
    if rname not in d:
        return ("resave-incomplete:renderer-entry-missing", {"keys": sorted(map(repr, d))})
    if not isinstance(d[rname], dict):
        return ("resave-entry-not-dict", {"entry": type(d[rname]).__name__})
    table = d[rname]
    for lab in sorted(cap):
        if lab not in table:
            return ("resave-incomplete:label-missing", {"label": lab,
                                                        "saved": sorted(map(repr, table))})
        ent = table[lab]
        if not isinstance(ent, dict):
            return ("resave-incomplete:entry-not-dict", {"label": lab})
        for a in ATTRS:
            want, have = cap[lab].get(a), ent.get(a)
            if want is None and have is None:
                continue
            if not isinstance(have, str) or str.__str__(have) != want:
                return ("resave-incomplete:" + a, {"label": lab, "rendered": want,
                                                   "saved": repr(have)})
    prev_dict = prev[1] if (prev[0] == "ok" and isinstance(prev[1], dict)) else None
    prev_table = None
    if prev_dict is not None and rname in prev_dict and isinstance(prev_dict[rname], dict):
        prev_table = prev_dict[rname]
    for lab in table:
        if lab in cap:
            continue
        if prev_table is None or lab not in prev_table or \
                canon(prev_table[lab]) != canon(table[lab]):
            return ("resave-foreign-label", {"label": repr(lab)})
    for k in d:
        if k != rname and (prev_dict is None or k not in prev_dict):
            return ("resave-foreign-key", {"key": repr(k)})
    if clean and prev_dict is not None:
        for k in prev_dict:
            if k == rname:
                continue
            if k not in d:
                return ("other-renderer-entry-lost", {"key": repr(k), "left": sorted(map(repr, d))})
            if canon(prev_dict[k]) != canon(d[k]):
                return ("other-renderer-entry-changed", {"key": repr(k)})
    return None

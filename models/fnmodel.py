"""Reference model of the filename generator (C15, reused by C13).

Written from the docstring of the template grammar and from the statement of
C15; imports nothing from plasTeX.

Template grammar (docstring):   spec   := name (blank+ name)*
                                name   := part* | part* '[' alt (',' alt)* ']' part*
                                part   := literal | '$'ident | '${'ident'}' , each
                                          optionally followed by '(' digits ')'
Semantics (statement): statics first and in order (a static whose variables are
unbound is skipped); then, per request, the first wildcard alternative whose
variables are all bound; $num = successive integers from 1, advancing only when a
numbered candidate is formed (issued or skipped as taken), zero padded; $x(n) =
first n blank-separated words; forbidden characters replaced in values; extension
added when missing; never a duplicate or reserved name; error when no fresh name
can be formed.

Where the statement leaves the behaviour open -- which namespace the *later*
alternatives see after the first bound alternative collided -- the model is
non-deterministic: it keeps the set of all states consistent with what has been
observed (policy 'keep': the request's bindings stay visible for the whole
request; policy 'reset': they are dropped once one candidate has been formed,
which is what "the namespace is reset ... after each iteration" can also mean).
"""
import re

ERROR = "<error>"


def parse_item(text):
    """'sect${num}(4).html' -> [('lit','sect'),('var','num',4),('lit','.html')]"""
    out = []
    i = 0
    n = len(text)
    lit = ""
    while i < n:
        c = text[i]
        if c == "$":
            m = re.match(r"\$(?:\{\s*(\w+)\s*\}|(\w+))(?:\(\s*(\d+)\s*\))?", text[i:])
            if m:
                if lit:
                    out.append(("lit", lit))
                    lit = ""
                name = m.group(1) or m.group(2)
                fmt = int(m.group(3)) if m.group(3) is not None else None
                out.append(("var", name, fmt))
                i += m.end()
                continue
        lit += c
        i += 1
    if lit:
        out.append(("lit", lit))
    return out


def parse_spec(spec):
    """-> (statics, wildcard) ; each item is a parsed part list; wildcard is a
    list of alternatives (possibly empty)."""
    spec = spec.strip()
    names = []          # each: str (static) or list of str (alternatives)
    cur = ""
    i = 0
    n = len(spec)
    while i < n:
        c = spec[i]
        if c == "[":
            j = spec.index("]", i)
            alts = [a.strip() for a in spec[i + 1:j].split(",")]
            k = j + 1
            suffix = ""
            while k < n and not spec[k].isspace():
                suffix += spec[k]
                k += 1
            names.append([cur + a + suffix for a in alts if (cur + a)])
            cur = ""
            i = k
            continue
        if c.isspace():
            if cur:
                names.append(cur)
                cur = ""
            i += 1
            continue
        cur += c
        i += 1
    if cur:
        names.append(cur)
    statics = []
    wild = []
    for nm in names:
        if isinstance(nm, list):
            wild = nm
            break
        statics.append(nm)
    if not wild and statics:
        wild = [statics.pop()]
    return [parse_item(s) for s in statics], [parse_item(a) for a in wild]


def has_extension(name):
    base = name.rsplit("/", 1)[-1]
    base = base.lstrip(".")
    return "." in base


class FnModel(object):
    def __init__(self, spec, charsub, variables, extension, invalid):
        self.statics, self.wild = parse_spec(spec)
        self.charsub = charsub
        self.extension = extension
        self.taken = set(invalid)
        self.base = dict(variables)        # constructor namespace
        self.g = None                      # namespace captured at the first request
        self.states = set([(0, 1)])        # possible (next static index, num)
        self.dead = False
        self.last_features = set()

    # -- expansion of one item ------------------------------------------------
    def expand(self, item, ns, num):
        """-> (text, numbered) or None when a variable is unbound."""
        out = []
        numbered = False
        for part in item:
            if part[0] == "lit":
                out.append(part[1])
                continue
            _, name, fmt = part
            if name == "num":
                numbered = True
                out.append(("%0" + str(fmt or 0) + "d") % num)
                continue
            if name not in ns:
                return None
            v = ns[name]
            if fmt is not None:
                v = " ".join(v.split()[:fmt])
            if self.charsub:
                bad, sub = self.charsub
                v = "".join(sub if ch in bad else ch for ch in v)
            out.append(v)
        text = "".join(out)
        if not has_extension(text):
            text += self.extension
        return text, numbered

    # -- one request under one policy from one state ----------------------------
    def _run(self, state, ns, policy):
        idx, num = state
        cur = ns
        feats = self.last_features
        while idx < len(self.statics):
            item = self.statics[idx]
            idx += 1
            r = self.expand(item, cur, num)
            if r is None:
                feats.add("static-skipped-unbound")
                continue
            name, numbered = r
            if numbered:
                num += 1
            if policy == "reset":
                cur = self.g
            if name not in self.taken:
                feats.add("static-issued")
                return name, (idx, num)
            feats.add("collision")
        if not self.wild:
            return ERROR, (idx, num)
        for _pass in range(len(self.taken) + 4):
            formed_numbered = False
            ns_changed = False
            for alt in self.wild:
                r = self.expand(alt, cur, num)
                if r is None:
                    feats.add("alternative-skipped-unbound")
                    continue
                name, numbered = r
                if numbered:
                    num += 1
                    formed_numbered = True
                if policy == "reset" and cur is not self.g:
                    cur = self.g
                    ns_changed = True       # the next pass sees other values
                if name not in self.taken:
                    return name, (idx, num)
                feats.add("collision")
            if not formed_numbered and not ns_changed:
                return ERROR, (idx, num)
        return ERROR, (idx, num)

    def predict(self, bindings):
        """Set of admissible outcomes {name-or-ERROR: set(next states)} for a
        request issued after binding `bindings` on top of the reset namespace."""
        if self.g is None:
            g = dict(self.base)
            g.update(bindings)
            self.g = g
        ns = dict(self.g)
        ns.update(bindings)
        outcomes = {}
        self.last_features = set()
        for st in self.states:
            for policy in ("keep", "reset"):
                name, nxt = self._run(st, ns, policy)
                outcomes.setdefault(name, set()).add(nxt)
        return outcomes

    def commit(self, outcome, outcomes):
        self.states = outcomes[outcome]
        if outcome == ERROR:
            self.dead = True
        else:
            self.taken.add(outcome)

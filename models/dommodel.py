"""Reference model for C06: a DOM tree as plain Python lists of node ids.

Pure Python, imports nothing from plasTeX.  Written from the C06 statement and
the W3C DOM Level 3 Core reading that DESIGN.md C06 fixes:

* every container (document, element, fragment) is a Python ``list`` of node ids;
* ``insert`` / ``pop`` / item assignment have *Python list index semantics*
  (``list.insert`` clamps, ``list.pop`` and ``L[i] = x`` raise IndexError when
  ``not -len <= i < len``);
* inserting a fragment = splicing its items at the (once) normalised index;
  assigning a fragment = ``L[i:i+1] = items``; the fragment object is consumed
  (real callers throw a TeXFragment away after expanding it into a parent);
* ``removeChild`` / ``insertBefore`` / ``insertAfter`` / ``replaceChild`` look the
  reference child up by identity and raise NotFoundErr when it is not a child;
* ``normalize`` merges every maximal run of adjacent text children into ONE new
  text node (recursively, attribute-held nodes included);
* a deep clone is a structurally equal copy that shares no node with the original
  (attribute-held nodes included);
* an element whose ``self`` attribute holds a fragment uses that fragment as its
  child list (one shared list).

Ids: 'D' (document), 'E<n>' elements, 'T<n>' text nodes, 'F<n>' fragments; ids are
allocated sequentially, so a JSON op list replays deterministically.
"""

INDEX_ERROR = "IndexError"
NOT_FOUND = "NotFoundErr"


class ModelError(Exception):
    """The op is outside the domain (invalid id / violated precondition)."""


class Expect(object):
    __slots__ = ("raises", "binds", "result", "removed", "touched")

    def __init__(self):
        self.raises = None      # None | INDEX_ERROR | NOT_FOUND
        self.binds = []         # how to find the real object of every new id, in order:
                                #   ('result', id) | ('new', id) |
                                #   ('child', id, container, index) | ('attr', id, elem, key)
        self.result = None      # id the real call must return (identity), when stated
        self.removed = []       # ids that left a child list in this step
        self.touched = []       # containers whose text children were re-created


class DomModel(object):
    def __init__(self, cfg):
        self.kind = {"D": "doc"}
        self.name = {}
        self.data = {}
        self.children = {"D": []}
        self.attrs = {}
        self.where = {}         # id -> ('child', container) | ('attr', elem, key)
        self.alias = {}         # element -> fragment used as its child list
        self.retired = set()
        self.order = ["D"]      # creation order of live ids (deterministic iteration)
        self.n = {"E": 0, "T": 0, "F": 0}
        self.nfrags = cfg.get("frags", 2)
        self.stale_parent = {}  # detached id -> container it was removed from
        self.used = set()       # ids that took part in any op (for symmetry reduction)
        self.initial = []
        for nm in cfg.get("elems", []):
            self.initial.append(("elem", self._new("elem", name=nm)))
        for d in cfg.get("texts", []):
            self.initial.append(("text", self._new("text", data=d)))
        for _ in range(self.nfrags):
            self.initial.append(("frag", self._new("frag")))

    # ------------------------------------------------------------------ ids
    def _new(self, kind, name=None, data=None):
        p = {"elem": "E", "text": "T", "frag": "F"}[kind]
        nid = "%s%d" % (p, self.n[p])
        self.n[p] += 1
        self.kind[nid] = kind
        if kind == "elem":
            self.name[nid] = name
            self.children[nid] = []
            self.attrs[nid] = {}
        elif kind == "text":
            self.data[nid] = data
        else:
            self.children[nid] = []
        self.order.append(nid)
        return nid

    def _retire(self, nid):
        self.retired.add(nid)
        self.where.pop(nid, None)
        self.stale_parent.pop(nid, None)
        self.order.remove(nid)

    def live(self):
        return list(self.order)

    def size(self):
        return len(self.order)

    # ------------------------------------------------------------ structure
    def is_container(self, nid):
        return self.kind[nid] != "text"

    def containers(self):
        return [i for i in self.order if self.kind[i] != "text"]

    def up(self, nid):
        w = self.where.get(nid)
        return None if w is None else w[1]

    def root_of(self, nid):
        seen = 0
        while True:
            u = self.up(nid)
            if u is None:
                return nid
            nid = u
            seen += 1
            if seen > 10000:
                raise ModelError("cycle in model")

    def depth(self, nid):
        d = 0
        while self.up(nid) is not None:
            nid = self.up(nid)
            d += 1
        return d

    def detached_roots(self):
        return [i for i in self.order if i != "D" and i not in self.where]

    def args_for(self, target, kinds=("elem", "text", "frag")):
        """Detached nodes / fragments that may be given to an edit of `target`
        (never an ancestor-or-self of the target)."""
        r = self.root_of(target)
        return [i for i in self.detached_roots() if i != r and self.kind[i] in kinds]

    def pool_frags(self):
        return [i for i in self.order if self.kind[i] == "frag" and i not in self.where]

    def items_of(self, x):
        return list(self.children[x]) if self.kind[x] == "frag" else [x]

    def parent_options(self, container):
        """Ids (or None) acceptable as parentNode of a child listed by `container`."""
        k = self.kind[container]
        if k in ("doc", "elem"):
            opts = [container]
            if container in self.alias:
                opts.append(self.alias[container])
            return opts
        w = self.where.get(container)
        if w is not None and w[0] == "attr":
            return [container, w[1]]
        return [container, None]

    def subtree(self, nid, attrs=True):
        """Ids of the subtree in document order (attribute values first)."""
        out = [nid]
        if self.kind[nid] == "text":
            return out
        if attrs and self.kind[nid] == "elem":
            for k, v in self.attrs[nid].items():
                out.extend(self.subtree(v, attrs))
        if not (attrs and nid in self.alias):
            for c in self.children[nid]:
                out.extend(self.subtree(c, attrs))
        return out

    def has_attr_below(self, nid):
        return any(self.kind[i] == "elem" and self.attrs[i] for i in self.subtree(nid))

    def has_alias_below(self, nid, nonempty=False):
        for i in self.subtree(nid):
            if i in self.alias and (not nonempty or self.children[i]):
                return True
        return False

    # -------------------------------------------------------- derived views
    def text_content(self, nid):
        if self.kind[nid] == "text":
            return self.data[nid]
        return "".join(self.text_content(c) for c in self.children[nid])

    def by_tag(self, nid, tag):
        """Elements named `tag` below nid in document order: attribute values
        first (as _getElementsByTagName documents), then children; every element
        once."""
        out = []
        tags = tag if isinstance(tag, (list, tuple)) else [tag]      # "the name or list of names"
        if self.kind[nid] == "text":
            return out
        if self.kind[nid] == "elem":
            for k, v in self.attrs[nid].items():
                if nid in self.alias and self.alias[nid] == v:
                    continue            # the child list itself: listed below
                if self.kind[v] == "elem" and self.name[v] in tags:
                    out.append(v)
                out.extend(self.by_tag(v, tag))
        for c in self.children[nid]:
            if self.kind[c] == "elem" and self.name[c] in tags:
                out.append(c)
            out.extend(self.by_tag(c, tag))
        return out

    def clean_nodes(self, root):
        """Nodes reachable from root through child lists of the document and of
        plain (non-aliased) elements only; for each the chain of ancestors."""
        out = []

        def walk(n, chain):
            out.append((n, chain))
            if self.kind[n] in ("doc", "elem") and n not in self.alias:
                for c in self.children[n]:
                    walk(c, chain + [n])
        walk(root, [])
        return out

    def position(self, a, chain_a, b, chain_b):
        """Relation of b to a in document order: 'contained_by' (b inside a),
        'contains' (b is an ancestor of a), 'following' (b after a), 'preceding'."""
        pa, pb = chain_a + [a], chain_b + [b]
        if a in chain_b:
            return "contained_by"
        if b in chain_a:
            return "contains"
        k = 0
        while pa[k] == pb[k]:
            k += 1
        common = pa[k - 1]
        L = self.children[common]
        return "following" if L.index(pa[k]) < L.index(pb[k]) else "preceding"

    def common_depth(self, chain_a, a, chain_b, b):
        pa, pb = chain_a + [a], chain_b + [b]
        k = 0
        while k < len(pa) and k < len(pb) and pa[k] == pb[k]:
            k += 1
        return k - 1            # 0 = the root is the lowest common ancestor

    # --------------------------------------------------------------- edits
    def _check_target(self, t):
        if t not in self.kind or t in self.retired or not self.is_container(t):
            raise ModelError("bad target %r" % (t,))

    def _check_arg(self, t, x):
        if x not in self.kind or x in self.retired or x == "D" or x in self.where:
            raise ModelError("argument %r is not detached" % (x,))
        if x == self.root_of(t):
            raise ModelError("argument %r is an ancestor of the target" % (x,))

    def _take(self, x, exp):
        """Items an argument contributes; a fragment is consumed and its pool
        slot refilled with a new empty fragment."""
        if self.kind[x] == "frag":
            items = list(self.children[x])
            self.children[x] = []
            self._retire(x)
            self._refill(exp)
            return items
        self.stale_parent.pop(x, None)
        return [x]

    def _refill(self, exp):
        while len(self.pool_frags()) < self.nfrags:
            exp.binds.append(("new", self._new("frag")))

    def _place(self, t, items):
        for it in items:
            self.where[it] = ("child", t)
            self.stale_parent.pop(it, None)

    def _drop(self, t, c, exp):
        self.where.pop(c, None)
        self.stale_parent[c] = t
        exp.removed.append(c)

    def apply(self, op):
        exp = Expect()
        getattr(self, "_op_" + op["op"])(op, exp)
        for k in ("t", "x", "c", "ref"):
            if op.get(k) is not None:
                self.used.add(op[k])
        self.used.update(op.get("xs", ()))
        return exp

    def hidden(self):
        """Untouched initial nodes that are interchangeable with an untouched
        initial node of the same kind and name/data and a lower id (symmetry
        reduction of the exhaustive enumeration: sequences that differ only by
        renaming such nodes are run once)."""
        seen, out = set(), set()
        for kind, nid in self.initial:
            if nid in self.used or nid in self.retired:
                continue
            sig = (kind, self.name.get(nid), self.data.get(nid))
            if sig in seen:
                out.add(nid)
            seen.add(sig)
        return out

    def _op_create(self, op, exp):
        if op["kind"] == "elem":
            nid = self._new("elem", name=op["name"])
        else:
            nid = self._new("text", data=op["data"])
        exp.binds.append(("result", nid))

    def _op_append(self, op, exp):
        t, x = op["t"], op["x"]
        self._check_target(t)
        self._check_arg(t, x)
        exp.result = x
        items = self._take(x, exp)
        self.children[t].extend(items)
        self._place(t, items)

    def _op_insert(self, op, exp):
        t, x, i = op["t"], op["x"], op["i"]
        self._check_target(t)
        self._check_arg(t, x)
        exp.result = x
        L = self.children[t]
        n = len(L)
        if i < 0:
            i = max(0, i + n)
        i = min(i, n)
        items = self._take(x, exp)
        L[i:i] = items
        self._place(t, items)

    def _op_setitem(self, op, exp):
        t, x, i = op["t"], op["x"], op["i"]
        self._check_target(t)
        self._check_arg(t, x)
        L = self.children[t]
        n = len(L)
        if not -n <= i < n:
            exp.raises = INDEX_ERROR
            return
        if i < 0:
            i += n
        old = L[i]
        items = self._take(x, exp)
        L[i:i + 1] = items
        self._drop(t, old, exp)
        self._place(t, items)

    def _op_pop(self, op, exp):
        t, i = op["t"], op.get("i")
        self._check_target(t)
        if i is None:
            i = -1
        L = self.children[t]
        n = len(L)
        if not -n <= i < n:
            exp.raises = INDEX_ERROR
            return
        old = L.pop(i)
        exp.result = old
        self._drop(t, old, exp)

    def _op_removeChild(self, op, exp):
        t, c = op["t"], op["c"]
        self._check_target(t)
        L = self.children[t]
        if c not in L:
            exp.raises = NOT_FOUND
            return
        L.remove(c)
        exp.result = c
        self._drop(t, c, exp)

    def _ref_edit(self, op, exp, how):
        t, x, ref = op["t"], op["x"], op["ref"]
        self._check_target(t)
        self._check_arg(t, x)
        if ref == x:
            raise ModelError("refChild is newChild")
        L = self.children[t]
        if ref not in L:
            exp.raises = NOT_FOUND
            return
        i = L.index(ref)
        items = self._take(x, exp)
        if how == "before":
            L[i:i] = items
            exp.result = x
        elif how == "after":
            L[i + 1:i + 1] = items
            exp.result = x
        else:
            L[i:i + 1] = items
            exp.result = ref
            self._drop(t, ref, exp)
        self._place(t, items)

    def _op_insertBefore(self, op, exp):
        self._ref_edit(op, exp, "before")

    def _op_insertAfter(self, op, exp):
        self._ref_edit(op, exp, "after")

    def _op_replaceChild(self, op, exp):
        self._ref_edit(op, exp, "replace")

    def _op_extend(self, op, exp):
        t, xs = op["t"], op["xs"]
        self._check_target(t)
        if len(set(xs)) != len(xs):
            raise ModelError("duplicate in extend list")
        for x in xs:
            self._check_arg(t, x)
        exp.result = t
        for x in xs:
            items = self._take(x, exp)
            self.children[t].extend(items)
            self._place(t, items)

    def _op_extendfrag(self, op, exp):
        t, x = op["t"], op["x"]
        self._check_target(t)
        self._check_arg(t, x)
        if self.kind[x] != "frag":
            raise ModelError("extendfrag needs a fragment")
        exp.result = t
        items = self._take(x, exp)
        self.children[t].extend(items)
        self._place(t, items)

    def _op_setattr(self, op, exp):
        t, k, x = op["t"], op["k"], op["x"]
        self._check_target(t)
        if self.kind[t] != "elem" or k in self.attrs[t] or k == "self":
            raise ModelError("bad attribute target/key")
        self._check_arg(t, x)
        self.attrs[t][k] = x
        self.where[x] = ("attr", t, k)
        self.stale_parent.pop(x, None)
        if self.kind[x] == "frag":
            self._refill(exp)

    def _op_mkself(self, op, exp):
        x = op["x"]
        if x not in self.kind or x in self.retired or self.kind[x] != "frag" or x in self.where:
            raise ModelError("mkself needs a detached fragment")
        e = self._new("elem", name=op["name"])
        exp.binds.append(("result", e))
        self.attrs[e]["self"] = x
        self.where[x] = ("attr", e, "self")
        self.alias[e] = x
        self.children[e] = self.children[x]          # one shared list
        self._refill(exp)

    # ---- normalize ------------------------------------------------------
    def _op_normalize(self, op, exp):
        t = op["t"]
        self._check_target(t)
        seen = []
        self._normalize(t, seen)
        for c in seen:
            if c in exp.touched:
                continue
            exp.touched.append(c)
        for c in exp.touched:
            for idx, ch in enumerate(self.children[c]):
                if self.kind[ch] == "text":
                    b = ("child", ch, c, idx)
                    if not any(x[1] == ch for x in exp.binds):
                        exp.binds.append(b)

    def _normalize(self, t, seen):
        if self.kind[t] == "text":
            return
        if self.kind[t] == "elem":
            for k, v in list(self.attrs[t].items()):
                self._normalize(v, seen)
        seen.append(t)
        L = self.children[t]
        new, run = [], []

        def flush():
            if run:
                nid = self._new("text", data="".join(self.data[r] for r in run))
                for r in run:
                    self._retire(r)
                self.where[nid] = ("child", t)
                new.append(nid)
                del run[:]
        for c in L:
            if self.kind[c] == "text":
                run.append(c)
            else:
                flush()
                new.append(c)
        flush()
        L[:] = new
        for c in new:
            if self.kind[c] != "text":
                self._normalize(c, seen)

    def adjacent_texts(self, root):
        """Number of adjacent text pairs anywhere below root."""
        n = 0
        for i in self.subtree(root):
            if self.kind[i] == "text":
                continue
            L = self.children[i]
            for a, b in zip(L, L[1:]):
                if self.kind[a] == "text" and self.kind[b] == "text":
                    n += 1
        return n

    # ---- clone -------------------------------------------------------------
    def _op_clone(self, op, exp):
        x, deep = op["x"], op["deep"]
        if x not in self.kind or x in self.retired or self.kind[x] not in ("elem", "text"):
            raise ModelError("clone target")
        if not deep and self.kind[x] == "elem" and (self.children[x] or self.attrs[x]):
            raise ModelError("shallow clone of a node with children/attributes is outside the domain")
        self._clone(x, exp, ("result",))

    def _clone(self, x, exp, how):
        k = self.kind[x]
        if k == "elem":
            nid = self._new("elem", name=self.name[x])
        elif k == "text":
            nid = self._new("text", data=self.data[x])
        else:
            nid = self._new("frag")
        exp.binds.append((how[0], nid) + tuple(how[1:]))
        if k == "text":
            return nid
        if k == "elem":
            for key, v in self.attrs[x].items():
                c = self._clone(v, exp, ("attr", nid, key))
                self.attrs[nid][key] = c
                self.where[c] = ("attr", nid, key)
            if x in self.alias:
                f = self.attrs[nid]["self"]
                self.alias[nid] = f
                self.children[nid] = self.children[f]
                return nid
        for idx, c in enumerate(self.children[x]):
            cc = self._clone(c, exp, ("child", nid, idx))
            self.children[nid].append(cc)
            self.where[cc] = ("child", nid)
        return nid

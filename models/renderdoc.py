"""Document generator and placement/numbering model for the rendering checks
(C12, C13, C14).  Pure Python; imports nothing from plasTeX.

A *document* is a JSON-able dict

    {"cls": "article"|"book"|"report",
     "title": LEAF | None,              \\title{..}\\maketitle
     "index": bool,                     makeidx + \\printindex at the very end
     "bib":   [{"key": str, "leaf": LEAF}, ...]   thebibliography at the end of the body
     "pre":   [BLOCK, ...]              blocks before the first sectioning command
     "units": [UNIT, ...]}              sectioning units in document order (flat)

    UNIT  = {"lv": -1..5, "star": bool, "title": LEAF, "toc": LEAF|None,
             "label": str|None, "blocks": [BLOCK, ...]}
    LEAF  = {"s": text}                 decoded text the reader must see
    BLOCK = {"k": "par",  "items": [INLINE, ...]}
          | {"k": "list", "env": "itemize"|"enumerate"|"description",
                          "items": [{"term": LEAF|None, "leaf": LEAF, "sub": [LEAF,...]}]}
          | {"k": "tab",  "rows": [[LEAF, ...], ...]}
          | {"k": "float","env": "figure"|"table", "leaf": LEAF, "cap": LEAF, "label": str|None}
          | {"k": "eq",   "label": str|None, "n": int}
          | {"k": "thm",  "title": LEAF|None, "label": str|None, "leaf": LEAF}
          | {"k": "verbatim", "leaf": LEAF} | {"k": "quote", "leaf": LEAF}
    INLINE= {"t": "w"|"b"|"em"|"tt"|"verb", "leaf": LEAF}
          | {"t": "fn", "leaf": LEAF} | {"t": "idx", "leaf": LEAF, "sort": str (optional)}
            (\\index{sort@leaf}: a fixed benign sort key keeps the order of the index
             independent of the leaf text)
          | {"t": "ref", "to": label, "leaf": LEAF} | {"t": "cite", "to": key, "leaf": LEAF}
            (the leaf is a tag word typeset immediately before the \\ref / \\cite so that
             the rendered link can be located in the output)

Levels follow LaTeX: part -1, chapter 0 (book/report only), section 1,
subsection 2, subsubsection 3, paragraph 4, subparagraph 5.

Contents: leaves and marker words (walk_leaves, fill_benign, benign_twin) -- LaTeX
source (to_latex, tex_escape) -- placement model (Placement, effective_split,
index_level) -- counter model (numbers, unit_numbers, label_sites, ref_sites) --
Hypothesis strategies (doc_strategy, finish) -- output reader (Scan over
html.parser, marker_stream, anchors_after_markers, element_text_by_id,
links_with_context, assign_files).  The harness that actually runs plasTeX is
models/renderrun.py.

The model part answers, from the AST alone:
  * which units open an output file for a split level (C13 statement: "each
    sectioning unit at or above the split level is written to its own file,
    units below it inside their nearest file-producing ancestor");
  * in which file every leaf must be shown, and in what order;
  * the number LaTeX prints for every numbered, labelled object (hierarchical
    counters; only the constructs on which the counter rules are undisputed are
    numbered by the model, see `numbers`).
"""
import re

LEVEL_NAMES = {-1: "part", 0: "chapter", 1: "section", 2: "subsection",
               3: "subsubsection", 4: "paragraph", 5: "subparagraph"}

# ---------------------------------------------------------------------------
# leaves
# ---------------------------------------------------------------------------

MARK_RE = re.compile(r"zq\d{4}[a-z]")

# kinds: b body, t section title, a toc (short) title, f footnote, k index key,
#        d document title, c caption, m theorem title, i bibliography item,
#        r tag word in front of a \ref / \cite


def marker(n, kind):
    return "zq%04d%s" % (n, kind)


def walk_leaves(doc):
    """Yield (leaf, kind, unit_index, slot) in document order.

    unit_index: -1 for the part before the first unit, else index in units;
    the bibliography belongs to the last unit (or -1); `slot` is a short string
    naming the text-bearing position (used for class histograms and buckets).
    """
    if doc.get("title") is not None:
        yield doc["title"], "d", -1, "doctitle"
    for b in doc.get("pre", []):
        for x in _block_leaves(b):
            yield x[0], x[1], -1, x[2]
    last = -1
    for ui, u in enumerate(doc.get("units", [])):
        last = ui
        yield u["title"], "t", ui, "title"
        if u.get("toc") is not None:
            yield u["toc"], "a", ui, "toctitle"
        for b in u.get("blocks", []):
            for x in _block_leaves(b):
                yield x[0], x[1], ui, x[2]
    for it in doc.get("bib", []):
        yield it["leaf"], "i", last, "bibitem"


def count_inlines(doc, t):
    """unit index (-1 = before the first unit) -> number of inline items of kind `t` (items without
    a leaf, such as the constant footnote "fnc", are not seen by walk_leaves)"""
    out = {}
    for ui, blocks in [(-1, doc.get("pre", []))] + [(i, u.get("blocks", [])) for i, u in enumerate(doc.get("units", []))]:
        for b in blocks:
            if b["k"] == "par":
                out[ui] = out.get(ui, 0) + sum(1 for it in b["items"] if it["t"] == t)
    return out


def _block_leaves(b):
    k = b["k"]
    if k == "par":
        for it in b["items"]:
            t = it["t"]
            if t in ("w", "b", "em", "tt", "verb"):
                yield it["leaf"], "b", "par-" + t
            elif t == "fn":
                yield it["leaf"], "f", "footnote"
            elif t == "idx":
                yield it["leaf"], "k", "indexkey"
            elif t in ("ref", "cite"):
                yield it["leaf"], "r", t + "tag"
    elif k == "list":
        for it in b["items"]:
            if it.get("term") is not None:
                yield it["term"], "b", "term"
            yield it["leaf"], "b", "item"
            for s in it.get("sub", []):
                yield s, "b", "subitem"
    elif k == "tab":
        for row in b["rows"]:
            for c in row:
                yield c, "b", "cell"
    elif k == "float":
        yield b["leaf"], "b", "floatbody"
        yield b["cap"], "c", "caption"
    elif k == "thm":
        if b.get("title") is not None:
            yield b["title"], "m", "thmtitle"
        yield b["leaf"], "b", "thmbody"
    elif k in ("verbatim", "quote"):
        yield b["leaf"], "b", k
    elif k == "eq":
        return
    else:
        raise ValueError("unknown block %r" % (k,))


def fill_benign(doc):
    """Give every leaf a unique marker word (in place); a leaf may carry a
    'sfx' (extra words/characters appended after the marker) -- used for titles
    whose derived file names need word limiting / character substitution.
    Returns doc."""
    for n, (leaf, kind, ui, slot) in enumerate(walk_leaves(doc)):
        leaf["s"] = marker(n, kind) + leaf.get("sfx", "")
    return doc


def benign_twin(doc):
    """Deep copy of doc in which every leaf text is replaced by its marker."""
    import copy
    tw = copy.deepcopy(doc)
    for n, (leaf, kind, ui, slot) in enumerate(walk_leaves(tw)):
        leaf["s"] = marker(n, kind)
        leaf.pop("sfx", None)
    return tw


# ---------------------------------------------------------------------------
# LaTeX source
# ---------------------------------------------------------------------------

_TEX_ESC = {
    "\\": r"\textbackslash{}", "{": r"\{", "}": r"\}", "$": r"\$", "&": r"\&",
    "#": r"\#", "%": r"\%", "_": r"\_", "^": r"\^{}", "~": r"\~{}",
    # these accented letters are always written with accent commands (the others literally)
    "\u00e1": r"\'a", "\u00f3": r"\'o", "\u00f6": r'\"o', "\u00e0": r"\`a", "\u00f1": r"\~n", "\u00e7": r"\c{c}",
}


def tex_escape(s):
    """LaTeX source that typesets the characters of `s` as text."""
    out = []
    for ch in s:
        out.append(_TEX_ESC.get(ch, ch))
    return "".join(out)


def _verb_delim(s):
    for d in "|+!/=:;.,0":
        if d not in s:
            return d
    raise ValueError("no \\verb delimiter for %r" % s)


def _inline(it):
    t = it["t"]
    if t == "w":
        return tex_escape(it["leaf"]["s"])
    if t == "b":
        return r"\textbf{%s}" % tex_escape(it["leaf"]["s"])
    if t == "em":
        return r"\emph{%s}" % tex_escape(it["leaf"]["s"])
    if t == "tt":
        return r"\texttt{%s}" % tex_escape(it["leaf"]["s"])
    if t == "verb":
        s = it["leaf"]["s"]
        d = _verb_delim(s)
        return r"\verb%s%s%s%s" % ("*" if it.get("star") else "", d, s, d)
    if t == "fn":
        if it.get("split"):
            # the split form: mark here, text given separately
            return r"\footnotemark\footnotetext{%s}" % tex_escape(it["leaf"]["s"])
        return r"\footnote{%s}" % tex_escape(it["leaf"]["s"])
    if t == "fnc":
        # a footnote whose text is the same wherever it occurs (no marker word): equal footnotes
        return r"\footnote{Ibid.}"
    if t == "idx":
        if it.get("sort"):
            return r"\index{%s@%s}" % (it["sort"], index_escape(it["leaf"]["s"]))
        return r"\index{%s}" % index_escape(it["leaf"]["s"])
    if t == "ref":
        return r"%s \ref{%s}" % (tex_escape(it["leaf"]["s"]), it["to"])
    if t == "cite":
        return r"%s \cite{%s}" % (tex_escape(it["leaf"]["s"]), it["to"])
    raise ValueError(t)


def index_escape(s):
    """Index argument: makeindex specials ! @ | " are quoted with a '"'."""
    out = []
    for ch in s:
        if ch in '!@|"':
            out.append('"' + ch)
        else:
            out.append(_TEX_ESC.get(ch, ch))
    return "".join(out)


def _block(b, out):
    k = b["k"]
    if k == "par":
        out.append(" ".join(_inline(it) for it in b["items"]))
        out.append("")
    elif k == "list":
        env = b["env"]
        out.append(r"\begin{%s}" % env)
        for it in b["items"]:
            if env == "description":
                term = it["term"]["s"] if it.get("term") is not None else ""
                out.append(r"\item[{%s}] %s" % (tex_escape(term), tex_escape(it["leaf"]["s"])))
            else:
                out.append(r"\item %s" % tex_escape(it["leaf"]["s"]))
            if it.get("sub"):
                out.append(r"\begin{itemize}")
                for s in it["sub"]:
                    out.append(r"\item %s" % tex_escape(s["s"]))
                out.append(r"\end{itemize}")
        out.append(r"\end{%s}" % env)
        out.append("")
    elif k == "tab":
        ncol = max(len(r) for r in b["rows"])
        gap = b.get("gap")              # an empty cell at this position of every row

        def cells(row):
            cs = [tex_escape(c["s"]) for c in row]
            if gap is not None:
                cs.insert(min(gap, len(cs)), "")
            return cs
        out.append(r"\begin{tabular}{%s}" % ("l" * (ncol + (gap is not None))))
        out.append(" \\\\\n".join(" & ".join(cells(row)).strip() for row in b["rows"]))
        out.append(r"\end{tabular}")
        out.append("")
    elif k == "float":
        out.append(r"\begin{%s}" % b["env"])
        out.append(tex_escape(b["leaf"]["s"]))
        cap = r"\caption{%s}" % tex_escape(b["cap"]["s"])
        if b.get("label"):
            cap += r"\label{%s}" % b["label"]
        out.append(cap)
        out.append(r"\end{%s}" % b["env"])
        out.append("")
    elif k == "eq":
        lab = r"\label{%s}" % b["label"] if b.get("label") else ""
        out.append(r"\begin{equation}%s x_{%d}=%d \end{equation}" % (lab, b["n"], b["n"]))
        out.append("")
    elif k == "thm":
        head = r"\begin{thm}"
        if b.get("title") is not None:
            head += "[{%s}]" % tex_escape(b["title"]["s"])
        if b.get("label"):
            head += r"\label{%s}" % b["label"]
        out.append(head)
        out.append(tex_escape(b["leaf"]["s"]))
        out.append(r"\end{thm}")
        out.append("")
    elif k == "verbatim":
        env = "verbatim*" if b.get("star") else "verbatim"
        out.append(r"\begin{%s}" % env)
        out.append(b["leaf"]["s"])
        out.append(r"\end{%s}" % env)
        out.append("")
    elif k == "quote":
        out.append(r"\begin{quote}")
        out.append(tex_escape(b["leaf"]["s"]))
        out.append(r"\end{quote}")
        out.append("")
    else:
        raise ValueError(k)


def to_latex(doc):
    out = [r"\documentclass{%s}" % doc["cls"]]
    if doc.get("index"):
        out.append(r"\usepackage{makeidx}")
        out.append(r"\makeindex")
    out.append(r"\newtheorem{thm}{Theorem}")
    out.append(r"\begin{document}")
    if doc.get("title") is not None:
        out.append(r"\title{%s}" % tex_escape(doc["title"]["s"]))
        out.append(r"\maketitle")
    for b in doc.get("pre", []):
        _block(b, out)
    for u in doc.get("units", []):
        cmd = "\\" + LEVEL_NAMES[u["lv"]]
        if u.get("star"):
            cmd += "*"
        if u.get("toc") is not None and not u.get("star"):
            cmd += "[{%s}]" % tex_escape(u["toc"]["s"])
        cmd += "{%s}" % tex_escape(u["title"]["s"])
        if u.get("label"):
            cmd += r"\label{%s}" % u["label"]
        out.append(cmd)
        out.append("")
        for b in u.get("blocks", []):
            _block(b, out)
    if doc.get("bib"):
        out.append(r"\begin{thebibliography}{99}")
        for it in doc["bib"]:
            out.append(r"\bibitem{%s} %s" % (it["key"], tex_escape(it["leaf"]["s"])))
        out.append(r"\end{thebibliography}")
        out.append("")
    if doc.get("index"):
        out.append(r"\printindex")
    out.append(r"\end{document}")
    return "\n".join(out) + "\n"


# ---------------------------------------------------------------------------
# placement model
# ---------------------------------------------------------------------------

INDEX_UNIT = "index"     # pseudo unit index of \printindex


def index_level(cls):
    """The class files give the index (and \\bibliography) the level of a
    chapter in book/report and of a section in article."""
    return 1 if cls == "article" else 0


def effective_split(template, split):
    """'a template that names a single file means everything in that file'."""
    t = template.strip()
    if " " not in t and "\t" not in t and "[" not in t:
        return -10
    return split


class Placement(object):
    """File-producing nodes and the file of every unit for one split level.

    Nodes are identified by: -1 = the document, 0..n-1 = units, INDEX_UNIT.
    `order`   file-producing nodes in document order (the document first)
    `file_of` node -> file-producing node that contains it (itself if it opens
              a file)
    `parent`  node -> parent node in the sectioning tree (None for the document)
    """

    def __init__(self, doc, split):
        units = doc.get("units", [])
        self.levels = {}
        seq = []
        for i, u in enumerate(units):
            seq.append((i, u["lv"]))
        if doc.get("index"):
            seq.append((INDEX_UNIT, index_level(doc["cls"])))
        self.seq = [-1] + [n for n, _ in seq]
        self.parent = {-1: None}
        self.levels[-1] = None
        stack = [(-1, -10 ** 9)]
        for n, lv in seq:
            self.levels[n] = lv
            while stack[-1][1] >= lv:
                stack.pop()
            self.parent[n] = stack[-1][0]
            stack.append((n, lv))
        self.split = split
        self.opens = {-1: True}
        for n, lv in seq:
            self.opens[n] = lv <= split
        self.order = [n for n in self.seq if self.opens[n]]
        self.file_of = {}
        for n in self.seq:
            m = n
            while not self.opens[m]:
                m = self.parent[m]
            self.file_of[n] = m

    def children(self, n):
        return [m for m in self.seq if self.parent.get(m) == n and m != -1]

    def has_inner_unit_with_text(self, doc):
        """>= 1 unit below the split level (no own file) that has body text."""
        units = doc.get("units", [])
        for i, u in enumerate(units):
            if not self.opens[i] and u.get("blocks"):
                return True
        return False


# ---------------------------------------------------------------------------
# numbering model (LaTeX counter rules, standard classes)
# ---------------------------------------------------------------------------

def numbers(doc, secnumdepth=2):
    """label -> the string LaTeX's \\ref prints, for the labelled objects whose
    numbering the standard classes define without dispute and which the
    processor is configured (sec-num-depth, taken as data) to number:

      article : section n, subsection n.m, (subsubsection n.m.k), figure n,
                table n, equation n, theorem n
      book/report : chapter c, section c.s, subsection c.s.t; figure c.n,
                table c.n, equation c.n (book; only inside a chapter), theorem n

    Objects the model does not number (parts: Roman in LaTeX; starred units;
    units deeper than secnumdepth; floats/equations outside any chapter in
    book/report; equations in report, where plasTeX documents `${equation}`)
    are simply absent from the result: the check then only compares the shown
    number with the number displayed at the target.
    """
    cls = doc["cls"]
    out = {}
    cnt = {0: 0, 1: 0, 2: 0, 3: 0, 4: 0, 5: 0}
    fig = tab = eq = thm = 0
    in_chapter = False

    def secnum(lv):
        lo = 1 if cls == "article" else 0
        return ".".join(str(cnt[l]) for l in range(lo, lv + 1))

    def blocks(bs):
        nonlocal fig, tab, eq, thm
        for b in bs:
            k = b["k"]
            if k == "float":
                if b["env"] == "figure":
                    fig += 1
                    n = fig
                else:
                    tab += 1
                    n = tab
                if b.get("label"):
                    if cls == "article":
                        out[b["label"]] = str(n)
                    elif in_chapter:
                        out[b["label"]] = "%d.%d" % (cnt[0], n)
            elif k == "eq":
                eq += 1
                if b.get("label"):
                    if cls == "article":
                        out[b["label"]] = str(eq)
                    elif cls == "book" and in_chapter:
                        out[b["label"]] = "%d.%d" % (cnt[0], eq)
            elif k == "thm":
                thm += 1
                if b.get("label"):
                    out[b["label"]] = str(thm)

    blocks(doc.get("pre", []))
    for u in doc.get("units", []):
        lv = u["lv"]
        if lv >= 0 and not u.get("star"):
            cnt[lv] += 1
            for l in range(lv + 1, 6):
                cnt[l] = 0
            if lv == 0:
                fig = tab = eq = 0
                in_chapter = True
            if u.get("label") and lv <= secnumdepth:
                # a unit is numbered like LaTeX only when all its ancestors'
                # counters are meaningful (no section before the first chapter)
                lo = 1 if cls == "article" else 0
                if all(cnt[l] > 0 for l in range(lo, lv + 1)):
                    out[u["label"]] = secnum(lv)
        blocks(u.get("blocks", []))
    return out


def label_sites(doc):
    """label -> (unit_index, kind) for every \\label in the document."""
    out = {}

    def blocks(bs, ui):
        for b in bs:
            if b["k"] in ("float", "eq", "thm") and b.get("label"):
                out[b["label"]] = (ui, b["k"] if b["k"] != "float" else b["env"])
    blocks(doc.get("pre", []), -1)
    for ui, u in enumerate(doc.get("units", [])):
        if u.get("label"):
            out[u["label"]] = (ui, "unit")
        blocks(u.get("blocks", []), ui)
    return out


def ref_sites(doc):
    """[(unit_index, 'ref'|'cite', target, tag word)] in document order."""
    out = []

    def blocks(bs, ui):
        for b in bs:
            if b["k"] == "par":
                for it in b["items"]:
                    if it["t"] in ("ref", "cite"):
                        out.append((ui, it["t"], it["to"], it["leaf"]["s"]))
    blocks(doc.get("pre", []), -1)
    for ui, u in enumerate(doc.get("units", [])):
        blocks(u.get("blocks", []), ui)
    return out


# ---------------------------------------------------------------------------
# reading the output: a thin event scanner over html.parser
# ---------------------------------------------------------------------------

from html.parser import HTMLParser  # noqa: E402

VOID = set(["area", "base", "br", "col", "embed", "hr", "img", "input", "link",
            "meta", "param", "source", "track", "wbr"])


class Scan(HTMLParser):
    """Flat event list of one output file.

    events: ("start", tag, [(name, value), ...]) | ("end", tag) |
            ("text", data) | ("comment", data) | ("decl", data) | ("pi", data)
    Text is decoded (convert_charrefs) and adjacent text is merged by the parser.
    """

    def __init__(self, text):
        HTMLParser.__init__(self, convert_charrefs=True)
        self.events = []
        self.feed(text)
        self.close()

    def handle_starttag(self, tag, attrs):
        self.events.append(("start", tag, [(k, v if v is not None else "") for k, v in attrs]))

    def handle_startendtag(self, tag, attrs):
        self.events.append(("start", tag, [(k, v if v is not None else "") for k, v in attrs]))
        self.events.append(("end", tag))

    def handle_endtag(self, tag):
        self.events.append(("end", tag))

    def handle_data(self, data):
        if self.events and self.events[-1][0] == "text":
            self.events[-1] = ("text", self.events[-1][1] + data)
        else:
            self.events.append(("text", data))

    def handle_comment(self, data):
        self.events.append(("comment", data))

    def handle_decl(self, decl):
        self.events.append(("decl", decl))

    def handle_pi(self, data):
        self.events.append(("pi", data))

    def unknown_decl(self, data):
        self.events.append(("decl", "[" + data))

    # -- views ----------------------------------------------------------------
    def text(self):
        """All text nodes concatenated in order (a blank between nodes)."""
        return " ".join(e[1] for e in self.events if e[0] == "text")

    def ids(self):
        out = []
        for e in self.events:
            if e[0] == "start":
                for k, v in e[2]:
                    if k == "id":
                        out.append(v)
        return out

    def anchors(self):
        """Names usable as fragment targets: id of any element, name of <a>."""
        out = set()
        for e in self.events:
            if e[0] == "start":
                for k, v in e[2]:
                    if k == "id" or (k == "name" and e[1] == "a"):
                        out.add(v)
        return out

    def links(self):
        """[(tag, href, text of the element for <a>)]"""
        out = []
        ev = self.events
        for i, e in enumerate(ev):
            if e[0] != "start":
                continue
            href = None
            for k, v in e[2]:
                if k == "href":
                    href = v
            if href is None:
                continue
            txt = ""
            if e[1] == "a":
                depth = 0
                parts = []
                for f in ev[i + 1:]:
                    if f[0] == "start" and f[1] == "a":
                        depth += 1
                    elif f[0] == "end" and f[1] == "a":
                        if depth == 0:
                            break
                        depth -= 1
                    elif f[0] == "text":
                        parts.append(f[1])
                txt = "".join(parts)
            out.append((e[1], href, txt, dict(e[2])))
        return out


# ---------------------------------------------------------------------------
# per-unit numbers (for $ref in file-name templates and for \ref texts)
# ---------------------------------------------------------------------------

UNKNOWN = "<unknown>"


def unit_numbers(doc, secnumdepth=2):
    """One entry per unit: the number string LaTeX prints for it, None when the
    unit carries no number (starred, or deeper than secnumdepth), UNKNOWN when
    the model does not claim one (parts; units whose enclosing counters are
    still zero, e.g. a section before the first chapter)."""
    cls = doc["cls"]
    lo = 1 if cls == "article" else 0
    cnt = {0: 0, 1: 0, 2: 0, 3: 0, 4: 0, 5: 0}
    out = []
    for u in doc.get("units", []):
        lv = u["lv"]
        if u.get("star"):
            out.append(None)
            continue
        if lv < 0:
            out.append(UNKNOWN)
            continue
        cnt[lv] += 1
        for l in range(lv + 1, 6):
            cnt[l] = 0
        if lv > secnumdepth:
            out.append(None)
        elif all(cnt[l] > 0 for l in range(lo, lv + 1)):
            out.append(".".join(str(cnt[l]) for l in range(lo, lv + 1)))
        else:
            out.append(UNKNOWN)
    return out


# ---------------------------------------------------------------------------
# Hypothesis strategies (the generator).  Recursion-free by construction: no
# macro definitions are generated at all.
# ---------------------------------------------------------------------------

TITLE_SFX = ["", "", "", " Intro", " a b c d", ": x/y", " (two) parts?", " what, now", " A.B",
             " Intro"]
LABEL_PREFIX = ["s:", "s-", "s.", "sec", "L", "SEC", "Sec", "l"]      # some labels differ in letter case only
MIXED_SORT_KEYS = ["apple", "Apple", "avocado", "Avocado", "banana", "Berry", "beta", "1one", "2two", "-dash",
                   "zeta", "Zoo"]
COLLIDING_LABELS = ["index", "top", "front", "toc", "main", "job", "sect0001", "sect0002", "s1", "s2", "1", "2"]
BLOCK_LABEL_PREFIX = {"figure": "fig:", "table": "tab:", "eq": "eq:", "thm": "thm-"}


INLINE_KINDS = ["w", "w", "w", "b", "em", "tt", "verb", "fn", "idx", "ref", "ref", "cite"]


def doc_strategy(leaf=None, title_leaf=None, max_units=8, max_blocks=3, classes=None,
                 with_verbatim=True, inline_kinds=None, ref_pars=False, sorted_index=False,
                 mixed_index=False):
    """Strategy of documents.  `leaf()` -> strategy of fresh LEAF dicts for body
    positions, `title_leaf()` for titles (defaults: empty leaves to be filled by
    fill_benign)."""
    from hypothesis import strategies as st

    if leaf is None:
        leaf = lambda: st.builds(dict, s=st.just(""))            # noqa: E731
    if title_leaf is None:
        title_leaf = lambda: st.builds(dict, s=st.just(""),     # noqa: E731
                                       sfx=st.sampled_from(TITLE_SFX))
    classes = classes or ["article", "book", "report"]
    tag_leaf = lambda: st.builds(dict, s=st.just("see"))         # noqa: E731  (always benign)

    @st.composite
    def inline(draw):
        t = draw(st.sampled_from(inline_kinds or INLINE_KINDS))
        if t == "verb" and not with_verbatim:
            t = "w"
        if t in ("ref", "cite"):
            return {"t": t, "to": draw(st.integers(0, 30)), "leaf": draw(tag_leaf())}
        if t == "fnc":
            return {"t": "fnc"}
        if t == "verb":
            return {"t": t, "leaf": draw(leaf()), "star": draw(st.integers(0, 3)) == 0}
        if t == "fn":
            return {"t": t, "leaf": draw(leaf()), "split": draw(st.integers(0, 3)) == 0}
        if t == "idx" and sorted_index:
            return {"t": t, "leaf": draw(leaf()), "sort": True}
        if t == "idx" and mixed_index and draw(st.booleans()):
            # sort keys whose initials meet in both cases, digits and symbols (index group ids)
            return {"t": t, "leaf": draw(leaf()), "sort": draw(st.sampled_from(MIXED_SORT_KEYS))}
        return {"t": t, "leaf": draw(leaf())}

    @st.composite
    def block(draw):
        k = draw(st.sampled_from(["par", "par", "par", "list", "tab", "float", "eq", "thm",
                                  "verbatim", "quote"]))
        if k == "verbatim" and not with_verbatim:
            k = "quote"
        if k == "par":
            items = draw(st.lists(inline(), min_size=1, max_size=4))
            if not any(it["t"] in ("w", "b", "em", "tt", "verb") for it in items):
                # (index entries may form a paragraph by themselves, e.g. right after a heading)
                if not (all(it["t"] == "idx" for it in items) and draw(st.booleans())):
                    items.insert(0, {"t": "w", "leaf": draw(leaf())})
            return {"k": "par", "items": items}
        if k == "list":
            env = draw(st.sampled_from(["itemize", "enumerate", "description"]))
            n = draw(st.integers(1, 3))
            items = []
            for _ in range(n):
                it = {"term": draw(leaf()) if env == "description" else None,
                      "leaf": draw(leaf()),
                      "sub": draw(st.lists(leaf(), max_size=2)) if draw(st.integers(0, 3)) == 0 else []}
                items.append(it)
            return {"k": "list", "env": env, "items": items}
        if k == "tab":
            nc = draw(st.integers(1, 3))
            nr = draw(st.integers(1, 2))
            return {"k": "tab", "rows": [[draw(leaf()) for _ in range(nc)] for _ in range(nr)],
                    "gap": draw(st.sampled_from([None, None, 0, 1, 9]))}
        if k == "float":
            return {"k": "float", "env": draw(st.sampled_from(["figure", "table"])),
                    "leaf": draw(leaf()), "cap": draw(leaf()),
                    "label": draw(st.booleans())}
        if k == "eq":
            return {"k": "eq", "label": draw(st.booleans()), "n": 0}
        if k == "thm":
            return {"k": "thm", "title": draw(leaf()) if draw(st.booleans()) else None,
                    "label": draw(st.booleans()), "leaf": draw(leaf())}
        if k == "verbatim":
            return {"k": k, "leaf": draw(leaf()), "star": draw(st.integers(0, 3)) == 0}
        return {"k": k, "leaf": draw(leaf())}

    @st.composite
    def document(draw):
        cls = draw(st.sampled_from(classes))
        top = 1 if cls == "article" else 0
        nunits = draw(st.sampled_from(list(range(3, max_units + 1)) * 2 + [2, 2, 1, 0]))
        units = []
        prev = None
        used = set()
        for i in range(nunits):
            if prev is None:
                lv = draw(st.sampled_from([top, top, top, -1, top + 1]))
            else:
                hi = min(5, prev + draw(st.sampled_from([1, 1, 1, 2])))
                lv = draw(st.integers(-1, hi))
                # shallow levels are much more interesting than deep ones
                if lv > top + 2 and draw(st.booleans()):
                    lv = draw(st.integers(top, top + 1))
            if cls == "article" and lv == 0:
                lv = 1
            prev = lv
            label = None
            if draw(st.integers(0, 2)) > 0:
                cand = draw(st.sampled_from(LABEL_PREFIX)) + str(draw(st.integers(1, 4)))
                if draw(st.integers(0, 5)) == 0:
                    # a label spelled like a static or numbered file name of the template
                    cand = draw(st.sampled_from(COLLIDING_LABELS))
                if cand not in used:
                    used.add(cand)
                    label = cand
            u = {"lv": lv, "star": draw(st.integers(0, 9)) == 0,
                 "title": draw(title_leaf()),
                 "toc": draw(leaf()) if draw(st.integers(0, 5)) == 0 else None,
                 "label": label,
                 "blocks": draw(st.lists(block(), max_size=max_blocks))}
            if u["star"]:
                u["toc"] = None
            if ref_pars and draw(st.sampled_from([True, True, False])):
                items = [{"t": "w", "leaf": draw(tag_leaf())}]
                for _ in range(draw(st.sampled_from([2, 1, 3]))):
                    items.append({"t": "ref", "to": draw(st.integers(0, 30)), "leaf": draw(tag_leaf())})
                u["blocks"].append({"k": "par", "items": items})
            units.append(u)
        doc = {"cls": cls,
               "title": draw(leaf()) if draw(st.booleans()) else None,
               "index": draw(st.integers(0, 2)) > 0,
               "bib": [{"key": "k%d" % j, "leaf": draw(leaf())}
                       for j in range(draw(st.integers(0, 2)))],
               "pre": draw(st.lists(block(), max_size=2)),
               "units": units}
        finish(doc)
        return doc

    return document()


def finish(doc):
    """Resolve the symbolic parts of a drawn document in place: block labels
    (True -> unique names), equation numbers, ref/cite targets (ints -> names;
    dropped when there is nothing to point at)."""
    nlab = {"figure": 0, "table": 0, "eq": 0, "thm": 0}
    labels = []
    for u in doc["units"]:
        if u.get("label"):
            labels.append(u["label"])
    allblocks = [(b, -1) for b in doc["pre"]]
    for ui, u in enumerate(doc["units"]):
        allblocks += [(b, ui) for b in u["blocks"]]
    neq = 0
    for b, ui in allblocks:
        k = b["k"]
        kind = b["env"] if k == "float" else k
        if k == "eq":
            neq += 1
            b["n"] = neq
        if k in ("float", "eq", "thm"):
            if b.get("label") is True:
                nlab[kind] += 1
                b["label"] = "%s%d" % (BLOCK_LABEL_PREFIX[kind], nlab[kind])
                labels.append(b["label"])
            elif not b.get("label"):
                b["label"] = None
    keys = [it["key"] for it in doc.get("bib", [])]
    nidx = 0
    for b, ui in allblocks:
        if b["k"] != "par":
            continue
        keep = []
        for it in b["items"]:
            if it["t"] == "idx" and it.get("sort") is True:
                nidx += 1
                it["sort"] = "ky%03d" % nidx
            if it["t"] == "ref":
                if not labels:
                    continue
                if isinstance(it["to"], int):
                    it["to"] = labels[it["to"] % len(labels)]
            elif it["t"] == "cite":
                if not keys:
                    continue
                if isinstance(it["to"], int):
                    it["to"] = keys[it["to"] % len(keys)]
            keep.append(it)
        b["items"] = keep
    return doc


HEADINGS = set(["h1", "h2", "h3", "h4", "h5", "h6"])


def marker_stream(scan):
    """[(marker, in_heading)] for every marker word in the text nodes of one
    file, in order of appearance."""
    out = []
    depth = 0
    for e in scan.events:
        if e[0] == "start" and e[1] in HEADINGS:
            depth += 1
        elif e[0] == "end" and e[1] in HEADINGS:
            depth = max(0, depth - 1)
        elif e[0] == "text":
            for m in MARK_RE.findall(e[1]):
                out.append((m, depth > 0))
    return out


def decode_files(res, encoding="utf-8"):
    """{name: text} from the harness result (bytes -> str, strict)."""
    return dict((n, b.decode(encoding)) for n, b in res["files"].items())


def element_text_by_id(scan, ident):
    """Concatenated text inside the (first) element carrying id=ident."""
    ev = scan.events
    for i, e in enumerate(ev):
        if e[0] == "start" and any(k == "id" and v == ident for k, v in e[2]):
            tag = e[1]
            if tag in VOID:
                return ""
            depth = 0
            parts = []
            for f in ev[i + 1:]:
                if f[0] == "start" and f[1] == tag:
                    depth += 1
                elif f[0] == "end" and f[1] == tag:
                    if depth == 0:
                        break
                    depth -= 1
                elif f[0] == "text":
                    parts.append(f[1])
            return "".join(parts)
    return None


def anchors_after_markers(scan):
    """marker word -> (href, text, attrs) of the first <a href> that starts
    after the text node containing the marker and before the next marker."""
    out = {}
    ev = scan.events
    pending = []
    i = 0
    n = len(ev)
    while i < n:
        e = ev[i]
        if e[0] == "text":
            ms = MARK_RE.findall(e[1])
            if ms:
                # only the last marker of a text node is adjacent to what follows
                pending = [ms[-1]]
                # text after the last marker must be blank for adjacency
                tail = e[1][e[1].rfind(ms[-1]) + len(ms[-1]):]
                pending_tail = tail
            elif pending:
                pending_tail += e[1]
        elif e[0] == "start" and e[1] == "a" and pending:
            href = None
            for k, v in e[2]:
                if k == "href":
                    href = v
            if href is not None:
                depth = 0
                parts = []
                for f in ev[i + 1:]:
                    if f[0] == "start" and f[1] == "a":
                        depth += 1
                    elif f[0] == "end" and f[1] == "a":
                        if depth == 0:
                            break
                        depth -= 1
                    elif f[0] == "text":
                        parts.append(f[1])
                out[pending[0]] = (href, "".join(parts), dict(e[2]), pending_tail)
                pending = []
        i += 1
    return out


def assign_files(doc, P, streams, created):
    """Match output files to file-producing nodes from the output alone: a
    unit's file is the one showing its title marker inside a heading element;
    the document owns the first name the renderer issued, the index (when it
    opens a file) the remaining one.

    Returns (node_file, None) or (None, (bucket key, detail))."""
    names = sorted(streams)
    where_heading = {}
    for name in names:
        for m, inh in streams[name]:
            if m[-1] == "t" and inh:
                where_heading.setdefault(m, []).append(name)
    node_file = {}
    for n in P.order:
        if n in (-1, INDEX_UNIT):
            continue
        tm = MARK_RE.match(doc["units"][n]["title"]["s"]).group(0)
        hs = where_heading.get(tm, [])
        if len(hs) != 1:
            return None, ("title-heading-count", {"title": tm, "files": hs})
        node_file[n] = hs[0]
    if len(set(node_file.values())) != len(node_file):
        return None, ("units-share-a-file",
                      {"node_file": dict((str(k), v) for k, v in node_file.items())})
    rest = [n for n in names if n not in set(node_file.values())]
    if INDEX_UNIT in P.order:
        if len(rest) != 2:
            return None, ("file-count", {"rest": rest})
        other = [n for n in rest if n != created[0]]
        if created[0] not in rest or len(other) != 1:
            return None, ("document-file-not-first", {"created": created, "rest": rest})
        node_file[-1] = created[0]
        node_file[INDEX_UNIT] = other[0]
    else:
        if len(rest) != 1:
            return None, ("file-count", {"rest": rest})
        node_file[-1] = rest[0]
    if created and created[0] != node_file[-1]:
        return None, ("document-file-not-first", {"created": created, "doc_file": node_file[-1]})
    return node_file, None


def links_with_context(scan):
    """[(href, text, attrs, [enclosing 'tag.firstclass', ...])] for every <a href>."""
    out = []
    ev = scan.events
    stack = []
    for i, e in enumerate(ev):
        if e[0] == "start":
            d = dict(e[2])
            if e[1] == "a" and "href" in d:
                out.append((d["href"], None, d, list(stack)))
            if e[1] not in VOID:
                cls = d.get("class", "").split()
                stack.append(e[1] + ("." + cls[0] if cls else ""))
        elif e[0] == "end":
            for j in range(len(stack) - 1, -1, -1):
                if stack[j].split(".")[0] == e[1]:
                    del stack[j:]
                    break
    return out

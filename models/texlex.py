"""texlex -- an independent TeX82 lexer (reference model; imports nothing from plasTeX).

Transcription of tex.web part 24 "Getting the next token", file-input branch:

    S343  get_next, "input from external file": loc/limit over one line buffer
    S344  the big switch  case state+cur_cmd of ...
    S345  ignored characters, blanks in states S and N           -> goto switch
    S346  invalid_char: error "Text line contains an invalid character", dropped
    S347  mid_line+spacer       -> one space token, state:=skip_blanks
          mid_line+car_ret      -> finish line, space token
          skip_blanks+car_ret, any_state+comment -> finish line, no token
          new_line+car_ret      -> finish line, \\par token
          every other significant character -> state:=mid_line
    S352  sup_mark: ^^X (X<128: X+-64) and ^^xy (two lower-case hex digits) -> reswitch
    S354  control sequences: null cs at end of line, control word (maximal run of
          letters), control symbol; state:=skip_blanks after a letter or a spacer,
          else mid_line
    S355  ^^ notation inside a control sequence name: the buffer is rewritten and the
          name is re-scanned from start_cs
    S356  scan ahead for the end of a multi-letter control sequence
    S360  a new line always starts in state new_line

The category table is DATA: a dict char->code (missing = 12) or a list of 16 strings
(class i = characters of category i; category 12 is the complement).

Lines.  By default (``endlinechar=None``) the model works in the *plasTeX normal form*
of DESIGN.md C01: a physical line is the text up to and including its ``"\\n"``; the
``"\\n"`` plays the role of TeX's appended end-of-line character and has whatever
category the table gives it; nothing is stripped or inserted (S31 input_ln's removal
of trailing blanks belongs to file reading, not to the lexer); a last line without
``"\\n"`` simply ends.  With ``endlinechar="\\r"`` (or any string) the model behaves
like TeX itself: the ``"\\n"`` is removed, trailing blanks (code 32) are stripped, the
end-of-line character is appended.

Tokens are ``(catcode, text)`` pairs: ``(0, name)`` for control sequences (``(0, "")``
for the null control sequence, ``(0, "par")`` for the end-of-paragraph token),
``(10, " ")`` for every space token, ``(13, c)`` for an active character (see
``normal_form`` for plasTeX's ``(0, "active::c")`` encoding), ``(cat, c)`` otherwise.

Besides the tokens the lexer reports

* ``features``  which rules fired (for the classes histogram of a check), and
* ``flags``     ``(name, source_index)`` pairs marking the constructs that DESIGN.md
  excludes from the asserted domain or that are listed as known divergences, so that
  a generator can remove them *by construction* (delete the character at that index)
  and a check can count what it excluded.

``deviations`` select *diagnostic* variants of single rules (each reproduces one
divergence observed in an implementation).  They are never used for a verdict, only
to name the root cause of a mismatch ("the observed stream is exactly what the lexer
yields when rule R is replaced by R'").
"""

ESCAPE, BGROUP, EGROUP, MATHSHIFT, ALIGNMENT, EOL, PARAMETER, SUPER, SUB, IGNORED, \
    SPACE, LETTER, OTHER, ACTIVE, COMMENT, INVALID = range(16)

ST_N, ST_M, ST_S = "N", "M", "S"

_ASCII_LETTERS = "abcdefghijklmnopqrstuvwxyzABCDEFGHIJKLMNOPQRSTUVWXYZ"
_HEX = "0123456789abcdef"

# diagnostic deviations (see module docstring)
DEV_CS_STATE_BY_ASCII = "cs-state-by-ascii-letter"      # state after a cs chosen by "last char is an ASCII letter"
DEV_SUP_NONASCII = "sup-nonascii-decoded"               # ^^X decoded for X >= 128
DEV_EOL_KEEPS_REST = "eol-char-keeps-rest-of-line"      # a cat-5 char that is not the physical newline does not finish the line
DEV_NO_LINE_START = "no-new-line-state-at-line-start"   # state N is not entered at the start of a physical line
DEV_SUP_NO_RESWITCH = "sup-result-not-rescanned"        # the result of ^^X is not itself examined for a following ^^ (S352 reswitch)
DEV_NL_COMMENT = "newline-comment-eats-next-line"       # a newline of category 14 discards the whole following line as well
ALL_DEVIATIONS = (DEV_CS_STATE_BY_ASCII, DEV_SUP_NONASCII, DEV_EOL_KEEPS_REST,
                  DEV_NO_LINE_START, DEV_SUP_NO_RESWITCH, DEV_NL_COMMENT)

# flags
FLAG_HEX = "hex-notation"                # ^^xy with two lower-case hex digits was (or would be) used
FLAG_ESC_EOL = "escape-then-eol"         # escape char directly followed by a cat-5 char or by the end of a non-final line
FLAG_ESC_IGNORED = "escape-then-ignored" # cat 9/15 char directly after the escape char or directly ending a control word
FLAG_SUP_EOF = "sup-sup-at-end-of-input" # the input ends in a doubled superscript character
FLAG_CS_BLANK = "blank-after-cs-nonascii"  # state-sensitive char after a cs whose S/M state differs under DEV_CS_STATE_BY_ASCII
FLAG_SUP_NONASCII = "sup-sup-nonascii"   # doubled superscript char followed by a char >= 128
FLAG_EOL_MIDLINE = "eol-char-mid-line"   # cat-5 char with a non-empty rest of line (and not discarded by DEV_EOL_KEEPS_REST)
FLAG_NL_NOT_EOL = "newline-not-eol"      # the physical newline was not cat 5/14 and the line structure is observable
FLAG_NL_COMMENT = "newline-is-comment"   # the physical newline has category 14 and another line follows
FLAG_SUP_CHAIN = "sup-chain"             # S352 reswitch found a second ^^ notation starting with the decoded char


class CatTable(object):
    """Category table as data: dict char->code, or list of 16 strings."""

    def __init__(self, spec):
        self.map = {}
        if isinstance(spec, CatTable):
            self.map = dict(spec.map)
        elif isinstance(spec, dict):
            for ch, code in spec.items():
                self._put(ch, int(code))
        else:
            classes = list(spec)
            if len(classes) != 16:
                raise ValueError("category table must have 16 classes, got %d" % len(classes))
            for code, chars in enumerate(classes):
                for ch in chars:
                    if ch in self.map and self.map[ch] != code:
                        raise ValueError("character %r is in classes %d and %d" %
                                         (ch, self.map[ch], code))
                    self._put(ch, code)

    def _put(self, ch, code):
        if len(ch) != 1:
            raise ValueError("category table key must be one character: %r" % (ch,))
        if not 0 <= code <= 15:
            raise ValueError("category code out of range: %r" % (code,))
        if code != OTHER:
            self.map[ch] = code

    def __call__(self, ch):
        return self.map.get(ch, OTHER)

    def is_default_like(self, other):
        return self.map == CatTable(other).map


class LexResult(object):
    __slots__ = ("tokens", "features", "flags")

    def __init__(self, tokens, features, flags):
        self.tokens = tokens
        self.features = features
        self.flags = flags

    def flag_names(self):
        return set(n for n, _ in self.flags)


def _is_hex(c):
    return c in _HEX


def lex(text, catcodes, hex_notation=True, endlinechar=None, deviations=()):
    """Tokenize `text` under the category table `catcodes`; returns a LexResult."""
    cat = catcodes if isinstance(catcodes, CatTable) else CatTable(catcodes)
    dev = frozenset(deviations)
    tokens = []
    features = set()
    flags = []

    # ---- split into line buffers (chars + source indices) ------------------------
    lines = []
    pos = 0
    n = len(text)
    while pos < n:
        end = text.find("\n", pos)
        if end < 0:
            seg_end, nxt, has_nl = n, n, False
        else:
            seg_end, nxt, has_nl = end, end + 1, True
        if endlinechar is None:
            stop = seg_end + (1 if has_nl else 0)
            buf = list(text[pos:stop])
            src = list(range(pos, stop))
        else:
            stop = seg_end
            while stop > pos and text[stop - 1] == " ":      # S31 input_ln
                stop -= 1
            buf = list(text[pos:stop])
            src = list(range(pos, stop))
            for ch in endlinechar:
                buf.append(ch)
                src.append(seg_end if has_nl else n - 1)
        lines.append((buf, src, has_nl))
        pos = nxt

    # DEV_NO_LINE_START: no line structure at all -- one buffer; a "line" ends only where an
    # end-of-line or comment character is processed (the rest up to the next newline is skipped)
    joined = DEV_NO_LINE_START in dev and endlinechar is None
    if joined:
        lines = [(list(text), list(range(n)), False)]

    def after_newline(buf, loc, limit):
        while loc <= limit:
            loc += 1
            if buf[loc - 1] == "\n":
                break
        return loc

    # susp: name of a state divergence that a deviation would introduce; becomes a
    # flag only if a state-sensitive character (cat 10 or 5) is met before the state
    # is assigned again.
    state = ST_N
    susp = None
    prev_line_end = "start"     # how the previous line ended: 'eol' 'comment' 'exhausted' 'start'

    skip_line = False
    for li, (buf, src, has_nl) in enumerate(lines):
        last_line = li == len(lines) - 1
        if skip_line:                                       # DEV_NL_COMMENT only
            skip_line = False
            prev_line_end = "comment" if has_nl else "exhausted"
            continue
        loc = 0
        limit = len(buf) - 1
        # S360: every line starts in state new_line
        state = ST_N
        nl_final = has_nl and not last_line and endlinechar is None
        if prev_line_end == "exhausted":
            susp = FLAG_NL_NOT_EOL
        else:
            susp = None
        line_end = "exhausted"

        while loc <= limit:
            c = buf[loc]
            cpos = src[loc]
            loc += 1
            rescanned = False
            while True:                                     # reswitch
                cc = cat(c)

                # ---- S345 ------------------------------------------------------
                if cc == IGNORED:
                    features.add("ignored-dropped")
                    break
                if cc == INVALID:                           # S346 (error, char dropped)
                    features.add("invalid-dropped")
                    break
                if cc == SPACE:
                    if susp:
                        flags.append((susp, cpos))
                    if state == ST_M:                       # S347
                        state = ST_S
                        susp = None
                        tokens.append((SPACE, " "))
                    else:
                        features.add("blank-skipped")
                    break

                # ---- S347..S351 end of line ----------------------------------
                if cc == EOL:
                    if susp:
                        flags.append((susp, cpos))
                    rest = loc <= limit
                    if rest:        # a cat-5 character that is not the last character of this buffer
                        flags.append((FLAG_EOL_MIDLINE, cpos))
                    keep = (DEV_EOL_KEEPS_REST in dev and rest and
                            not (state == ST_N and c != "\n"))
                    if state == ST_M:
                        tokens.append((SPACE, " "))
                        features.add("eol-space")
                    elif state == ST_N:
                        tokens.append((ESCAPE, "par"))
                        features.add("par")
                    else:
                        features.add("eol-dropped")
                    if joined:
                        if DEV_EOL_KEEPS_REST in dev:
                            discard = state == ST_N and c != "\n"
                        else:
                            discard = not (c == "\n" and not rescanned)
                        if discard:
                            loc = after_newline(buf, loc, limit)
                        state = ST_N
                        susp = None
                    elif keep:
                        state = ST_N
                        susp = None
                    else:
                        loc = limit + 1
                        line_end = "eol"
                    break

                # ---- comment ---------------------------------------------------
                if cc == COMMENT:
                    features.add("comment")
                    if (c == "\n" and not rescanned and loc - 1 == limit and has_nl
                            and not last_line and endlinechar is None):
                        flags.append((FLAG_NL_COMMENT, cpos))
                        if DEV_NL_COMMENT in dev:
                            skip_line = True
                    if joined:
                        if DEV_NL_COMMENT in dev or not (c == "\n" and not rescanned):
                            loc = after_newline(buf, loc, limit)
                        state = ST_N
                        susp = None
                        break
                    loc = limit + 1
                    line_end = "comment"
                    break

                # ---- S354 control sequence --------------------------------------
                if cc == ESCAPE:
                    if loc > limit:
                        tokens.append((ESCAPE, ""))         # null_cs
                        features.add("null-cs")
                        if not last_line:
                            flags.append((FLAG_ESC_EOL, cpos))
                        state = ST_M
                        susp = None
                        break
                    while True:                             # start_cs
                        k = loc
                        ch = buf[k]
                        kc = cat(ch)
                        k += 1
                        if kc == LETTER or kc == SPACE:
                            state = ST_S
                        else:
                            state = ST_M
                        if kc == LETTER and k <= limit:     # S356
                            while True:
                                ch = buf[k]
                                kc = cat(ch)
                                k += 1
                                if kc != LETTER or k > limit:
                                    break
                            if _reduce(buf, src, k, ch, kc, cat, dev, hex_notation, flags, last_line, nl_final):
                                limit = len(buf) - 1
                                features.add("sup-in-cs")
                                continue
                            if kc != LETTER:
                                k -= 1
                                if kc in (IGNORED, INVALID):
                                    flags.append((FLAG_ESC_IGNORED, src[k]))
                            if k > loc + 1:
                                name = "".join(buf[loc:k])
                                loc = k
                                features.add("control-word")
                                break
                            # single letter followed by a non-letter: falls through
                        else:
                            if _reduce(buf, src, k, ch, kc, cat, dev, hex_notation, flags, last_line, nl_final):
                                limit = len(buf) - 1
                                features.add("sup-in-cs")
                                continue
                        name = buf[loc]
                        kc1 = cat(name)
                        if kc1 == EOL:
                            flags.append((FLAG_ESC_EOL, src[loc]))
                        elif kc1 in (IGNORED, INVALID):
                            flags.append((FLAG_ESC_IGNORED, src[loc]))
                        loc += 1
                        features.add("control-word" if kc1 == LETTER else "control-symbol")
                        break
                    tokens.append((ESCAPE, name))
                    alt = ST_S if name[-1] in _ASCII_LETTERS else ST_M
                    susp = FLAG_CS_BLANK if alt != state else None
                    if DEV_CS_STATE_BY_ASCII in dev:
                        state = alt
                    break

                # ---- S352 superscript / ^^ notation ------------------------------
                if cc == SUPER:
                    if loc <= limit and buf[loc] == c:
                        if loc < limit:
                            x = buf[loc + 1]
                            if ord(x) >= 128:
                                flags.append((FLAG_SUP_NONASCII, src[loc + 1]))
                            if nl_final and loc + 1 == limit and x == "\n":
                                flags.append((FLAG_NL_NOT_EOL, src[loc + 1]))
                            if ord(x) < 128 or DEV_SUP_NONASCII in dev:
                                if rescanned:
                                    flags.append((FLAG_SUP_CHAIN, src[loc]))
                                if not (rescanned and DEV_SUP_NO_RESWITCH in dev):
                                    if (_is_hex(x) and loc + 2 <= limit and _is_hex(buf[loc + 2])):
                                        flags.append((FLAG_HEX, src[loc + 2]))
                                        if hex_notation:
                                            c = chr(int(x + buf[loc + 2], 16))
                                            loc += 3
                                            features.add("sup-decoded")
                                            rescanned = True
                                            continue
                                    loc += 2
                                    c = chr(ord(x) + 64) if ord(x) < 64 else chr(ord(x) - 64)
                                    features.add("sup-decoded")
                                    rescanned = True
                                    continue
                        elif last_line:
                            flags.append((FLAG_SUP_EOF, src[loc]))
                    state = ST_M
                    susp = None
                    tokens.append((SUPER, c))
                    break

                # ---- everything else: one token, state:=mid_line --------------------
                state = ST_M
                susp = None
                tokens.append((cc, c))
                if cc == ACTIVE:
                    features.add("active")
                break

        # ---- end of line buffer -----------------------------------------------------
        if line_end == "exhausted" and has_nl and not last_line:
            nlc = cat("\n") if endlinechar is None else None
            if nlc in (ESCAPE, SUPER, LETTER):
                flags.append((FLAG_NL_NOT_EOL, src[-1] if src else 0))
        prev_line_end = line_end if has_nl else "exhausted"

    return LexResult(tokens, features, flags)


def _reduce(buf, src, k, ch, kc, cat, dev, hex_notation, flags, last_line=False, nl_final=False):
    """S355: if buf[k-1] (=ch, category kc) starts a ^^ notation, rewrite the buffer
    in place and return True (caller goes to start_cs)."""
    limit = len(buf) - 1
    if kc != SUPER or not k < limit or buf[k] != ch:
        if kc == SUPER and k == limit and buf[k] == ch and last_line:
            # doubled superscript char at the very end of the input: no reduction
            flags.append((FLAG_SUP_EOF, src[k]))
        return False
    x = buf[k + 1]
    if ord(x) >= 128:
        flags.append((FLAG_SUP_NONASCII, src[k + 1]))
        if DEV_SUP_NONASCII not in dev:
            return False
    if nl_final and k + 1 == limit and x == "\n":
        flags.append((FLAG_NL_NOT_EOL, src[k + 1]))
    d = 2
    if _is_hex(x) and k + 2 <= limit and _is_hex(buf[k + 2]):
        flags.append((FLAG_HEX, src[k + 2]))
        if hex_notation:
            d = 3
    if d == 3:
        new = chr(int(x + buf[k + 2], 16))
    elif ord(x) < 64:
        new = chr(ord(x) + 64)
    else:
        new = chr(ord(x) - 64)
    buf[k - 1:k + d] = [new]
    src[k - 1:k + d] = [src[k - 1]]
    return True


def tokenize(text, catcodes, **kw):
    """list of (catcode, text) pairs TeX's lexical rules prescribe for `text`."""
    return lex(text, catcodes, **kw).tokens


def normal_form(tokens, active_as_cs=True, collapse_par=True):
    """plasTeX's documented representation choices (DESIGN.md C01 normal form):
    active characters are control sequences named ``active::c``; adjacent
    end-of-paragraph tokens are collapsed to one."""
    out = []
    for code, txt in tokens:
        if active_as_cs and code == ACTIVE:
            code, txt = ESCAPE, "active::" + txt
        if collapse_par and code == ESCAPE and txt == "par" and out and out[-1] == (ESCAPE, "par"):
            continue
        out.append((code, txt))
    return out


# --------------------------------------------------------------------------------------
# self-test on examples whose answer The TeXbook states (ch. 7, 8) -- python -m models.texlex
# --------------------------------------------------------------------------------------
def plain_table():
    """INITEX/plain.tex category codes (TeXbook p. 343), ^^M = end of line."""
    t = {"\\": 0, "{": 1, "}": 2, "$": 3, "&": 4, "\r": 5, "#": 6, "^": 7, "_": 8,
         "\x00": 9, " ": 10, "\t": 10, "~": 13, "%": 14, "\x7f": 15}
    for ch in _ASCII_LETTERS:
        t[ch] = 11
    return t


def _selftest():
    P = plain_table()

    def tex(s, table=P):
        return tokenize(s, table, endlinechar="\r")

    def sp():
        return (10, " ")

    def L(s):
        return [(11 if c in _ASCII_LETTERS else 12, c) for c in s]
    # TeXbook ex. 8.4: " $x^2$~  \TeX  ^^C" -> $ x ^ 2 $ ~ space \TeX ^^C space
    assert tex(" $x^2$~  \\TeX  ^^C\n") == [(3, "$"), (11, "x"), (7, "^"), (12, "2"), (3, "$"),
                                           (13, "~"), sp(), (0, "TeX"), (12, "\x03"), sp()]
    # ex. 8.5: "Hi!\n\n\n" -> H i ! space \par \par  (second empty line gives \par again)
    assert tex("Hi!\n\n\n") == L("Hi!") + [sp(), (0, "par"), (0, "par")]
    # ex. 8.2 / p.47: spaces after control words vanish, after control symbols stay
    assert tex("\\TeX  x\\% y") == [(0, "TeX"), (11, "x"), (0, "%"), sp(), (11, "y"), sp()]
    # control space sets state S (S354: cat=spacer): "\  x" -> \space x
    assert tex("\\  x") == [(0, " "), (11, "x"), sp()]
    # p.47: trailing blanks are stripped by input_ln, "\" at end of line is \^^M
    assert tex("a\\ \nb") == [(11, "a"), (0, "\r"), (11, "b"), sp()]
    # comment removes the end of line as well: "a%x\n  b" -> a b
    assert tex("a%x\n  b\n") == [(11, "a"), (11, "b"), sp()]
    # ^^M in mid line finishes the line (p.46: rest of line discarded)
    assert tex("a^^M b\nc") == [(11, "a"), sp(), (11, "c"), sp()]
    # ^^ notation inside control words: \a^^62c = \abc ; hex form needs lower-case digits
    assert tex("\\a^^62c d") == [(0, "abc"), (11, "d"), sp()]
    assert tex("\\a^^\"c d") == [(0, "abc"), (11, "d"), sp()]
    assert tex("^^4A^^4a") == [(11, "t"), (11, "A"), (11, "J"), sp()]
    # ^^? = DEL is invalid in plain TeX -> dropped ; ^^@ ignored
    assert tex("a^^?b^^@c") == L("abc") + [sp()]
    # an ignored character ends a control word, and \<ignored> is a control symbol
    assert tex("\\ab^^@cd") == [(0, "ab")] + L("cd") + [sp()]
    assert tex("\\^^@x") == [(0, "\x00"), (11, "x"), sp()]
    # \^^M is the control symbol with the end-of-line char; "^^" at end of line takes the ^^M: ^^^^M = 'M'
    assert tex("\\^^M") == [(0, "\r"), sp()]
    assert tex("^^") == [(11, "M")]
    # with \endlinechar=-1 a trailing ^^ is two superscript tokens and "\" the null cs
    assert tokenize("^^", P, endlinechar="") == [(7, "^"), (7, "^")]
    assert tokenize("\\", P, endlinechar="") == [(0, "")]
    # letters by catcode: \catcode`\@=11  \foo@ x
    Q = dict(P)
    Q["@"] = 11
    assert tex("\\foo@ x", Q) == [(0, "foo@"), (11, "x"), sp()]
    assert tex("\\foo@ x") == [(0, "foo"), (12, "@"), sp(), (11, "x"), sp()]
    # \obeylines-like: ^^M active, leading blanks of the next line are still skipped (state N)
    Q = dict(P)
    Q["\r"] = 13
    assert tex("a\n  b", Q) == [(11, "a"), (13, "\r"), (11, "b"), (13, "\r")]
    # X >= 128 is no ^^ notation
    assert tex("^^\xe9") == [(7, "^"), (7, "^"), (12, "\xe9"), sp()]
    # normal-form line model: "\n" plays the role of the end-of-line char
    D = dict(P)
    del D["\r"]
    D["\n"] = 5
    D["\r"] = 10
    assert tokenize("1\n   2\n   \n   3\n", D) == [(12, "1"), sp(), (12, "2"), sp(), (0, "par"),
                                                   (12, "3"), sp()]
    assert tokenize("^^I ^^A ^^@ ^^M", D) == [(12, "\x01"), sp()]
    assert normal_form([(13, "~"), (0, "par"), (0, "par")]) == [(0, "active::~"), (0, "par")]
    return "texlex self-test passed"


if __name__ == "__main__":
    print(_selftest())

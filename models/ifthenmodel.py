"""Reference model of the ifthen package (C19).

Pure Python; imports nothing from plasTeX.  Written from the C19 statement and
the ifthen documentation:

  expression := operand (conn operand)*          conn  = \\and \\or \\AND \\OR
                                                 equal precedence, LEFT TO RIGHT
  operand    := not* primary                     not   = \\not \\NOT (binds tightest)
  primary    := atom | \\( expression \\)
  atom       := I rel I | \\lengthtest{D rel D} | \\equal{S}{T} | \\isodd{I}
                | \\isundefined{\\name} | \\boolean{b}

A *program* is a prologue (counters, integer macros, string macros, booleans with
initial values) followed by statements; the model interprets the statements and
predicts the list of `;`-terminated event words the document body must show,
the number of math elements, and the feature classes of the case.

JSON forms (everything is a list so that cases stay JSON-able)

  E      ["chain", [opd, ...], [conn, ...]]           len(conns) == len(opds) - 1
  opd    ["opd", [not, ...], prim]
  prim   ["paren", E] | atom
  atom   ["cmp", I, rel, I, tight] | ["len", [num, unit], rel, [num, unit], tight]
         | ["equal", S, S] | ["isodd", I] | ["undef", name] | ["bool", name]
  I      ["lit", "007"] | ["value", ctr] | ["arabic", ctr] | ["mac", name] | ["neg", I]  (a minus sign in front)
  a branch [["empty"]] is written {} (no marker, no statements)
  S      [pre_text, macro_or_None, post_text]
  stmt   ["if", E, [stmt...], [stmt...]] | ["while", ctr, i0, E, [stmt...]]
         | ["step", c] | ["add", c, k] | ["set", c, k] | ["setbool", b, word]
         | ["defint", name, digits, form] | ["defprobe", name]
         | ["show", "c"|"m"|"b", name] | ["math"]
"""
from fractions import Fraction

# TeX's unit table (tex.web section 458: in = 7227/100 pt, ...), in pt
UNITS = {
    "pt": Fraction(1), "pc": Fraction(12), "in": Fraction(7227, 100),
    "bp": Fraction(7227, 7200), "cm": Fraction(7227, 254), "mm": Fraction(7227, 2540),
    "dd": Fraction(1238, 1157), "cc": Fraction(14856, 1157), "sp": Fraction(1, 65536),
}

CONN_TEX = {"and": "\\and", "or": "\\or", "AND": "\\AND", "OR": "\\OR"}
NOT_TEX = {"not": "\\not", "NOT": "\\NOT"}
LOOP_CAP = 60


class ModelError(Exception):
    """The case is outside the modelled domain (generator bug, not a verdict)."""


def length_sp(d):
    """Exact value of a spelled length in scaled points (a rational)."""
    num, unit = d
    return Fraction(num) * UNITS[unit.lower()] * 65536       # unit keywords are case-insensitive (tex.web 407)


def length_pair_ok(d1, d2):
    """Sides identical as spelled, or at least 4 sp apart (no knife edges)."""
    if list(d1) == list(d2):
        return True
    return abs(length_sp(d1) - length_sp(d2)) >= 4


# --------------------------------------------------------------------------
# state + evaluation
# --------------------------------------------------------------------------
class State(object):
    def __init__(self, case):
        self.counters = dict(case.get("counters", {}))
        for name in case.get("loopctrs", []):
            self.counters.setdefault(name, 0)
        self.imacs = dict(case.get("imacs", {}))
        self.smacs = dict(case.get("smacs", {}))
        self.bools = dict((k, bool(v)) for k, v in case.get("bools", {}).items())
        self.defined = set()          # probe names defined so far

    def intval(self, I):
        k = I[0]
        if k == "lit":
            return int(I[1])
        if k in ("value", "arabic"):
            return self.counters[I[1]]
        if k == "mac":
            return int(self.imacs[I[1]])
        if k == "neg":
            return -self.intval(I[1])
        raise ModelError("int operand %r" % (I,))

    def strval(self, S):
        pre, mac, post = S
        return pre + (self.smacs[mac] if mac else "") + post


def rel(a, r, b):
    if r == "<":
        return a < b
    if r == ">":
        return a > b
    if r == "=":
        return a == b
    raise ModelError("relation %r" % r)


# names the model knows to be defined in every LaTeX format
ALWAYS_DEFINED = ("textbf", "section", "relax", "par", "newcommand", "ifthenelse")


def eval_atom(st, a):
    k = a[0]
    if k == "cmp":
        return rel(st.intval(a[1]), a[2], st.intval(a[3]))
    if k == "len":
        if not length_pair_ok(a[1], a[3]):
            raise ModelError("knife-edge length pair")
        if list(a[1]) == list(a[3]):
            return a[2] == "="
        return rel(length_sp(a[1]), a[2], length_sp(a[3]))
    if k == "equal":
        return st.strval(a[1]) == st.strval(a[2])
    if k == "isodd":
        return st.intval(a[1]) % 2 == 1          # TeX \ifodd: -3 is odd
    if k == "undef":
        return not (a[1] in st.defined or a[1] in ALWAYS_DEFINED)
    if k == "bool":
        return st.bools[a[1]]
    raise ModelError("atom %r" % (a,))


def eval_expr(st, E):
    assert E[0] == "chain", E
    opds, conns = E[1], E[2]
    if len(conns) != len(opds) - 1 or not opds:
        raise ModelError("malformed chain")
    val = eval_opd(st, opds[0])
    for c, o in zip(conns, opds[1:]):       # equal precedence, left to right
        v = eval_opd(st, o)                 # (no short circuit needed: atoms are pure)
        val = (val and v) if c.lower() == "and" else (val or v)
    return val


def eval_opd(st, o):
    assert o[0] == "opd", o
    prim = o[2]
    v = eval_expr(st, prim[1]) if prim[0] == "paren" else eval_atom(st, prim)
    if len(o[1]) % 2:
        v = not v
    return v


def erase_parens(E):
    """The chain one gets by deleting every \\( and \\) token."""
    opds, conns = [], []
    for i, o in enumerate(E[1]):
        if i:
            conns.append(E[2][i - 1])
        if o[2][0] == "paren":
            inner = erase_parens(o[2][1])
            first = inner[1][0]
            opds.append(["opd", list(o[1]) + list(first[1]), first[2]])
            opds.extend(inner[1][1:])
            conns.extend(inner[2])
        else:
            opds.append(o)
    return ["chain", opds, conns]


# --------------------------------------------------------------------------
# classification of an expression
# --------------------------------------------------------------------------
def expr_features(E, feats=None, depth=0, top=True):
    """Set of feature strings of an expression tree."""
    if feats is None:
        feats = set()
    if depth:
        feats.add("depth>=%d" % depth)
    n = len(E[1])
    if n >= 2:
        feats.add("chain>=2")
    if n >= 3:
        feats.add("chain>=3")
    kinds = set(c.lower() for c in E[2])
    if len(kinds) == 2:
        feats.add("mixed-and-or")
    if any(c.isupper() for c in E[2]):
        feats.add("alias-upper")
    for i, o in enumerate(E[1]):
        nots = o[1]
        if nots:
            feats.add("not")
            if any(x.isupper() for x in nots):
                feats.add("alias-upper")
            if i > 0:
                feats.add("not-after-connective")
            if len(nots) >= 2:
                feats.add("not-doubled")
            if o[2][0] == "paren":
                feats.add("not-before-paren")
        if o[2][0] == "paren":
            feats.add("paren")
            inner = o[2][1]
            if len(inner[1]) == 1:
                feats.add("paren-redundant")
            expr_features(inner, feats, depth + 1, False)
        else:
            feats.add("atom-" + o[2][0])
            if o[2][0] in ("cmp", "isodd"):
                for I in o[2][1:]:
                    if isinstance(I, list) and I and I[0] in ("lit", "value", "arabic", "mac", "neg"):
                        feats.add("int-" + I[0])
                        if I[0] == "neg":
                            feats.add("int-neg-" + I[1][0])
    return feats


def n_connectives(E):
    n = len(E[2])
    for o in E[1]:
        if o[2][0] == "paren":
            n += n_connectives(o[2][1])
    return n


def has_not_after_operator(E):
    """A \\not that directly follows \\and, \\or or another \\not."""
    for i, o in enumerate(E[1]):
        if o[1] and (i > 0 or len(o[1]) >= 2):
            return True
        if o[2][0] == "paren" and has_not_after_operator(o[2][1]):
            return True
    return False


def has_paren(E):
    return any(o[2][0] == "paren" for o in E[1])


def strip_not_after_operator(E):
    """Same expression without the \\not tokens that follow an operator."""
    opds = []
    for i, o in enumerate(E[1]):
        nots = list(o[1])
        if i > 0:
            nots = []
        nots = nots[:1]
        prim = o[2]
        if prim[0] == "paren":
            prim = ["paren", strip_not_after_operator(prim[1])]
        opds.append(["opd", nots, prim])
    return ["chain", opds, list(E[2])]


def strip_parens(E):
    return erase_parens(E)


def expr_class(E, in_while=False):
    """Root-cause class used in bucket keys (coarse, seed-stable)."""
    if has_not_after_operator(E):
        return "not-after-operator"
    if in_while and has_paren(E):
        return "paren-in-whiledo"
    if len(E[1]) == 1 and not E[1][0][1] and E[1][0][2][0] != "paren":
        return "atom-" + E[1][0][2][0]
    if has_paren(E):
        return "compound-paren"
    return "compound"


def expr_nontrivial(st, E):
    """>= 2 connectives with a \\not not in first position, or parentheses that
    change the left-to-right value."""
    if n_connectives(E) >= 2 and _not_not_first(E, True):
        return True
    if has_paren(E):
        try:
            return eval_expr(st, E) != eval_expr(st, erase_parens(E))
        except ModelError:
            return False
    return False


def _not_not_first(E, first):
    for i, o in enumerate(E[1]):
        f = first and i == 0
        if o[1] and (not f or len(o[1]) >= 2):
            return True
        if o[2][0] == "paren" and _not_not_first(o[2][1], f and not o[1]):
            return True
    return False


# --------------------------------------------------------------------------
# rendering
# --------------------------------------------------------------------------
EMPTY = [["empty"]]


def render_int(I):
    k = I[0]
    if k == "lit":
        return I[1]
    if k == "value":
        return "\\value{%s}" % I[1]
    if k == "arabic":
        return "\\arabic{%s}" % I[1]
    if k == "mac":
        return "\\" + I[1]
    if k == "neg":
        return "-" + render_int(I[1])
    raise ModelError("int operand %r" % (I,))


def render_str(S):
    pre, mac, post = S
    if mac and post and (post[0].isalpha() or post[0] == " "):
        raise ModelError("text after a macro must not start with a letter or blank")
    return pre + ("\\" + mac if mac else "") + post


def render_atom(a):
    k = a[0]
    if k == "cmp":
        sp = "" if a[4] else " "
        return render_int(a[1]) + sp + a[2] + sp + render_int(a[3])
    if k == "len":
        sp = "" if a[4] else " "
        return "\\lengthtest{%s%s%s%s%s%s%s}" % (a[1][0], a[1][1], sp, a[2], sp, a[3][0], a[3][1])
    if k == "equal":
        return "\\equal{%s}{%s}" % (render_str(a[1]), render_str(a[2]))
    if k == "isodd":
        return "\\isodd{%s}" % render_int(a[1])
    if k == "undef":
        return "\\isundefined{\\%s}" % a[1]
    if k == "bool":
        return "\\boolean{%s}" % a[1]
    raise ModelError("atom %r" % (a,))


def render_expr(E, tight=False):
    sep = "" if tight else " "
    out = []
    for i, o in enumerate(E[1]):
        if i:
            out.append(CONN_TEX[E[2][i - 1]])
        for nt in o[1]:
            out.append(NOT_TEX[nt])
        if o[2][0] == "paren":
            out.append("\\(" + sep + render_expr(o[2][1], tight) + sep + "\\)")
        else:
            out.append(render_atom(o[2]))
    # a control word must not run into a following letter: operands start with a
    # digit, sign or backslash, so plain concatenation is safe in tight mode
    return sep.join(out)


PROLOGUE = "\\documentclass{article}\n\\usepackage{ifthen}\n\\begin{document}\n"
EPILOGUE = "\\end{document}\n"


class Program(object):
    """Interprets a case: renders the TeX source and predicts the event list."""

    def __init__(self, case):
        self.case = case
        self.st = State(case)
        self.events = []          # expected event words
        self.origin = []          # per event: (kind, class) of the statement
        self.features = set()
        self.nontrivial = False
        self.math = 0
        self.next_id = 0
        self.src = None
        self.loops = {}           # loop id -> class
        self.ifs = {}             # if id -> class

    # -- source ----------------------------------------------------------
    def source(self):
        if self.src is None:
            self.next_id = 0
            c = self.case
            out = [PROLOGUE]
            for name in sorted(c.get("counters", {})):
                out.append("\\newcounter{%s}\\setcounter{%s}{%d}\n" % (name, name, c["counters"][name]))
            for name in sorted(c.get("loopctrs", [])):
                out.append("\\newcounter{%s}\n" % name)
            for name in sorted(c.get("imacs", {})):
                out.append("\\newcommand{\\%s}{%s}\n" % (name, c["imacs"][name]))
            for name in sorted(c.get("smacs", {})):
                out.append("\\def\\%s{%s}\n" % (name, c["smacs"][name]))
            for name in sorted(c.get("bools", {})):
                v = c["bools"][name]
                decl = "\\provideboolean" if name in c.get("provided", []) else "\\newboolean"
                out.append("%s{%s}" % (decl, name))
                if v is not None:
                    out.append("\\setboolean{%s}{%s}" % (name, "true" if v else "false"))
                out.append("\n")
            out.append(self._render_block(c["stmts"], c.get("tight", False)))
            out.append("\n" + self._render_final())
            out.append("\n" + EPILOGUE)
            self.src = "".join(out)
        return self.src

    def _all_counters(self):
        return sorted(set(self.case.get("counters", {})) | set(self.case.get("loopctrs", [])))

    def _render_final(self):
        """Dump of the whole state after the last statement."""
        c = self.case
        out = []
        for name in self._all_counters():
            out.append("C%s=\\arabic{%s};" % (name, name))
        for name in sorted(c.get("imacs", {})):
            out.append("M%s=\\%s;" % (name, name))
        for name in sorted(c.get("bools", {})):
            out.append("\\ifthenelse{\\boolean{%s}}{B%s=1;}{B%s=0;}" % (name, name, name))
        for name in sorted(c.get("probes", [])):
            out.append("\\ifthenelse{\\isundefined{\\%s}}{U%s=1;}{U%s=0;}" % (name, name, name))
        return "\n".join(out)

    def _run_final(self):
        c = self.case
        st = self.st
        for name in self._all_counters():
            self._emit("C%s=%d" % (name, st.counters[name]), ("final", "counter"))
        for name in sorted(c.get("imacs", {})):
            self._emit("M%s=%s" % (name, st.imacs[name]), ("final", "macro"))
        for name in sorted(c.get("bools", {})):
            self._emit("B%s=%d" % (name, st.bools[name]), ("final", "boolean"))
        for name in sorted(c.get("probes", [])):
            self._emit("U%s=%d" % (name, name not in st.defined), ("final", "probe"))

    def _render_block(self, stmts, tight):
        return "".join(self._render_stmt(s, tight) for s in stmts)

    def _render_stmt(self, s, tight):
        k = s[0]
        if k == "if":
            i = self.next_id
            self.next_id += 1
            test = render_expr(s[1], tight)
            th = "" if s[2] == EMPTY else "T%d;%s" % (i, self._render_block(s[2], tight))
            el = "" if s[3] == EMPTY else "F%d;%s" % (i, self._render_block(s[3], tight))
            return "\\ifthenelse{%s}{%s}{%s}\n" % (test, th, el)
        if k == "while":
            i = self.next_id
            self.next_id += 1
            test = render_expr(s[3], tight)
            return "\\setcounter{%s}{%d}\\whiledo{%s}{L%d;%s\\stepcounter{%s}}E%d;\n" % (
                s[1], s[2], test, i, self._render_block(s[4], tight), s[1], i)
        if k == "step":
            return "\\stepcounter{%s}" % s[1]
        if k == "add":
            return "\\addtocounter{%s}{%d}" % (s[1], s[2])
        if k == "set":
            return "\\setcounter{%s}{%d}" % (s[1], s[2])
        if k == "setbool":
            return "\\setboolean{%s}{%s}" % (s[1], s[2])
        if k == "provide":
            return "\\provideboolean{%s}" % s[1]
        if k == "defint":
            if s[3] == "renew":
                return "\\renewcommand{\\%s}{%s}" % (s[1], s[2])
            return "\\def\\%s{%s}" % (s[1], s[2])
        if k == "defprobe":
            return "\\def\\%s{x}" % s[1]
        if k == "show":
            if s[1] == "c":
                return "C%s=\\arabic{%s};" % (s[2], s[2])
            if s[1] == "m":
                return "M%s=\\%s;" % (s[2], s[2])
            if s[1] == "b":
                raise ModelError("booleans are shown through \\ifthenelse statements")
        if k == "math":
            return "\\(m\\);"
        raise ModelError("statement %r" % (s,))

    # -- prediction ------------------------------------------------------
    def run(self):
        self.next_id = 0
        self._run_block(self.case["stmts"], ("top", ""), 0, False)
        self._run_final()
        return self.events

    def _emit(self, word, origin):
        self.events.append(word)
        self.origin.append(origin)

    def _run_block(self, stmts, origin, depth, in_loop):
        for s in stmts:
            self._run_stmt(s, origin, depth, in_loop)

    def _skip_ids(self, stmts):
        """Statement numbers are assigned in source order, also in dead code."""
        for s in stmts:
            if s[0] == "if":
                self.next_id += 1
                self._skip_ids(s[2])
                self._skip_ids(s[3])
            elif s[0] == "while":
                self.next_id += 1
                self._skip_ids(s[4])

    def _run_stmt(self, s, origin, depth, in_loop):
        st = self.st
        k = s[0]
        if k == "if":
            i = self.next_id
            self.next_id += 1
            E = s[1]
            cls = expr_class(E)
            self.ifs[i] = cls
            val = eval_expr(st, E)
            self.features |= expr_features(E)
            self.features.add("branch-" + ("T" if val else "F"))
            if depth:
                self.features.add("nested-stmt")
            if expr_nontrivial(st, E):
                self.nontrivial = True
                self.features.add("nontrivial-expr")
            org = ("if", cls)
            taken = s[2] if val else s[3]
            if taken == EMPTY:
                self.features.add("empty-branch-taken")
            else:
                self._emit(("T%d" if val else "F%d") % i, org)
            if EMPTY in (s[2], s[3]):
                self.features.add("empty-branch")
            # ids inside both branches are consumed in source order
            if val:
                if s[2] != EMPTY:
                    self._run_block(s[2], org, depth + 1, in_loop)
                self._skip_ids(s[3])
            else:
                self._skip_ids(s[2])
                if s[3] != EMPTY:
                    self._run_block(s[3], org, depth + 1, in_loop)
            return
        if k == "while":
            i = self.next_id
            self.next_id += 1
            ctr, i0, E, body = s[1], s[2], s[3], s[4]
            cls = expr_class(E, True)
            self.loops[i] = cls
            org = ("while", cls)
            st.counters[ctr] = i0
            self.features |= set("w-" + f for f in expr_features(E))
            if in_loop:
                self.features.add("loop-nested")
            iters = 0
            first_inner = self.next_id
            after = None
            nt = False
            while True:
                if expr_nontrivial(st, E):
                    nt = True
                if not eval_expr(st, E):
                    break
                iters += 1
                if iters > LOOP_CAP:
                    raise ModelError("loop does not terminate in the model")
                self._emit("L%d" % i, org)
                self.next_id = first_inner
                self._run_block(body, org, depth + 1, True)
                after = self.next_id
                st.counters[ctr] += 1
            if after is None:
                self.next_id = first_inner
                self._skip_ids(body)
            else:
                self.next_id = after
            self._emit("E%d" % i, org)
            self.features.add("loop-iters=%d" % min(iters, 7))
            if not in_loop:
                self.features.add("loop")
            compound = n_connectives(E) >= 1 or has_paren(E) or any(o[1] for o in E[1])
            if iters >= 2 and compound:
                nt = True
                self.features.add("loop>=2-compound-test")
            if in_loop and iters >= 1:
                nt = True
            if nt:
                self.nontrivial = True
                self.features.add("nontrivial-expr")
            return
        if k == "step":
            st.counters[s[1]] += 1
        elif k == "add":
            st.counters[s[1]] += s[2]
        elif k == "set":
            st.counters[s[1]] = s[2]
        elif k == "setbool":
            w = s[2].lower()
            if w not in ("true", "false"):
                raise ModelError("setboolean word %r" % s[2])
            st.bools[s[1]] = (w == "true")
            self.features.add("setboolean")
        elif k == "provide":
            # the boolean exists already: \provideboolean leaves it alone (ifthen documentation)
            if s[1] not in st.bools:
                raise ModelError("provideboolean of an undeclared boolean")
            self.features.add("provideboolean-of-existing-%s" % ("true" if st.bools[s[1]] else "false"))
        elif k == "defint":
            st.imacs[s[1]] = s[2]
            self.features.add("redefine-int-macro")
        elif k == "defprobe":
            st.defined.add(s[1])
            self.features.add("define-probe")
        elif k == "show":
            if s[1] == "c":
                self._emit("C%s=%d" % (s[2], st.counters[s[2]]), ("show", "counter"))
            elif s[1] == "m":
                self._emit("M%s=%s" % (s[2], st.imacs[s[2]]), ("show", "macro"))
            else:
                raise ModelError("show %r" % (s,))
        elif k == "math":
            self.math += 1
            self._emit("m", ("math", ""))
            self.features.add("math-probe")
        else:
            raise ModelError("statement %r" % (s,))
        if origin[0] in ("if", "while") and k not in ("show", "math"):
            self.features.add("side-effect-in-" + origin[0])

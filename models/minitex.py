"""minitex -- an independent mini-TeX evaluator (reference model for C02, C03).

Pure Python, imports nothing from plasTeX.  Written from tex.web (section numbers
are cited as "tw NNN") and, for the handful of LaTeX-level commands, from
latex.ltx (ltdefns / ltcounts / ltplain).  It covers exactly the sub-language the
C02/C03 generators produce:

  lexer        default category codes, states N/M/S (tw 343-355); no ^^ notation
  expansion    macros (tw 389-400: undelimited/delimited parameters, partial-match
               back-tracking, one-outer-brace-pair stripping, #{), \\csname, \\expandafter,
               conditionals (tw 487-510: \\iftrue \\iffalse \\ifnum \\ifdim \\ifodd
               \\ifcase \\ifx \\ifdefined(e-TeX) \\if \\ifcat, \\else \\or \\fi, skipping
               by *meaning* of the tokens)
  execution    \\def \\gdef (tw 473-476 incl. ## and #{), \\let (tw 1221), \\relax, groups
               { } \\begingroup \\endgroup with TeX's save stack (tw 268-283: local /
               global definitions, "retain global" rule)
  numbers      scan_int (tw 440-446), scan_dimen (tw 448-458) in integer arithmetic
  LaTeX level  \\newcommand \\renewcommand (star, [n], [default]; \\@testopt look-ahead),
               \\newcounter \\setcounter \\addtocounter \\stepcounter \\value, \\newif

An input on which TeX/LaTeX would report an error (undefined control sequence,
runaway argument, missing number, \\newcommand of a defined name, ...) raises
TeXError: such an input is outside the domain of the properties.

Result of MiniTeX(src).run(): .text (visible character tokens, blanks dropped),
.counters (LaTeX counters), .level (group level at the end, 0 = balanced),
.stats (what was exercised; used for the classes histogram only).
"""

LETTERS = set("abcdefghijklmnopqrstuvwxyzABCDEFGHIJKLMNOPQRSTUVWXYZ")
CATCODES = {"\\": 0, "{": 1, "}": 2, "$": 3, "&": 4, "\n": 5, "\r": 5, "#": 6, "^": 7,
            "_": 8, " ": 10, "\t": 10, "~": 13, "%": 14, "\x00": 9, "\x7f": 15}

SPACE = ("ch", " ", 10)
MATCH = ("match",)
END_MATCH = ("end_match",)


class TeXError(Exception):
    """TeX (or LaTeX) would stop with an error message on this input."""


def catcode(c):
    if c in LETTERS:
        return 11
    return CATCODES.get(c, 12)


def cs(name):
    return ("cs", name)


def ch(c, cat=None):
    return ("ch", c, catcode(c) if cat is None else cat)


# ----------------------------------------------------------------------------
# lexer (tw 343-355), default category codes
# ----------------------------------------------------------------------------
def lex(src):
    """Token list of a source string.  Lines end at '\\n'; trailing blanks of a
    line are removed and the end-of-line character (category 5) appended, as
    TeX's input routine does (tw 31, 360)."""
    out = []
    lines = src.split("\n")
    # a final line without terminating newline is still a complete line for TeX
    if lines and lines[-1] == "" and len(lines) > 1:
        lines.pop()
    for line in lines:
        line = line.rstrip(" ") + "\r"
        state = "N"
        i, n = 0, len(line)
        while i < n:
            c = line[i]
            i += 1
            cat = catcode(c)
            if cat == 0:
                if i >= n:
                    out.append(cs(""))
                    break
                c2 = line[i]
                if catcode(c2) == 11:
                    j = i
                    while j < n and catcode(line[j]) == 11:
                        j += 1
                    out.append(cs(line[i:j]))
                    i = j
                    state = "S"
                else:
                    out.append(cs(c2))
                    i += 1
                    state = "S" if catcode(c2) == 10 else "M"
            elif cat == 5:
                if state == "N":
                    out.append(cs("par"))
                elif state == "M":
                    out.append(SPACE)
                break
            elif cat == 10:
                if state == "M":
                    out.append(SPACE)
                    state = "S"
            elif cat == 14:
                break
            elif cat == 9:
                pass
            elif cat == 15:
                raise TeXError("invalid character")
            else:
                out.append(("ch", c, cat))
                state = "M"
    return out


def untokenize(tokens):
    """Readable rendering of a token list (for details in replay files)."""
    s = []
    for t in tokens:
        if t[0] == "cs":
            s.append("\\" + t[1] + (" " if t[1][:1] in LETTERS else ""))
        elif t[0] == "ch":
            s.append(t[1])
        elif t[0] == "par":
            s.append("#%d" % t[1])
        else:
            s.append("<%s>" % t[0])
    return "".join(s)


# ----------------------------------------------------------------------------
# meanings
# ----------------------------------------------------------------------------
IF_PRIMS = ("iftrue", "iffalse", "ifnum", "ifdim", "ifodd", "ifcase", "ifx", "ifdefined",
            "if", "ifcat")
EXPANDABLE_PRIMS = IF_PRIMS + ("else", "fi", "or", "csname", "expandafter", "value", "number")
STOMACH_PRIMS = ("relax", "def", "gdef", "let", "begingroup", "endgroup", "par", "endcsname",
                 "newcommand", "renewcommand", "newcounter", "setcounter", "addtocounter",
                 "stepcounter", "newif", "newcount")
FI_CODE, ELSE_CODE, OR_CODE, IF_CODE = 2, 3, 4, 1          # tw 489
FI_OR_ELSE = {"fi": FI_CODE, "else": ELSE_CODE, "or": OR_CODE}

UNDEFINED = ("undefined",)
RELAX = ("prim", "relax")


class Macro(object):
    __slots__ = ("template", "body", "long")

    def __init__(self, template, body, long=False):
        self.template = template
        self.body = body
        self.long = long

    def same(self, other):      # tw 508: \ifx on two macros
        return (self.long == other.long and self.template == other.template and
                self.body == other.body)


class OptMacro(object):
    """\\newcommand\\foo[n][default]{body}: \\foo -> \\@testopt\\\\foo{default}, the
    internal \\\\foo has the parameter text [#1]#2...#n (ltdefns \\@xargdef)."""
    __slots__ = ("default", "inner")

    def __init__(self, default, inner):
        self.default = default
        self.inner = inner


class MiniTeX(object):
    MAX_STEPS = 60000

    def __init__(self, src=None, tokens=None):
        toks = lex(src) if tokens is None else list(tokens)
        toks.reverse()
        # input stack: frames [reversed token list, depth]; depth = macro nesting
        self.frames = [[toks, 0]]
        self.depth = 0
        self.eqtb = {}                 # name -> [meaning, level]
        for p in EXPANDABLE_PRIMS + STOMACH_PRIMS:
            self.eqtb[p] = [("prim", p), 1]
        self.level = 1                 # tw 271 cur_level (level_one at top)
        self.save_stack = []           # one list of (name, old entry) per open group
        self.group_kinds = []
        self.cond_stack = []           # if_limit per open conditional
        self.out = []
        self.counters = {}
        self.steps = 0
        self.last_body_len = None
        self.stats = {"calls": 0, "max_depth": 0, "delimited": 0, "undelimited": 0,
                      "stripped_delimited": 0, "stripped_undelimited": 0, "partial_match": 0,
                      "hash_brace": 0, "opt_present": 0, "opt_default": 0, "csname": 0,
                      "expandafter": 0, "expandafter_empty": 0, "double_hash": 0, "quad_hash": 0, "let_macro": 0, "let_char": 0, "conds": 0,
                      "skipped_nested": 0, "global_defs": 0, "gdef_over_local": 0, "local_defs_in_group": 0,
                      "restored": 0, "max_level": 1, "calls_at_depth>0": 0}
        self.trace = []                # (kind, outcome) per evaluated conditional, in order

    # -- input ------------------------------------------------------------
    def get_token(self, need=None):
        """Next unexpanded token (tw 365 get_token) or None at end of input."""
        self.steps += 1
        if self.steps > self.MAX_STEPS:
            raise TeXError("step limit exceeded (generator produced a runaway program)")
        fr = self.frames
        while fr:
            top = fr[-1]
            if top[0]:
                self.depth = top[1]
                return top[0].pop()
            fr.pop()
        if need:
            raise TeXError("file ended while " + need)
        return None

    def back_input(self, tok):
        if not self.frames:
            self.frames.append([[], 0])
            self.depth = 0
        self.frames[-1][0].append(tok)

    def back_list(self, toks, depth=None):
        if not toks:
            return
        if depth is None:
            if not self.frames:
                self.frames.append([[], 0])
            self.frames[-1][0].extend(reversed(toks))
        else:
            self.frames.append([list(reversed(toks)), depth])

    # -- eqtb / save stack (tw 268-283) -----------------------------------------
    def meaning(self, tok):
        if tok[0] == "cs":
            e = self.eqtb.get(tok[1])
            return e[0] if e is not None else UNDEFINED
        return ("char", tok[1], tok[2])

    def eq_define(self, name, meaning):            # tw 277
        e = self.eqtb.get(name)
        if e is not None and e[1] == self.level:
            e[0] = meaning
        else:
            if self.level > 1:
                self.save_stack[-1].append((name, e))
                self.stats["local_defs_in_group"] += 1
            self.eqtb[name] = [meaning, self.level]

    def geq_define(self, name, meaning):           # tw 279
        e = self.eqtb.get(name)
        if e is not None and e[1] > 1:
            self.stats["gdef_over_local"] += 1
        self.eqtb[name] = [meaning, 1]
        self.stats["global_defs"] += 1

    def new_save_level(self, kind):                 # tw 274
        self.save_stack.append([])
        self.group_kinds.append(kind)
        self.level += 1
        if self.level > self.stats["max_level"]:
            self.stats["max_level"] = self.level

    def unsave(self, kind):                         # tw 281-283
        if not self.group_kinds:
            raise TeXError("too many }'s / extra \\endgroup")
        if self.group_kinds[-1] != kind:
            raise TeXError("group closed by the wrong kind of token")
        self.group_kinds.pop()
        saved = self.save_stack.pop()
        for name, old in reversed(saved):
            cur = self.eqtb.get(name)
            if cur is not None and cur[1] == 1:
                continue                            # tw 283: retain the global value
            self.stats["restored"] += 1
            if old is None:
                del self.eqtb[name]
            else:
                self.eqtb[name] = old
        self.level -= 1

    # -- expansion -----------------------------------------------------------------
    def is_expandable(self, m):
        k = m[0]
        if k == "macro" or k == "optmacro":
            return True
        return k == "prim" and m[1] in EXPANDABLE_PRIMS

    def get_x_token(self, need=None, expand_only=True):
        """tw 380: next token after full expansion.  expand_only=True marks
        contexts where only expansion is possible (no assignments), in which
        LaTeX's optional-argument look-ahead (\\futurelet) cannot work."""
        while True:
            tok = self.get_token(need)
            if tok is None:
                return None
            if tok[0] != "cs":
                return tok
            m = self.meaning(tok)
            if m is UNDEFINED:
                raise TeXError("undefined control sequence \\" + tok[1])
            if not self.is_expandable(m):
                return tok
            self.expand(tok, m, expand_only)

    def expand(self, tok, m, expand_only=True):     # tw 366-367
        k = m[0]
        if k == "macro":
            self.macro_call(tok, m[1])
        elif k == "optmacro":
            if expand_only:
                raise TeXError("optional-argument command in an expansion-only context")
            self.opt_call(tok, m[1])
        else:
            name = m[1]
            if name in IF_PRIMS:
                self.conditional(name)
            elif name in FI_OR_ELSE:
                self.fi_or_else(tok, FI_OR_ELSE[name])
            elif name == "csname":
                self.do_csname()
            elif name == "expandafter":
                self.stats["expandafter"] += 1
                t = self.get_token("scanning \\expandafter")
                u = self.get_token("scanning \\expandafter")
                mu = self.meaning(u)
                if u[0] == "cs" and mu is not UNDEFINED and self.is_expandable(mu):
                    self.last_body_len = None
                    self.expand(u, mu, True)
                    if mu[0] == "macro" and self.last_body_len == 0:
                        self.stats["expandafter_empty"] += 1
                else:
                    self.back_input(u)
                self.back_input(t)
            elif name == "value":
                arg = self.read_undelimited("\\value")
                cname = self.name_of(arg)
                if cname not in self.counters:
                    raise TeXError("no counter '%s'" % cname)
                self.eqtb.setdefault("c@" + cname, [("count", cname), 1])
                self.back_input(cs("c@" + cname))
            elif name == "number":
                v = self.scan_int()
                self.back_list([ch(c, 12) for c in str(v)])
            else:  # pragma: no cover
                raise AssertionError(name)

    def do_csname(self):                            # tw 372
        self.stats["csname"] += 1
        name = []
        while True:
            t = self.get_x_token("scanning \\csname")
            if t[0] == "cs":
                if self.meaning(t) != ("prim", "endcsname"):
                    raise TeXError("missing \\endcsname inserted")
                break
            name.append(t[1])
            if t[1] in "{}":
                self.stats["csname_brace"] = self.stats.get("csname_brace", 0) + 1
        name = "".join(name)
        if name not in self.eqtb:
            self.eq_define(name, RELAX)
        self.back_input(cs(name))

    def name_of(self, tokens):
        """Expansion of a token list inside \\csname...\\endcsname to a string."""
        self.back_input(cs("endcsname"))
        self.back_list(tokens)
        name = []
        while True:
            t = self.get_x_token("scanning a name")
            if t[0] == "cs":
                if self.meaning(t) != ("prim", "endcsname"):
                    raise TeXError("missing \\endcsname inserted")
                break
            name.append(t[1])
        return "".join(name)

    # -- macro calls (tw 389-400) ---------------------------------------------------------
    def macro_call(self, tok, mac):
        st = self.stats
        st["calls"] += 1
        if self.depth > 0:
            st["calls_at_depth>0"] += 1
        call_depth = self.depth
        template = mac.template
        pstack = []
        r = 0
        if template[0] is not END_MATCH:
            while True:
                # tw 392: scan a parameter until its delimiter string has been found;
                # or, if s=null, simply scan the delimiter string
                item = template[r]
                if item is MATCH:
                    r += 1
                    s = r
                    arg = []
                    m = 0
                    undelimited = template[r] is MATCH or template[r] is END_MATCH
                    if undelimited:
                        st["undelimited"] += 1
                    else:
                        st["delimited"] += 1
                else:
                    s = None
                    arg = None
                    m = 0
                    undelimited = False
                last_was_group = False
                while True:
                    t = self.get_token("scanning use of \\" + tok[1])
                    item = template[r]
                    if t == item:
                        # tw 394
                        r += 1
                        nxt = template[r]
                        if nxt is MATCH or nxt is END_MATCH:
                            break                                   # found
                        continue
                    # tw 397: contribute the recently matched tokens
                    if s != r:
                        if s is None:
                            raise TeXError("use of \\%s doesn't match its definition" % tok[1])
                        st["partial_match"] += 1
                        tt = s
                        while True:
                            arg.append(template[tt])
                            m += 1
                            last_was_group = False
                            u = tt + 1
                            v = s
                            again = False
                            while True:
                                if u == r:
                                    if t != template[v]:
                                        break
                                    r = v + 1
                                    again = True
                                    break
                                if template[u] != template[v]:
                                    break
                                u += 1
                                v += 1
                            if again:
                                break
                            tt += 1
                            if tt == r:
                                break
                        if again:
                            # tw 397 "goto continue" with r advanced: check for completion
                            nxt = template[r]
                            if nxt is MATCH or nxt is END_MATCH:
                                # cannot happen: the delimiter has >= 1 more token here
                                break
                            continue
                        r = s
                    if t == cs("par") and not mac.long:
                        raise TeXError("paragraph ended before \\%s was complete" % tok[1])
                    if t[0] == "ch" and t[2] == 1:
                        # tw 399: contribute an entire group
                        unbalance = 1
                        arg.append(t)
                        while True:
                            t2 = self.get_token("scanning use of \\" + tok[1])
                            if t2 == cs("par") and not mac.long:
                                raise TeXError("paragraph ended before \\%s was complete" % tok[1])
                            arg.append(t2)
                            if t2[0] == "ch":
                                if t2[2] == 1:
                                    unbalance += 1
                                elif t2[2] == 2:
                                    unbalance -= 1
                                    if unbalance == 0:
                                        break
                        last_was_group = True
                    elif t[0] == "ch" and t[2] == 2:
                        raise TeXError("argument of \\%s has an extra }" % tok[1])
                    else:
                        # tw 393
                        if t == SPACE and undelimited:
                            continue
                        arg.append(t)
                        last_was_group = False
                    m += 1
                    if not undelimited:
                        continue
                    break                                           # found (undelimited)
                # found: tw 400 tidy up the parameter just scanned
                if s is not None:
                    if m == 1 and last_was_group:
                        arg = arg[1:-1]
                        st["stripped_undelimited" if undelimited else "stripped_delimited"] += 1
                    pstack.append(arg)
                if template[r] is END_MATCH:
                    break
        # tw 390 / 358: feed the macro body with the parameters substituted
        body = []
        for t in mac.body:
            if t[0] == "par":
                body.extend(pstack[t[1] - 1])
            else:
                body.append(t)
        self.last_body_len = len(body)
        d = call_depth + 1
        if d > st["max_depth"]:
            st["max_depth"] = d
        self.back_list(body, depth=d)

    def read_undelimited(self, who, long=True):
        """One undelimited macro argument (used for the LaTeX-level commands,
        which are macros with undelimited parameters)."""
        while True:
            t = self.get_token("scanning use of " + who)
            if t == SPACE:
                continue
            break
        if t[0] == "ch" and t[2] == 2:
            raise TeXError("argument of %s has an extra }" % who)
        if t[0] == "ch" and t[2] == 1:
            arg = []
            unbalance = 1
            while True:
                t2 = self.get_token("scanning use of " + who)
                if t2[0] == "ch":
                    if t2[2] == 1:
                        unbalance += 1
                    elif t2[2] == 2:
                        unbalance -= 1
                        if unbalance == 0:
                            break
                arg.append(t2)
            return arg
        return [t]

    def peek_nonblank(self):
        """\\kernel@ifnextchar: \\futurelet look-ahead that discards blanks."""
        while True:
            t = self.get_token()
            if t is None:
                return None
            if t == SPACE:
                continue
            self.back_input(t)
            return t

    def opt_call(self, tok, om):
        """\\@testopt\\\\foo{default} (ltdefns): [ next -> \\\\foo, else \\\\foo[{default}]."""
        t = self.peek_nonblank()
        if t == ("ch", "[", 12):
            self.stats["opt_present"] += 1
            self.macro_call(tok, om.inner)
        else:
            self.stats["opt_default"] += 1
            self.back_list([("ch", "[", 12), ("ch", "{", 1)] + list(om.default) +
                           [("ch", "}", 2), ("ch", "]", 12)])
            before = self.stats["stripped_delimited"], self.stats["delimited"]
            self.macro_call(tok, om.inner)
            # (the braces LaTeX puts around the default are not a user construct)
            self.stats["stripped_delimited"], self.stats["delimited"] = before

    # -- conditionals (tw 487-510) ---------------------------------------------------
    def pass_text(self):                            # tw 494
        l = 0
        while True:
            t = self.get_token("skipping conditional text (incomplete \\if)")
            if t[0] != "cs":
                continue
            m = self.meaning(t)
            if m[0] != "prim":
                continue
            if m[1] in FI_OR_ELSE:
                if l == 0:
                    return FI_OR_ELSE[m[1]]
                if m[1] == "fi":
                    l -= 1
            elif m[1] in IF_PRIMS:
                l += 1
                self.stats["skipped_nested"] += 1

    def conditional(self, name):                    # tw 498
        self.stats["conds"] += 1
        self.cond_stack.append(IF_CODE)
        mine = len(self.cond_stack)
        if name == "ifcase":                        # tw 509
            n = self.scan_int()
            self.trace.append(("ifcase", n))
            while n != 0:
                code = self.pass_text()
                if code == OR_CODE:
                    n -= 1
                else:
                    if code == FI_CODE:
                        self.cond_stack.pop()
                    else:
                        self.cond_stack[mine - 1] = FI_CODE
                    return
            self.cond_stack[mine - 1] = OR_CODE
            return
        if name == "iftrue":
            b = True
        elif name == "iffalse":
            b = False
        elif name == "ifnum" or name == "ifdim":    # tw 503
            a = self.scan_int() if name == "ifnum" else self.scan_dimen()
            while True:
                t = self.get_x_token("scanning a relation")
                if t != SPACE:
                    break
            if t[0] != "ch" or t[2] != 12 or t[1] not in "<=>":
                raise TeXError("missing = inserted for \\" + name)
            c = self.scan_int() if name == "ifnum" else self.scan_dimen()
            b = (a < c) if t[1] == "<" else (a > c) if t[1] == ">" else (a == c)
        elif name == "ifodd":                       # tw 504
            b = self.scan_int() % 2 == 1
        elif name == "ifx":                         # tw 507-508
            t1 = self.get_token("scanning \\ifx")
            t2 = self.get_token("scanning \\ifx")
            m1, m2 = self.meaning(t1), self.meaning(t2)
            if m1[0] == "macro" and m2[0] == "macro":
                b = m1[1] is m2[1] or m1[1].same(m2[1])
            elif m1[0] == "optmacro" or m2[0] == "optmacro":
                b = m1[0] == m2[0] and m1[1] is m2[1]
            else:
                b = m1 == m2
        elif name == "ifdefined":                   # e-TeX
            t1 = self.get_token("scanning \\ifdefined")
            b = self.meaning(t1) is not UNDEFINED
        elif name == "if" or name == "ifcat":       # tw 506
            def code_of():
                t = self.get_x_token("scanning \\if")
                m = self.meaning(t)
                if t[0] == "ch":
                    return (t[2], t[1])
                if m[0] == "char":
                    return (m[2], m[1])
                return (16, 256)
            c1 = code_of()
            c2 = code_of()
            b = (c1[1] == c2[1]) if name == "if" else (c1[0] == c2[0])
        else:  # pragma: no cover
            raise AssertionError(name)
        self.trace.append((name, b))
        if len(self.cond_stack) != mine:
            raise TeXError("conditional closed while its test was being scanned")
        if b:
            self.cond_stack[mine - 1] = ELSE_CODE
            return
        code = self.pass_text()
        if code == OR_CODE:
            raise TeXError("extra \\or")
        if code == FI_CODE:
            self.cond_stack.pop()
        else:
            self.cond_stack[mine - 1] = FI_CODE

    def fi_or_else(self, tok, code):                # tw 510
        if not self.cond_stack:
            raise TeXError("extra \\" + tok[1])
        limit = self.cond_stack[-1]
        if code > limit:
            if limit == IF_CODE:
                # tw 510 insert_relax: the test is still being scanned
                self.back_input(tok)
                self.back_input(cs("relax"))
                return
            raise TeXError("extra \\" + tok[1])
        while code != FI_CODE:
            code = self.pass_text()
        self.cond_stack.pop()

    # -- numbers (tw 440-458) ------------------------------------------------------------
    def scan_signs(self):
        negative = False
        while True:
            t = self.get_x_token("scanning a number")
            if t == SPACE:
                continue
            if t == ("ch", "-", 12):
                negative = not negative
                continue
            if t == ("ch", "+", 12):
                continue
            return negative, t

    def scan_int(self):                             # tw 440
        negative, t = self.scan_signs()
        v = self._scan_int_body(t)
        return -v if negative else v

    def _scan_int_body(self, t):
        self._last = None
        if t == ("ch", "`", 12):                    # tw 442
            c = self.get_token("scanning a character constant")
            if c[0] == "ch":
                v = ord(c[1])
            elif len(c[1]) == 1:
                v = ord(c[1])
            else:
                raise TeXError("improper alphabetic constant")
            nx = self.get_x_token()
            if nx is not None and nx != SPACE:
                self.back_input(nx)
            return v
        m = self.meaning(t)
        if t[0] == "cs":
            if m[0] == "count":
                return self.counters[m[1]]
            raise TeXError("missing number (got \\%s)" % t[1])
        radix = 10                                  # tw 444
        if t == ("ch", "'", 12):
            radix = 8
            t = self.get_x_token("scanning a number")
        elif t == ("ch", '"', 12):
            radix = 16
            t = self.get_x_token("scanning a number")
        v = 0
        vacuous = True
        while True:                                 # tw 445
            d = None
            if t is not None and t[0] == "ch":
                c, cat = t[1], t[2]
                if cat == 12 and "0" <= c <= "9" and (radix != 8 or c <= "7"):
                    d = ord(c) - 48
                elif radix == 16 and cat in (11, 12) and "A" <= c <= "F":
                    d = ord(c) - 55
            if d is None:
                break
            vacuous = False
            v = v * radix + d
            if v > 2147483647:
                raise TeXError("number too big")
            t = self.get_x_token()
        if vacuous:
            raise TeXError("missing number, treated as zero")
        if t is not None and t != SPACE:
            self.back_input(t)
        self._last = t
        return v

    def scan_keyword(self, word):                   # tw 407
        got = []
        for k in word:
            while True:
                t = self.get_x_token()
                if t is not None and t[0] == "ch" and t[1].lower() == k:
                    got.append(t)
                    break
                if t == SPACE and not got:
                    continue
                if t is not None:
                    self.back_input(t)
                self.back_list(got)
                return False
        return True

    def scan_dimen(self):                           # tw 448 (mu=false, inf=false)
        negative, t = self.scan_signs()
        f = 0
        m = self.meaning(t)
        if t[0] == "cs" and m[0] == "count":
            v = self.counters[m[1]]
            if v < 0:
                negative, v = not negative, -v
        else:                                       # tw 452
            if t[0] == "ch" and t[2] == 12 and t[1] in ".,":
                v = 0
                last = t
            else:
                v = self._scan_int_body(t)
                last = self._last
                if last is not None and last[0] == "ch" and last[2] == 12 and last[1] in ".,":
                    self.get_token()                # the point is being re-scanned
                else:
                    last = None
            if last is not None:
                digs = []
                while True:
                    t = self.get_x_token()
                    if t is None or t[0] != "ch" or t[2] != 12 or not ("0" <= t[1] <= "9"):
                        break
                    if len(digs) < 17:
                        digs.append(ord(t[1]) - 48)
                a = 0                               # tw 102 round_decimals
                for d in reversed(digs):
                    a = (a + d * 131072) // 10
                f = (a + 1) // 2
                if t is not None and t != SPACE:
                    self.back_input(t)
        # tw 455: units
        while True:
            t = self.get_x_token("scanning units")
            if t != SPACE:
                break
        self.back_input(t)
        if t[0] == "cs":
            raise TeXError("internal quantities as units are outside the sub-language")
        for kw in ("em", "ex"):
            if self.scan_keyword(kw):
                raise TeXError("font-relative units are outside the sub-language")
        self.scan_keyword("true")                   # \mag = 1000: no effect
        if self.scan_keyword("pt"):
            num = den = None
        else:
            for kw, num, den in (("in", 7227, 100), ("pc", 12, 1), ("cm", 7227, 254),
                                 ("mm", 7227, 2540), ("bp", 7227, 7200), ("dd", 1238, 1157),
                                 ("cc", 14856, 1157), ("sp", 0, 0)):
                if self.scan_keyword(kw):
                    break
            else:
                raise TeXError("illegal unit of measure")
        if num == 0:                                # sp
            sp = v
        else:
            if num is not None:                     # tw 458
                q, rem = divmod(v * num, den)
                f = (num * f + 65536 * rem) // den
                v = q + f // 65536
                f = f % 65536
            if v >= 16384:
                raise TeXError("dimension too large")
            sp = v * 65536 + f
        t = self.get_x_token()                      # tw 443 scan an optional space
        if t is not None and t != SPACE:
            self.back_input(t)
        if sp >= 1073741824:
            raise TeXError("dimension too large")
        return -sp if negative else sp

    # -- definitions ------------------------------------------------------------------------
    def get_r_token(self):                          # tw 1215
        while True:
            t = self.get_token("scanning a definition")
            if t != SPACE:
                break
        if t[0] != "cs":
            raise TeXError("missing control sequence inserted")
        return t

    def scan_def(self):                             # tw 473-476 (macro_def, not xpand)
        template = []
        nparams = 0
        hash_brace = None
        while True:
            t = self.get_token("scanning a parameter text")
            if t[0] == "ch" and t[2] == 1:
                break
            if t[0] == "ch" and t[2] == 2:
                raise TeXError("missing { inserted in parameter text")
            if t[0] == "ch" and t[2] == 6:
                t2 = self.get_token("scanning a parameter text")
                if t2[0] == "ch" and t2[2] == 1:
                    hash_brace = t2
                    template.append(t2)
                    self.stats["hash_brace"] += 1
                    break
                if nparams == 9:
                    raise TeXError("you already have nine parameters")
                nparams += 1
                if t2 != ("ch", chr(48 + nparams), 12):
                    raise TeXError("parameters must be numbered consecutively")
                template.append(MATCH)
                continue
            template.append(t)
        template.append(END_MATCH)
        body = self.scan_body(nparams)
        if hash_brace is not None:
            body.append(hash_brace)
        return template, body

    def scan_body(self, nparams):                   # tw 477
        body = []
        unbalance = 1
        last_was_hash = False
        while True:
            t = self.get_token("scanning a definition")
            was_hash, last_was_hash = last_was_hash, False
            if t[0] == "ch":
                if t[2] == 1:
                    unbalance += 1
                elif t[2] == 2:
                    unbalance -= 1
                    if unbalance == 0:
                        break
                elif t[2] == 6:
                    t2 = self.get_token("scanning a definition")
                    if t2[0] == "ch" and t2[2] == 6:
                        if body and body[-1] == t2 and was_hash:
                            self.stats["quad_hash"] += 1
                        body.append(t2)
                        last_was_hash = True
                        self.stats["double_hash"] += 1
                        continue
                    if (t2[0] != "ch" or t2[2] != 12 or not ("1" <= t2[1] <= "9") or
                            ord(t2[1]) - 48 > nparams):
                        raise TeXError("illegal parameter number in definition")
                    body.append(("par", ord(t2[1]) - 48))
                    continue
            body.append(t)
        return body

    def body_from_tokens(self, tokens, nparams):
        """Replacement text from a token list already read as a macro argument
        (\\newcommand's {definition}): same # rules as scan_body."""
        body = []
        i, n = 0, len(tokens)
        while i < n:
            t = tokens[i]
            i += 1
            if t[0] == "ch" and t[2] == 6:
                if i >= n:
                    raise TeXError("illegal parameter number in definition")
                t2 = tokens[i]
                i += 1
                if t2[0] == "ch" and t2[2] == 6:
                    body.append(t2)
                    continue
                if (t2[0] != "ch" or t2[2] != 12 or not ("1" <= t2[1] <= "9") or
                        ord(t2[1]) - 48 > nparams):
                    raise TeXError("illegal parameter number in definition")
                body.append(("par", ord(t2[1]) - 48))
                continue
            body.append(t)
        return body

    def do_newcommand(self, renew):                 # ltdefns \newcommand / \renewcommand
        t = self.peek_nonblank()
        if t == ("ch", "*", 12):
            self.get_token()
            long = False
        else:
            long = True
        arg = self.read_undelimited("\\newcommand")
        if len(arg) != 1 or arg[0][0] != "cs":
            raise TeXError("\\newcommand needs a control sequence")
        name = arg[0][1]
        cur = self.meaning(arg[0])
        if renew:
            if cur is UNDEFINED or cur == RELAX:
                raise TeXError("\\renewcommand of undefined \\" + name)
        else:
            if not (cur is UNDEFINED or cur == RELAX) or name.startswith("end") or name == "relax":
                raise TeXError("command \\%s already defined" % name)
        n = 0
        default = None
        if self.peek_nonblank() == ("ch", "[", 12):
            self.get_token()
            digits = []
            while True:
                t = self.get_token("scanning \\newcommand")
                if t == ("ch", "]", 12):
                    break
                digits.append(t)
            self.back_input(cs("relax"))
            self.back_list(digits)
            n = self.scan_int()
            if self.get_token() != cs("relax"):
                raise TeXError("bad argument count")
            if not 0 <= n <= 9:
                raise TeXError("illegal parameter number")
            if self.peek_nonblank() == ("ch", "[", 12):
                # \@xargdef #1[#2][#3]#4: #3 delimited by ] with TeX's rules
                tmp = Macro([("ch", "[", 12), MATCH, ("ch", "]", 12), END_MATCH], [("par", 1)], True)
                # run the delimited match on the live input, capture the argument
                default = self._match_one(tmp)
                if n == 0:
                    raise TeXError("optional argument declared with zero parameters")
        definition = self.read_undelimited("\\newcommand")
        body = self.body_from_tokens(definition, n)
        if default is None:
            mac = Macro([MATCH] * n + [END_MATCH], body, long)
            self.eq_define(name, ("macro", mac))
        else:
            inner = Macro([("ch", "[", 12), MATCH, ("ch", "]", 12)] + [MATCH] * (n - 1) +
                          [END_MATCH], body, long)
            self.eq_define(name, ("optmacro", OptMacro(default, inner)))

    def _match_one(self, mac):
        """Run TeX's parameter matching for a one-parameter macro on the live
        input and return the matched argument (tokens)."""
        mark = ("mark", id(mac))
        m2 = Macro(mac.template, [mark, ("par", 1), mark], mac.long)
        self.macro_call(cs("@internal"), m2)
        self.stats["calls"] -= 1
        first = self.get_token()
        assert first == mark
        arg = []
        while True:
            t = self.get_token()
            if t == mark:
                break
            arg.append(t)
        return arg

    def do_newif(self):                             # ltplain / plain.tex \newif
        arg = self.read_undelimited("\\newif")
        if len(arg) != 1 or arg[0][0] != "cs" or not arg[0][1].startswith("if") or len(arg[0][1]) < 3:
            raise TeXError("\\newif needs \\if<name>")
        name = arg[0][1]
        self.eq_define(name, ("prim", "iffalse"))
        for suffix, target in (("true", "iftrue"), ("false", "iffalse")):
            mac = Macro([END_MATCH], [cs("let"), cs(name), cs(target)])
            self.eq_define(name[2:] + suffix, ("macro", mac))

    # -- the stomach --------------------------------------------------------------------------
    def execute(self, tok):
        if tok[0] == "ch":
            cat = tok[2]
            if cat == 11 or cat == 12:
                self.out.append(tok[1])
            elif cat == 10:
                pass
            elif cat == 1:
                self.new_save_level("brace")
            elif cat == 2:
                self.unsave("brace")
            elif cat == 6:
                raise TeXError("macro parameter character # in horizontal mode")
            else:
                raise TeXError("category %d characters are outside the sub-language" % cat)
            return
        m = self.meaning(tok)
        if m[0] == "char":
            self.execute(("ch", m[1], m[2]))
            return
        if m[0] == "count":
            # <count register> <optional equals> <number>  (tw 1236-1237).  The generators assign
            # registers at brace level 0 only, where a local assignment is permanent.
            if self.save_stack:
                raise TeXError("register assignment inside a group is outside the sub-language")
            t = self.get_x_token("scanning an assignment")
            while t == SPACE:
                t = self.get_x_token("scanning an assignment")
            if t != ("ch", "=", 12):
                self.back_input(t)
            self.counters[m[1]] = self.scan_int()
            return
        name = m[1]
        if name == "relax" or name == "par":
            return
        if name == "def" or name == "gdef":
            target = self.get_r_token()
            template, body = self.scan_def()
            mac = ("macro", Macro(template, body, False))
            if name == "def":
                self.eq_define(target[1], mac)
            else:
                self.geq_define(target[1], mac)
        elif name == "let":                         # tw 1221
            target = self.get_r_token()
            while True:
                t = self.get_token("scanning \\let")
                if t != SPACE:
                    break
            if t == ("ch", "=", 12):
                t = self.get_token("scanning \\let")
                if t == SPACE:
                    t = self.get_token("scanning \\let")
            m2 = self.meaning(t)
            self.stats["let_char" if m2[0] == "char" else "let_macro"] += 1
            if m2 is UNDEFINED:
                if target[1] in self.eqtb:
                    # \let\a\undefined: \a becomes undefined (locally)
                    self.eq_define(target[1], UNDEFINED)
            else:
                self.eq_define(target[1], m2)
        elif name == "begingroup":
            self.new_save_level("semi")
        elif name == "endgroup":
            self.unsave("semi")
        elif name == "newcommand" or name == "renewcommand":
            self.do_newcommand(name == "renewcommand")
        elif name == "newif":
            self.do_newif()
        elif name == "newcounter":
            cname = self.name_of(self.read_undelimited("\\newcounter"))
            if self.peek_nonblank() == ("ch", "[", 12):
                raise TeXError("\\newcounter[within] is outside the sub-language")
            if cname in self.counters:
                raise TeXError("counter %s already defined" % cname)
            self.counters[cname] = 0
            self.eqtb["c@" + cname] = [("count", cname), 1]
        elif name == "newcount":
            # plain TeX's \newcount\name: a fresh count register, initially 0 (allocation is global)
            target = self.get_r_token()
            key = "count:" + target[1]
            self.counters[key] = 0
            self.eqtb[target[1]] = [("count", key), 1]
        elif name == "stepcounter":
            cname = self.name_of(self.read_undelimited("\\stepcounter"))
            if cname not in self.counters:
                raise TeXError("no counter '%s'" % cname)
            self.counters[cname] += 1
        elif name == "setcounter" or name == "addtocounter":
            cname = self.name_of(self.read_undelimited("\\" + name))
            if cname not in self.counters:
                raise TeXError("no counter '%s'" % cname)
            val = self.read_undelimited("\\" + name)
            self.back_input(cs("relax"))            # \global\c@x #2\relax
            self.back_list(val)
            v = self.scan_int()
            if name == "setcounter":
                self.counters[cname] = v
            else:
                self.counters[cname] += v
        elif name == "endcsname":
            raise TeXError("extra \\endcsname")
        else:  # pragma: no cover
            raise AssertionError(name)

    def meaning_is_undefined(self, m):
        return m is UNDEFINED

    def run(self):
        while True:
            tok = self.get_x_token(expand_only=False)
            if tok is None:
                break
            if tok[0] == "cs":
                m = self.meaning(tok)
                if m is UNDEFINED:
                    raise TeXError("undefined control sequence \\" + tok[1])
            self.execute(tok)
        if self.cond_stack:
            raise TeXError("end of input inside a conditional")
        self.text = "".join(self.out)
        self.final_level = self.level - 1
        return self


def run(src):
    return MiniTeX(src).run()


# ----------------------------------------------------------------------------
# self test: examples with known TeX results (The TeXbook ch. 7, 20; tex.web)
# ----------------------------------------------------------------------------
SELFTEST = [
    # (source, expected visible text)
    (r"\def\a#1.#2;{[#1|#2]}\a {x.}y.z;", "[x.y|z]"),
    (r"\def\a#1.{[#1]}\def\b#1{(#1)}\def\c#1.{\b#1}\c{xy}.", "(x)y"),
    (r"\def\a#1#{[#1]}\a xy{z}", "[xy]z"),
    (r"\def\a#1#2{(#1|#2)}\a x {yz}w", "(x|yz)w"),
    (r"\def\a#1.,{(#1)}\a x.y.,", "(x.y)"),
    (r"\def\a#1#2{(#1)}\def\b{\a{x}}\b yz", "(x)z"),
    (r"\def\a#1{\def\b##1{[##1#1]}\b}\a xy", "[yx]"),
    (r"\def\a{x}\let\b=\a\def\a{y}\b\a", "xy"),
    (r"\let\b=c \b\b", "cc"),
    (r"\def\a{\b}\let\b=c \a", "c"),
    (r"\let\b=c \def\b{x}\b", "x"),
    (r"{\def\a{x}\a}\def\a{y}\a{\gdef\a{z}}\a", "xyz"),
    (r"\def\a{o}{\def\a{x}{\gdef\a{g}\a}\a}\a", "ggg"),
    (r"\def\a{o}{\def\a{x}{\def\a{l}\a}\a}\a", "lxo"),
    (r"\begingroup\def\a{x}\a\endgroup\def\a{y}\a", "xy"),
    (r"\def\qa#1{(#1)}\expandafter\def\csname qb\endcsname#1{[#1]}\qb z\csname qa\endcsname w",
     "[z](w)"),
    (r"\def\hx{{a}{b}}\def\qa#1#2{(#1|#2)}\expandafter\qa\hx", "(a|b)"),
    (r"\newcommand\qa[2][d]{(#1|#2)}\qa{x}\qa[o]{y}\qa [o] {y}\qa x", "(d|x)(o|y)(o|y)(d|x)"),
    (r"\newcommand{\qa}[1]{(#1)}\qa x\renewcommand{\qa}[2]{<#1#2>}\qa xy", "(x)<xy>"),
    (r"\newcommand\qa[1][{a]b}]{(#1)}\qa\qa[{x]}]", "(a]b)(x])"),
    (r"\ifcase 5 a\or b\fi.\ifcase -1 a\or b\else d\fi.\ifcase 1 a\or b\or c\else d\fi", ".d.b"),
    (r"\ifcase 2\relax a\or b\else d\fi\ifcase 0 a\or b\else d\fi", "da"),
    (r"\iftrue a\iffalse b\else c\fi d\else e\iftrue f\fi\fi", "acd"),
    (r"\iffalse a\iffalse b\else c\fi d\else e\iftrue f\fi\fi", "ef"),
    (r"""\ifnum 1<2 y\else n\fi\ifnum -3>-4\relax y\fi\ifnum"1F=31 y\fi\ifnum'17=15 y\fi\ifnum`a=97 y\fi""",
     "yyyyy"),
    (r"\ifdim 1in=72.27pt y\else n\fi\ifdim 2.54cm=1in y\else n\fi\ifdim 1bp>1pt y\fi\ifdim 1cc=12dd y\else n\fi",
     "nnyy"),    # the classic: 1in = 4736286sp but 72.27pt = 4736287sp
    (r"\ifdim 7227pt=100in y\else n\fi\ifdim 1dd<1.07pt y\else n\fi\ifdim .5pt=32768sp y\fi", "yny"),
    (r"\ifodd 3 y\fi\ifodd -3 y\fi\ifodd 4 n\else y\fi", "yyy"),
    (r"\def\a{x}\def\b{x}\def\c{y}\ifx\a\b y\fi\ifx\a\c n\else y\fi\ifx\a\undefined n\else y\fi"
     r"\ifx\zz\undefined y\fi\ifx aa y\fi\ifx ab n\else y\fi", "yyyyyy"),
    (r"\def\a{x}\ifx\a x n\else y\fi\let\b=x \ifx\b x y\fi", "yy"),
    (r"\ifdefined\zz n\else y\fi\def\zz{}\ifdefined\zz y\fi", "yy"),
    (r"\newif\iffoo \iffoo n\else y\fi\footrue\iffoo y\fi{\foofalse\iffoo n\else y\fi}\iffoo y\fi", "yyyy"),
    (r"\newif\ifbar\iffalse\newif\ifbar\ifbar x\fi\fi\else y\fi", "y"),
    (r"\newcounter{c}\stepcounter{c}\stepcounter{c}\ifnum\value{c}=2 y\fi\setcounter{c}{7}"
     r"\ifodd\value{c} y\fi\addtocounter{c}{-3}\ifnum\value{c}<5\relax y\fi", "yyy"),
    (r"\def\n{12}\ifnum\n<13 y\fi\ifnum 1\n=112 y\fi", "yy"),
    (r"\def\a#1{\ifx#1\relax y\else n\fi}\a\relax\a x", "yn"),
    # TeXbook exercise 20.? (p. 203): \def\cs AB#1#2C$#3\$ {#3{ab#1}#1 c##\x #2}
    (r"\def\x{!}\def\Look{L}\def\${D}\def\cs AB#1#2C$#3\$ {#3{ab#1}#1 c\x #2}\cs AB {\Look}C${And\$ }{look}\$ 5",
     "AndDlookabLLc!5"),
]


def selftest():
    bad = []
    for src, want in SELFTEST:
        if want is None:
            continue
        try:
            got = run(src).text
        except TeXError as e:
            got = "TeXError: %s" % e
        if got != want:
            bad.append((src, want, got))
    return bad


if __name__ == "__main__":
    import sys
    bad = selftest()
    for b in bad:
        print("SELFTEST FAIL %r want %r got %r" % b)
    print("selftest: %d examples, %d failed" % (len([s for s in SELFTEST if s[1] is not None]), len(bad)))
    sys.exit(1 if bad else 0)

"""Layered-dictionary reference model of plasTeX's configuration (C16).

Pure Python; imports nothing from plasTeX.  Written from the C16 statement, the
ConfigManager / DictOption docstrings and Doc/config-api.tex + Doc/command.tex:

  value = documented default
  each configuration file, in the order given:   scalars are replaced,
                                                 lists and dictionaries are extended
  command line:                                  scalars are replaced (the last
                                                 occurrence wins), lists/dicts extended
  read-back: strings and the items of string lists get %(name)s replaced by the
  current value of option `name` (looked up in the first section that has an option
  of that name; itself read back) and %% by %; other types are returned as stored.

The *schema* (section order, option names, types, flags, default values) is
environment data handed in by the property module; everything about layering,
string conversion and interpolation is decided here.

A case is structured (the oracle never parses INI or argv text): the same
description is rendered to files/argv for the code under test and folded by
`expected()`.

  case   {"files": [filedesc...], "argv": [argdesc...], "file_pos": "first"|"dashdash"}
  filedesc {"name": str, "exists": bool, "sections": [{"section": s, "delim": "="|":"|" = ",
                                                     "entries": [{"key": k, "v": valuedesc}]}]}
  argdesc  {"section": s, "key": k, "flag": "--x", "eq": bool, "v": valuedesc}
  valuedesc
     {"t": "str",  "raw": text}              {"t": "int", "raw": "-5"}     {"t": "float", "raw": "1.5"}
     {"t": "bool", "raw": "Yes"}   (file)    {"t": "flag", "on": true}   (argv: which of --x/--no-x)
     {"t": "list", "items": [...], "quote": [0|1|2 ...]}
     {"t": "dictline", "raw": text}          unknown key `key` in a section: entry of its dictionary
     {"t": "dictstr", "pairs": [[k, v]...]}  `option = k=v, k2=v2`
     {"t": "dictarg", "args": [k, v] | [k, url, title]}
     {"t": "unknown", "raw": text}           unknown key in a section without a dictionary: ignored
"""
import re

TRUE_WORDS = ("yes", "true", "on", "1")
FALSE_WORDS = ("no", "false", "off", "0")


class ModelError(Exception):
    pass


def conv_bool(raw):
    w = raw.strip().lower()
    if w in TRUE_WORDS:
        return True
    if w in FALSE_WORDS:
        return False
    raise ModelError("boolean spelling %r" % raw)


_INT = re.compile(r"^[+-]?[0-9]+$")
_FLOAT = re.compile(r"^[+-]?([0-9]+\.?[0-9]*|\.[0-9]+)([eE][+-]?[0-9]+)?$")


def conv_int(raw):
    if not _INT.match(raw.strip()):
        raise ModelError("integer spelling %r" % raw)
    return int(raw.strip())


def conv_float(raw):
    if not _FLOAT.match(raw.strip()):
        raise ModelError("float spelling %r" % raw)
    return float(raw.strip())


CONV = {"str": lambda s: s, "int": conv_int, "float": conv_float, "bool": conv_bool}


class Schema(object):
    def __init__(self, options):
        """options: list of dicts in live order:
        {section, key, type, vtype, default, enable, disable, nargs}"""
        self.options = options
        self.by = {}
        self.sections = []
        for o in options:
            self.by[(o["section"], o["key"])] = o
            if o["section"] not in self.sections:
                self.sections.append(o["section"])

    def section_dict(self, section):
        """The first dictionary option of a section (receives unknown keys)."""
        for o in self.options:
            if o["section"] == section and o["type"] == "dict":
                return o
        return None

    def lookup_name(self, name):
        """First section (in order) having an option called `name`."""
        for s in self.sections:
            if (s, name) in self.by:
                return (s, name)
        return None


def copy_value(v):
    if isinstance(v, list):
        return list(v)
    if isinstance(v, dict):
        return dict(v)
    return v


def _dict_put(opt, store, key, raw):
    store[key] = CONV[opt["vtype"]](raw)


def expected(schema, case):
    """Fold the layers.  Returns (values, provenance) keyed by (section, key);
    provenance[(s,k)] = list of source tags in the order they touched the option."""
    vals = {}
    prov = {}
    for o in schema.options:
        vals[(o["section"], o["key"])] = copy_value(o["default"])
        prov[(o["section"], o["key"])] = []

    def touch(idx, tag):
        prov[idx].append(tag)

    for fi, f in enumerate(case.get("files", [])):
        if not f.get("exists", True):
            continue
        tag = "file"
        for sec in f["sections"]:
            s = sec["section"]
            for e in sec["entries"]:
                k, v = e["key"], e["v"]
                t = v["t"]
                if t in ("dictline", "unknown"):
                    d = schema.section_dict(s)
                    if (s, k) in schema.by:
                        raise ModelError("dictline key %r is an option" % k)
                    if d is None:
                        if t != "unknown":
                            raise ModelError("section %s has no dictionary" % s)
                        continue
                    if t == "unknown":
                        raise ModelError("section %s has a dictionary" % s)
                    idx = (s, d["key"])
                    _dict_put(d, vals[idx], k, v["raw"])
                    touch(idx, tag)
                    continue
                idx = (s, k)
                o = schema.by[idx]
                if t == "dictstr":
                    for dk, dv in v["pairs"]:
                        _dict_put(o, vals[idx], dk, dv)
                elif t == "list":
                    vals[idx] = vals[idx] + list(v["items"])
                elif t in ("str", "int", "float", "bool"):
                    if t != o["type"]:
                        raise ModelError("value type %s for option type %s" % (t, o["type"]))
                    vals[idx] = CONV[t](v["raw"])
                    if t == "bool":
                        tag_b = tag + (":false-spelling" if not vals[idx] else ":true-spelling")
                        touch(idx, tag_b)
                        continue
                else:
                    raise ModelError("file value %r" % (v,))
                touch(idx, tag)

    for a in case.get("argv", []):
        idx = (a["section"], a["key"])
        o = schema.by[idx]
        v = a["v"]
        t = v["t"]
        if t == "flag":
            vals[idx] = bool(v["on"])
        elif t == "list":
            vals[idx] = vals[idx] + list(v["items"])
        elif t == "dictarg":
            args = v["args"]
            if o.get("nargs") == "+":           # --link name [url] title
                if len(args) == 2:
                    _dict_put(o, vals[idx], args[0] + "-title", args[1])
                elif len(args) == 3:
                    _dict_put(o, vals[idx], args[0] + "-url", args[1])
                    _dict_put(o, vals[idx], args[0] + "-title", args[2])
                else:
                    raise ModelError("--link takes 2 or 3 arguments")
            else:
                if len(args) != 2:
                    raise ModelError("dictionary option takes KEY VALUE")
                _dict_put(o, vals[idx], args[0], args[1])
        elif t in ("str", "int", "float"):
            if t != o["type"]:
                raise ModelError("value type %s for option type %s" % (t, o["type"]))
            vals[idx] = CONV[t](v["raw"])
        else:
            raise ModelError("argv value %r" % (v,))
        touch(idx, "argv")
    return vals, prov


_REF = re.compile(r"%(?:%|\(([^)]*)\)([sd]))")


def interpolate(schema, vals, text, depth=0):
    if depth > 20:
        raise ModelError("reference cycle")
    out = []
    pos = 0
    for m in _REF.finditer(text):
        out.append(text[pos:m.start()])
        pos = m.end()
        if m.group(0) == "%%":
            out.append("%")
            continue
        idx = schema.lookup_name(m.group(1))
        if idx is None:
            raise ModelError("reference to unknown option %r" % m.group(1))
        v = readback(schema, vals, idx, depth + 1)
        if m.group(2) == "d":
            if not isinstance(v, int) or isinstance(v, bool):
                raise ModelError("%%d of a non integer")
            out.append("%d" % v)
        else:
            if not isinstance(v, (str, int)) or isinstance(v, bool):
                raise ModelError("only string and integer options are referenced")
            out.append(str(v))
    rest = text[pos:]
    out.append(rest)
    if "%" in "".join(text[i:j] for i, j in _gaps(text)):
        raise ModelError("stray percent sign")
    return "".join(out)


def _gaps(text):
    pos = 0
    for m in _REF.finditer(text):
        yield pos, m.start()
        pos = m.end()
    yield pos, len(text)


def readback(schema, vals, idx, depth=0):
    v = vals[idx]
    if isinstance(v, str):
        return interpolate(schema, vals, v, depth)
    if isinstance(v, list):
        return [interpolate(schema, vals, x, depth) if isinstance(x, str) else x for x in v]
    return copy_value(v)


# --------------------------------------------------------------------------
# rendering
# --------------------------------------------------------------------------
def quote_item(item, style):
    """Shell quoting of one list item (style 0 bare, 1 double, 2 single)."""
    plain = re.match(r"^[A-Za-z0-9_./=%()+:,-]+$", item) is not None
    if style == 0 and plain:
        return item
    if "'" in item or '"' in item or "\\" in item:
        raise ModelError("list items avoid quotes and backslashes")
    if style == 2:
        return "'" + item + "'"
    return '"' + item + '"'


def render_value(v):
    t = v["t"]
    if t in ("str", "int", "float", "bool", "dictline", "unknown"):
        raw = v["raw"]
        if raw != raw.strip() or "\n" in raw:
            raise ModelError("INI values have no leading/trailing blanks or line breaks")
        return raw
    if t == "list":
        q = v.get("quote") or [0] * len(v["items"])
        return " ".join(quote_item(it, q[i % len(q)]) for i, it in enumerate(v["items"]))
    if t == "dictstr":
        for k, x in v["pairs"]:
            if "," in k or "," in x or "=" in k:
                raise ModelError("dictstr entries avoid commas")
        return ", ".join("%s=%s" % (k, x) for k, x in v["pairs"])
    raise ModelError("file value %r" % (v,))


def render_ini(f):
    lines = []
    if f.get("comment"):
        lines.append("# generated")
    for sec in f["sections"]:
        lines.append("[%s]" % sec["section"])
        d = sec.get("delim", "=")
        for e in sec["entries"]:
            if e["key"] != e["key"].lower() or e["key"] != e["key"].strip():
                raise ModelError("keys are lower case (ConfigParser lower-cases them)")
            lines.append("%s%s%s" % (e["key"], d, render_value(e["v"])))
        lines.append("")
    return "\n".join(lines) + "\n"


def render_argv(case, texfile="doc.tex"):
    argv = []
    for f in case.get("files", []):
        argv += [f.get("cflag", "-c"), f["name"]]
    for a in case.get("argv", []):
        v = a["v"]
        t = v["t"]
        if t == "flag":
            argv.append(a["flag"])
        elif t == "list":
            argv.append(a["flag"])
            for it in v["items"]:
                if it.startswith("-"):
                    raise ModelError("list items do not start with a dash")
                argv.append(it)
        elif t == "dictarg":
            argv.append(a["flag"])
            argv += list(v["args"])
        else:
            raw = v["raw"]
            # argparse accepts "-5" / "-.5" as a separate value token, nothing else that starts with a dash
            simple_neg = re.match(r"^-[0-9]+$|^-[0-9]*\.[0-9]+$", raw) is not None
            if a.get("eq") or (raw.startswith("-") and not simple_neg):
                argv.append("%s=%s" % (a["flag"], raw))
            else:
                argv += [a["flag"], raw]
    if case.get("file_pos", "dashdash") == "first":
        return [texfile] + argv
    return argv + ["--", texfile]

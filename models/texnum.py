"""Reference model of TeX's numeric scanners (C05, reused by C19).

Transcribed from tex.web (TeX82), part 26 "Basic scanning subroutines":
  section 102      round_decimals
  section 105      nx_plus_y / mult_and_add
  section 107      xn_over_d
  section 404-406  get next non-blank non-call / non-relax token
  section 407      scan_keyword
  section 413      scan_something_internal   (registers are *data*, see Env)
  section 440-446  scan_int      (decimal, 'octal, "HEX, `c, `\\c, internal integers)
  section 448-460  scan_dimen    (fractions with . or , -- units -- true -- fil(l(l)))
  section 461-462  scan_glue

All arithmetic is exact integer arithmetic on scaled points (sp, 2**-16 pt), as in TeX.
Besides TeX's own (truncated) result every dimension also carries the *exact* rational
value of what was written (`Fraction`), so that a caller can tell "differs from TeX only by
TeX's own rounding" from "denotes another value".

Imports nothing from plasTeX.  The only environment constants are passed in through `Env`
(register values, font dimensions em/ex, \\mag, parameterless macros, LaTeX counters).

Tokens are tuples:  ('c', char, catcode)  or  ('cs', name).  `lex()` is a small TeX82 lexer
for the default plain/LaTeX category codes, enough for the one-line literals of C05(b)
(no ^^ notation, no comment character: callers do not generate them).
"""
from fractions import Fraction

UNITY = 0o200000            # 2**16
TWO = 0o400000              # 2**17
INFINITY = 0o17777777777    # 2**31-1, section 445
MAX_DIMEN = 0o7777777777    # 2**30-1, section 421

NORMAL, FIL, FILL, FILLL = 0, 1, 2, 3
ORDER_NAMES = ["normal", "fil", "fill", "filll"]

# section 458: num/denom of the physical units
UNITS = {
    "in": (7227, 100), "pc": (12, 1), "cm": (7227, 254), "mm": (7227, 2540),
    "bp": (7227, 7200), "dd": (1238, 1157), "cc": (14856, 1157),
}
UNIT_ORDER = ["in", "pc", "cm", "mm", "bp", "dd", "cc"]   # order of the scan_keyword calls


class TeXError(Exception):
    """TeX would report an error on this input (outside the compared domain)."""

    def __init__(self, kind):
        Exception.__init__(self, kind)
        self.kind = kind


# --------------------------------------------------------------------------
# lexer (sections 343-355) for default category codes
# --------------------------------------------------------------------------
LETTERS = "abcdefghijklmnopqrstuvwxyzABCDEFGHIJKLMNOPQRSTUVWXYZ"


def default_cat(ch):
    if ch in LETTERS:
        return 11
    return {"\\": 0, "{": 1, "}": 2, "$": 3, "&": 4, "\n": 5, "#": 6, "^": 7, "_": 8,
            " ": 10, "\t": 10, "~": 13, "%": 14}.get(ch, 12)


def lex(text, cat=default_cat):
    """TeX's tokenizer, states N (new line), M (mid line), S (skipping blanks)."""
    out = []
    lines = text.split("\n")
    for li, line in enumerate(lines):
        last = li == len(lines) - 1
        # TeX strips trailing spaces of a line and appends the end-of-line character;
        # the last piece of `text` is taken as an unterminated partial line
        if not last:
            line = line.rstrip(" ") + "\n"
        state = "N"
        i = 0
        n = len(line)
        while i < n:
            ch = line[i]
            c = cat(ch)
            i += 1
            if c == 0:
                if i >= n:
                    out.append(("cs", ""))
                    state = "M"
                    continue
                ch2 = line[i]
                if cat(ch2) == 11:
                    j = i
                    while j < n and cat(line[j]) == 11:
                        j += 1
                    out.append(("cs", line[i:j]))
                    i = j
                    state = "S"
                else:
                    out.append(("cs", ch2))
                    i += 1
                    state = "S" if cat(ch2) == 10 else "M"
            elif c == 5:
                if state == "N":
                    out.append(("cs", "par"))
                elif state == "M":
                    out.append(("c", " ", 10))
                break           # rest of the line is discarded
            elif c == 10:
                if state == "M":
                    out.append(("c", " ", 10))
                    state = "S"
            elif c == 14:
                break
            elif c == 9:
                pass
            else:
                out.append(("c", ch, c))
                state = "M"
    return out


def render(tokens):
    """Readable rendering of a token list (for replay details)."""
    s = []
    for t in tokens:
        if t[0] == "cs":
            s.append("\\" + t[1] + (" " if t[1][:1] in LETTERS or t[1] == "" else ""))
        else:
            s.append(t[1])
    return "".join(s)


# --------------------------------------------------------------------------
# environment data
# --------------------------------------------------------------------------
class Env(object):
    """Data the scanners depend on.

    registers  name -> ('int', v) | ('dimen', sp) | ('glue', (w, st, st_order, sh, sh_order))
    counters   LaTeX counters for \\value{name}: name -> int   (an internal integer)
    macros     name -> list of tokens (parameterless \\def: expanded by get_x_token)
    em, ex     font dimensions in sp (quad and x_height of the current font)
    mag        \\mag (1000 => `true' changes nothing, section 457)
    """

    def __init__(self, registers=None, counters=None, macros=None, em=10 * UNITY,
                 ex=Fraction(4.30554).limit_denominator(100000) * UNITY, mag=1000):
        self.registers = registers or {}
        self.counters = counters or {}
        self.macros = macros or {}
        self.em = int(em)
        self.ex = int(ex)
        self.mag = mag


# --------------------------------------------------------------------------
# arithmetic (sections 100-107)
# --------------------------------------------------------------------------
def round_decimals(digs):
    """section 102: digits .d0 d1 ... -> nearest multiple of 2**-16, as an integer"""
    a = 0
    k = len(digs)
    while k > 0:
        k -= 1
        a = (a + digs[k] * TWO) // 10
    return (a + 1) // 2


def xn_over_d(x, n, d):
    """section 107: (x*n) div d and remainder, truncating toward zero, exact"""
    positive = x >= 0
    ax = abs(x)
    q, r = divmod(ax * n, d)
    if q >= 2 ** 30:
        raise TeXError("arith-error")
    if positive:
        return q, r
    return -q, -r


def nx_plus_y(n, x, y):
    """section 105: n*x+y with overflow check against max_dimen"""
    v = n * x + y
    if abs(v) > MAX_DIMEN:
        raise TeXError("arith-error")
    return v


# --------------------------------------------------------------------------
# results
# --------------------------------------------------------------------------
class Dimen(object):
    """sp     TeX's value (integer sp; for order>0: multiplier * 2**16)
    exact  the value the literal denotes without TeX's roundings (Fraction, same scale)
    order  0 normal, 1 fil, 2 fill, 3 filll
    """
    __slots__ = ("sp", "exact", "order")

    def __init__(self, sp, exact, order=NORMAL):
        self.sp = sp
        self.exact = Fraction(exact)
        self.order = order

    def neg(self):
        return Dimen(-self.sp, -self.exact, self.order)

    def as_json(self):
        return {"sp": self.sp, "exact": float(self.exact), "order": ORDER_NAMES[self.order]}


class Glue(object):
    __slots__ = ("width", "stretch", "shrink")

    def __init__(self, width, stretch=None, shrink=None):
        self.width = width
        self.stretch = stretch      # None = no `plus' part written (TeX: 0pt)
        self.shrink = shrink

    def as_json(self):
        return {"width": self.width.as_json(),
                "stretch": self.stretch.as_json() if self.stretch else None,
                "shrink": self.shrink.as_json() if self.shrink else None}


# --------------------------------------------------------------------------
# the scanner
# --------------------------------------------------------------------------
def is_space(t):
    return t is not None and t[0] == "c" and t[2] == 10


def is_other(t, ch):
    return t is not None and t[0] == "c" and t[2] == 12 and t[1] == ch


class Scanner(object):
    def __init__(self, tokens, env=None):
        self.stack = list(reversed(tokens))     # input stack, top = next token
        self.env = env or Env()
        self.expanded = 0                       # number of macro expansions performed
        self.events = set()                     # what the scan went through (features)

    # -- token access -------------------------------------------------------
    def get_token(self):
        if not self.stack:
            return None                         # end of input (TeX: would read on)
        return self.stack.pop()

    def back_input(self, t):
        if t is not None:
            self.stack.append(t)

    def get_x_token(self):
        """section 380: next token, macros expanded"""
        while True:
            t = self.get_token()
            if t is not None and t[0] == "cs" and t[1] in self.env.macros:
                self.expanded += 1
                self.events.add("macro-expanded-in-scan")
                for x in reversed(self.env.macros[t[1]]):
                    self.stack.append(x)
                continue
            return t

    def remainder(self):
        return list(reversed(self.stack))

    # -- helpers ---------------------------------------------------------------
    def is_internal(self, t):
        return (t is not None and t[0] == "cs" and
                (t[1] in self.env.registers or t[1] == "value"))

    def scan_optional_space(self):
        """section 443"""
        t = self.get_x_token()
        if not is_space(t):
            self.back_input(t)
        elif t is not None:
            self.events.add("optional-space-eaten")

    def scan_keyword(self, s):
        """section 407"""
        backup = []
        k = 0
        while k < len(s):
            t = self.get_x_token()
            if t is not None and t[0] == "c" and t[2] != 13 and \
                    (t[1] == s[k] or t[1] == s[k].upper()):
                backup.append(t)
                k += 1
            elif t is None:
                for x in reversed(backup):
                    self.back_input(x)
                return False
            elif (not is_space(t)) or backup:
                self.back_input(t)
                for x in reversed(backup):
                    self.back_input(x)
                if backup:
                    self.events.add("keyword-partial-match-backed-up")
                return False
            # else: a blank before the keyword is skipped
        return True

    def next_nonblank_nonsign(self):
        """section 441: returns (negative, token)"""
        negative = False
        nsign = 0
        while True:
            while True:                         # section 406
                t = self.get_x_token()
                if not is_space(t):
                    break
            if is_other(t, "-"):
                negative = not negative
                nsign += 1
                continue
            if is_other(t, "+"):
                nsign += 1
                continue
            break
        if nsign >= 2:
            self.events.add("sign-run>=2")
        return negative, t

    def internal(self, t):
        """section 413, reduced to data: returns (level, value)

        level 'int' -> int; 'dimen' -> sp; 'glue' -> (w, st, sto, sh, sho)"""
        name = t[1]
        if name == "value":
            # LaTeX: \value{ctr} -> \csname c@ctr\endcsname, a \count register
            t2 = self.get_token()
            while is_space(t2):
                t2 = self.get_token()
            if t2 is None or t2[0] != "c" or t2[2] != 1:
                raise TeXError("value-without-group")
            nm = []
            while True:
                t2 = self.get_token()
                if t2 is None:
                    raise TeXError("runaway")
                if t2[0] == "c" and t2[2] == 2:
                    break
                if t2[0] != "c":
                    raise TeXError("value-name")
                nm.append(t2[1])
            nm = "".join(nm)
            if nm not in self.env.counters:
                raise TeXError("no-counter")
            self.events.add("latex-counter")
            return "int", self.env.counters[nm]
        self.events.add("register")
        return self.env.registers[name]

    # -- scan_int (section 440) ------------------------------------------------------
    def scan_int(self):
        self.radix = 0
        negative, t = self.next_nonblank_nonsign()
        if is_other(t, "`"):
            # section 442
            t = self.get_token()
            if t is None:
                raise TeXError("eof")
            if t[0] == "c":
                val = ord(t[1])
                self.events.add("alpha-active" if t[2] == 13 else "alpha-char")
            elif len(t[1]) == 1:
                val = ord(t[1])
                self.events.add("alpha-cs")
            else:
                raise TeXError("improper-alphabetic-constant")
            if val > 255:
                raise TeXError("improper-alphabetic-constant")
            self.scan_optional_space()          # section 443
        elif self.is_internal(t):
            level, v = self.internal(t)
            if level == "glue":
                v = v[0]                        # coerced to its natural width (section 413)
                self.events.add("coerced")
            elif level == "dimen":
                self.events.add("coerced")
            val = v
        else:
            # section 444
            self.radix = 10
            m = 214748364
            if is_other(t, "'"):
                self.radix = 8
                m = 0o2000000000
                t = self.get_x_token()
                self.events.add("octal")
            elif is_other(t, '"'):
                self.radix = 16
                m = 0o1000000000
                t = self.get_x_token()
                self.events.add("hex")
            vacuous = True
            val = 0
            while True:
                d = None
                if t is not None and t[0] == "c" and t[2] == 12 and t[1] in "0123456789":
                    if int(t[1]) < self.radix:
                        d = int(t[1])
                elif self.radix == 16 and t is not None and t[0] == "c" and \
                        t[2] in (11, 12) and t[1] in "ABCDEF":
                    d = ord(t[1]) - ord("A") + 10
                if d is None:
                    break
                vacuous = False
                if val >= m and (val > m or d > 7 or self.radix != 10):
                    raise TeXError("number-too-big")
                val = val * self.radix + d
                t = self.get_x_token()
            if vacuous:
                raise TeXError("missing-number")
            self.last_tok = t
            if not is_space(t):
                self.back_input(t)
            elif t is not None:
                self.events.add("optional-space-eaten")
        if negative:
            val = -val
        return val

    # -- scan_dimen (section 448) -----------------------------------------------------
    def scan_dimen(self, mu=False, inf=False, shortcut=False, start=None):
        """Returns a Dimen.  `shortcut` with start=(int value) mirrors the call from
        scan_glue where an internal integer was already fetched."""
        if mu:
            raise NotImplementedError("mu units are outside C05")
        f = 0
        negative = False
        frac = Fraction(0)
        self.radix = 0
        if not shortcut:
            negative, t = self.next_nonblank_nonsign()
            if self.is_internal(t):
                # section 449
                level, v = self.internal(t)
                if level == "glue":
                    v = v[0]
                    level = "dimen"
                    self.events.add("coerced")
                if level == "dimen":
                    self.events.add("register-whole")
                    return self.attach_sign(v, Fraction(v), negative, NORMAL)
                cur_val = v                     # an internal integer is the coefficient
                self.events.add("int-register-coefficient")
            else:
                self.back_input(t)
                point = t is not None and t[0] == "c" and t[2] == 12 and t[1] in ".,"
                if not point:
                    cur_val = self.scan_int()
                    t = getattr(self, "last_tok", None) if self.radix else None
                    point = (self.radix == 10 and t is not None and t[0] == "c" and
                             t[2] == 12 and t[1] in ".,")
                else:
                    self.radix = 10
                    cur_val = 0
                if point and self.radix == 10:
                    # section 452
                    if t[1] == ",":
                        self.events.add("decimal-comma")
                    self.get_token()            # the point is being re-scanned
                    digs = []
                    alld = []
                    while True:
                        t = self.get_x_token()
                        if t is None or t[0] != "c" or t[2] != 12 or t[1] not in "0123456789":
                            break
                        if len(digs) < 17:
                            digs.append(int(t[1]))
                        alld.append(t[1])
                    f = round_decimals(digs)
                    if alld:
                        frac = Fraction(int("".join(alld)), 10 ** len(alld))
                    self.events.add("fraction" if alld else "fraction-empty")
                    if not is_space(t):
                        self.back_input(t)
        else:
            cur_val = start
        if cur_val < 0:
            negative = not negative
            cur_val = -cur_val
        number = cur_val + frac                 # exact multiplier that was written

        # section 453: units
        if inf:
            # section 454
            if self.scan_keyword("fil"):
                order = FIL
                while self.scan_keyword("l"):
                    if order == FILLL:
                        raise TeXError("illegal-unit-filll+l")
                    order += 1
                self.events.add("unit:" + ORDER_NAMES[order])
                return self.attach_fraction(cur_val, f, number * UNITY, negative, order)
        # section 455: units that are internal dimensions
        save_cur_val = cur_val
        while True:
            t = self.get_x_token()
            if not is_space(t):
                break
        v = None
        if self.is_internal(t):
            level, v = self.internal(t)
            if level == "glue":
                v = v[0]
                self.events.add("coerced")
            elif level == "int":
                self.events.add("coerced")
            self.events.add("register-multiple")
        else:
            self.back_input(t)
            if self.scan_keyword("em"):
                v = self.env.em
                self.events.add("unit:em")
            elif self.scan_keyword("ex"):
                v = self.env.ex
                self.events.add("unit:ex")
            if v is not None:
                self.scan_optional_space()      # section 443
        if v is not None:
            q, _r = xn_over_d(v, f, UNITY)
            val = nx_plus_y(save_cur_val, v, q)
            return self.attach_sign(val, number * v, negative, NORMAL)
        # not_found
        exact_factor = Fraction(1)
        if self.scan_keyword("true"):
            # section 457
            self.events.add("true")
            if self.env.mag != 1000:
                cur_val, rem = xn_over_d(cur_val, 1000, self.env.mag)
                f = (1000 * f + UNITY * rem) // self.env.mag
                cur_val += f // UNITY
                f = f % UNITY
                exact_factor = Fraction(1000, self.env.mag)
        if self.scan_keyword("pt"):
            self.events.add("unit:pt")
            return self.attach_fraction(cur_val, f, number * exact_factor * UNITY,
                                        negative, NORMAL)
        # section 458
        num = denom = None
        for u in UNIT_ORDER:
            if self.scan_keyword(u):
                num, denom = UNITS[u]
                self.events.add("unit:" + u)
                break
        if num is None:
            if self.scan_keyword("sp"):
                self.events.add("unit:sp")
                # goto done: the fraction is dropped
                self.scan_optional_space()
                return self.attach_sign(cur_val, number * exact_factor, negative, NORMAL)
            raise TeXError("illegal-unit")
        cur_val, rem = xn_over_d(cur_val, num, denom)
        f = (num * f + UNITY * rem) // denom
        cur_val += f // UNITY
        f = f % UNITY
        return self.attach_fraction(cur_val, f,
                                    number * exact_factor * Fraction(num, denom) * UNITY,
                                    negative, NORMAL)

    def attach_fraction(self, cur_val, f, exact, negative, order):
        if cur_val >= 0o40000:
            raise TeXError("dimension-too-large")
        cur_val = cur_val * UNITY + f
        self.scan_optional_space()              # done: section 443
        return self.attach_sign(cur_val, exact, negative, order)

    def attach_sign(self, cur_val, exact, negative, order):
        if abs(cur_val) >= 0o10000000000:
            raise TeXError("dimension-too-large")
        d = Dimen(cur_val, exact, order)
        return d.neg() if negative else d

    # -- scan_glue (section 461) --------------------------------------------------------
    def scan_glue(self):
        negative, t = self.next_nonblank_nonsign()
        if self.is_internal(t):
            level, v = self.internal(t)
            if level == "glue":
                self.events.add("glue-register-whole")
                w, st, sto, sh, sho = v
                g = Glue(Dimen(w, w), Dimen(st, st, sto), Dimen(sh, sh, sho))
                if negative:
                    g = Glue(g.width.neg(), g.stretch.neg(), g.shrink.neg())
                return g
            if level == "int":
                self.events.add("int-register-coefficient")
                width = self.scan_dimen(shortcut=True, start=v)
            else:
                self.events.add("register-whole")
                width = Dimen(v, v)
        else:
            self.back_input(t)
            width = self.scan_dimen()
        if negative:
            width = width.neg()
        # section 462
        stretch = shrink = None
        if self.scan_keyword("plus"):
            self.events.add("plus")
            stretch = self.scan_dimen(inf=True)
        if self.scan_keyword("minus"):
            self.events.add("minus")
            shrink = self.scan_dimen(inf=True)
        return Glue(width, stretch, shrink)


def scan(kind, text_or_tokens, env=None):
    """Convenience: kind in {'int','dimen','glue'}; returns (value, remainder tokens, events).

    Raises TeXError when TeX would complain."""
    toks = lex(text_or_tokens) if isinstance(text_or_tokens, str) else list(text_or_tokens)
    sc = Scanner(toks, env)
    if kind == "int":
        v = sc.scan_int()
        if abs(v) > INFINITY:
            raise TeXError("number-too-big")
    elif kind == "dimen":
        v = sc.scan_dimen()
    elif kind == "glue":
        v = sc.scan_glue()
    else:
        raise ValueError(kind)
    return v, sc.remainder(), sc.events


# --------------------------------------------------------------------------
# self-test on values that can be derived by hand from tex.web / The TeXbook ch. 10
# --------------------------------------------------------------------------
def _selftest():
    def d(s):
        return scan("dimen", s)[0].sp

    assert scan("int", "123 x")[0] == 123
    assert scan("int", "- + -'17")[0] == 15
    assert scan("int", '"7FFFFFFF')[0] == 2147483647
    assert scan("int", "`a")[0] == 97 and scan("int", "`\\%")[0] == 37
    assert render(scan("int", "12 3")[1]) == "3"
    assert render(scan("int", "`a b")[1]) == "b"
    assert render(scan("int", '"1Fa')[1]) == "a"             # lower case is not a hex digit
    assert d("1pt") == 65536 and d("1in") == 4736286 and d("1cm") == 1864679
    assert d("1bp") == 65781 and d("1mm") == 186467 and d("1dd") == 70124
    assert d("1cc") == 841489 and d("1pc") == 786432 and d("7sp") == 7
    assert d("0.1pt") == 6554 and d(".5 PT") == 32768 and d("1,5pt") == 98304
    assert d("1.7sp") == 1
    assert d("16383.99999pt") == 2 ** 30 - 1
    assert d("1truein") == d("1in")
    g = scan("glue", "1pt plus 2fil minus 3fill x")[0]
    assert (g.stretch.sp, g.stretch.order, g.shrink.sp, g.shrink.order) == \
        (2 * 65536, FIL, 3 * 65536, FILL)
    assert render(scan("glue", "1pt plus 2fil minus 3fill x")[1]) == "x"
    assert render(scan("dimen", "1pt plux")[1]) == "plux"
    env = Env(registers={"parindent": ("dimen", 20 * 65536)})
    assert scan("dimen", "2.5\\parindent", env)[0].sp == 50 * 65536
    assert scan("dimen", "-\\parindent", env)[0].sp == -20 * 65536
    for bad in ["16384pt", "'.5pt", "pt", "1xx", "2147483648"]:
        try:
            scan("dimen" if "pt" in bad or "x" in bad else "int", bad)
        except TeXError:
            pass
        else:
            raise AssertionError(bad)
    return True


if __name__ == "__main__":
    print(_selftest())

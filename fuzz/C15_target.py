"""atheris target for C15: bytes -> (template, config, <=12 binding requests); oracle = the C15 session."""
import os
import sys

sys.path.insert(0, os.path.dirname(os.path.dirname(os.path.abspath(__file__))))
from vlib import fuzz  # noqa

VARS = ["id", "title", "name", "ref", "jobname", "num"]
LITS = ["sect", "s", "f", "top", "x", "node", "index", "toc"]
EXTS = ["", "", ".html", ".htm"]
BAD = [None, [" /:", "-"], [': #$%^&*!~`"\'=?/{}[]()|<>;\\,.', "_"], [': #$%^&*!~`"\'=?/{}[]()|<>;\\,.', "-"]]
WORDS = ["a", "b", "Intro", "The", "First", "Part", "x", "y", "A/B:", "c", "sec:one", "é1", "fig.1", "1", "1.2", '"Now"']
RESERVED = ["index.html", "sect1.html", "a.html", "1", "s0001", "index", "f001.html", "x1", "top1.html"]


def alt(fdp):
    parts = []
    if fdp.ConsumeBool():
        parts.append(LITS[fdp.ConsumeIntInRange(0, len(LITS) - 1)])
    nv = fdp.ConsumeIntInRange(0 if parts else 1, 2)
    used = set()
    for _ in range(nv):
        v = VARS[fdp.ConsumeIntInRange(0, len(VARS) - 1)]
        if v in used:
            continue
        used.add(v)
        form = fdp.ConsumeIntInRange(0, 3)
        w = fdp.ConsumeIntInRange(1, 5)
        if v in ("ref", "jobname") and form >= 2:
            form -= 2
        text = ["$%s" % v, "${%s}" % v, "$%s(%d)" % (v, w), "${%s}(%d)" % (v, w)][form]
        if parts and parts[-1].startswith("$"):
            parts.append("-")
        parts.append(text)
    return "".join(parts)


def decode(fdp):
    names = []
    for _ in range(fdp.ConsumeIntInRange(0, 3)):
        names.append(alt(fdp) + EXTS[fdp.ConsumeIntInRange(0, 3)])
    if fdp.ConsumeIntInRange(0, 9) > 0:
        alts = [alt(fdp) for _ in range(fdp.ConsumeIntInRange(1, 4))]
        if fdp.ConsumeIntInRange(0, 3) > 0:
            alts[-1] = ["sect$num", "f$num(3)", "$num", "s$num(4)"][fdp.ConsumeIntInRange(0, 3)]
        sp = lambda: " " * fdp.ConsumeIntInRange(0, 2)
        body = (sp() + ",").join(sp() + a for a in alts)
        names.append(["", "p-", "top"][fdp.ConsumeIntInRange(0, 2)] + "[" + body + sp() + "]" +
                     EXTS[fdp.ConsumeIntInRange(0, 3)])
    if not names:
        names.append("only")
    cfg = {"spec": " ".join(names), "charsub": BAD[fdp.ConsumeIntInRange(0, 3)],
           "jobname": ["job", "my doc"][fdp.ConsumeIntInRange(0, 1)],
           "extension": ["", ".html"][fdp.ConsumeIntInRange(0, 1)],
           "invalid": sorted(set(RESERVED[fdp.ConsumeIntInRange(0, len(RESERVED) - 1)]
                                 for _ in range(fdp.ConsumeIntInRange(0, 2))))}
    ops = []
    for _ in range(fdp.ConsumeIntInRange(1, 12)):
        b = {}
        mask = fdp.ConsumeIntInRange(0, 15)
        for i, v in enumerate(["id", "title", "name", "ref"]):
            if mask & (1 << i):
                nw = fdp.ConsumeIntInRange(0, 4) if v == "title" else 1
                b[v] = " ".join(WORDS[fdp.ConsumeIntInRange(0, len(WORDS) - 1)] for _ in range(nw))
        ops.append({"bind": b})
        if fdp.remaining_bytes() == 0:
            break
    return {"config": cfg, "ops": ops}


if __name__ == "__main__":
    fuzz.main("C15", "fuzz", decode)

"""atheris target for C11 (verbatim bodies): bytes -> verbatim / \\verb case; oracle = check_verbatim.

decode() is total: every byte string decodes to a case inside the asserted domain (the end
delimiter is destroyed by construction, see props/C11_verbatim_math.build_verbatim_case).
The body is taken from the fuzzer's bytes in two ways: a fragment index (adversarial pieces:
partial end markers, %, ^^M, braces, ...) or raw UTF-8 text restricted to the property's
alphabet (printable ASCII, tab, newline, non-ASCII; other control characters are mapped to a
blank), so that libFuzzer's mutations of the raw part act directly on the verbatim body.
"""
import os
import sys

sys.path.insert(0, os.path.dirname(os.path.dirname(os.path.abspath(__file__))))
from vlib import fuzz  # noqa


def _clean(text):
    out = []
    for ch in text:
        o = ord(ch)
        if ch in "\n\t" or 32 <= o < 127 or (o > 160 and not 0xD800 <= o <= 0xDFFF and o < 0xFFFE):
            out.append(ch)
        else:
            out.append(" ")
    return "".join(out)


def decode(fdp):
    from props import C11_verbatim_math as P
    head = fdp.ConsumeIntInRange(0, 255)
    is_env = bool(head & 1)
    star = bool(head & 2)
    framed = bool(head & 4)
    name = P.ENV_NAMES[(head >> 3) % len(P.ENV_NAMES)]
    ctx = P.CTXS[fdp.ConsumeIntInRange(0, len(P.CTXS) - 1)]
    tail = fdp.ConsumeIntInRange(0, len(P.TAILS) - 1)
    pre = P.PRES[fdp.ConsumeIntInRange(0, len(P.PRES) - 1)]
    pool = P.verb_delimiter_pool(star)
    delim = pool[fdp.ConsumeIntInRange(0, len(pool) - 1)]
    pieces = []
    n = 0
    while fdp.remaining_bytes() > 0 and n < 24:
        n += 1
        sel = fdp.ConsumeIntInRange(0, 255)
        if sel < 96:
            pieces.append(P.FRAGMENTS[sel % len(P.FRAGMENTS)])
        else:
            k = 1 + (sel % 12)
            raw = fdp.ConsumeBytes(k)
            pieces.append(_clean(raw.decode("utf-8", "ignore")))
    return P.build_verbatim_case("".join(pieces), is_env, name, framed, star, delim, ctx, tail, pre)


if __name__ == "__main__":
    fuzz.main("C11", "fuzz", decode)

"""atheris target for C01: bytes -> (utf-8 text, category table); oracle = props/C01_tokenizer.check.

Layout of the input (FuzzedDataProvider takes integers from the END of the data, bytes from the front):
    <utf-8 text, decoded with errors="ignore", at most 64 characters> ... <op bytes> <n_ops> <base>
so a plain TeX string followed by two NUL bytes is that string under the default table.

Two ways to run it:
  * as the 'fuzz' stream of ./check C01 (vlib.fuzz protocol: VERIF_FUZZ_OUT / VERIF_FUZZ_RUNS in the environment);
  * stand-alone:  PYTHONPATH=/repo:/verif:/verif/.deps python fuzz/C01_target.py -runs=N -seed=S [-max_len=64]
    exits 1 at the first failing input whose bucket key is not a listed known finding and writes it as a
    replayable case (stream "atoms") to /verif/replays/C01-fuzz-<key>.json; exits 0 when N runs held.
"""
import json
import os
import sys

HERE = os.path.dirname(os.path.dirname(os.path.abspath(__file__)))
sys.path.insert(0, HERE)

BASES = ["default"] * 5 + ["atletter"] * 2 + ["verbatim"]


def decode(fdp):
    from props import C01_tokenizer as P
    base = BASES[fdp.ConsumeIntInRange(0, len(BASES) - 1)]
    n = fdp.ConsumeIntInRange(0, 9)
    n = 0 if n < 4 else n - 3
    ops = []
    for _ in range(n):
        ch = P.OPCHARS[fdp.ConsumeIntInRange(0, len(P.OPCHARS) - 1)]
        code = fdp.ConsumeIntInRange(0, 15)
        ops.append([ch, code])
    raw = fdp.ConsumeBytes(fdp.remaining_bytes())
    text = raw.decode("utf-8", errors="ignore")[:64]
    return P.repair({"text": text, "base": base, "ops": ops})


def standalone(argv):
    deps = os.path.join(HERE, ".deps")
    if deps not in sys.path:
        sys.path.append(deps)
    import atheris
    with atheris.instrument_imports(include=["plasTeX"], enable_loader_override=False):
        import plasTeX.TeX  # noqa
        import plasTeX.Tokenizer  # noqa
        import plasTeX.Context  # noqa
    from props import C01_tokenizer as P
    from vlib.runner import guarded, slug
    stats = {"n": 0, "known": 0}

    def one(data):
        case = decode(atheris.FuzzedDataProvider(data))
        res = guarded(P.check, case, 10.0)
        stats["n"] += 1
        if res.ok or res.excluded:
            return
        if res.key in P.KNOWN:
            stats["known"] += 1
            return
        path = os.path.join(HERE, "replays", "C01-fuzz-%s.json" % slug(res.key))
        os.makedirs(os.path.dirname(path), exist_ok=True)
        with open(path, "w") as f:
            json.dump({"property": "C01", "stream": "atoms", "key": res.key, "case": case,
                       "detail": res.detail, "raw_input_hex": bytes(data).hex()}, f, indent=1, default=repr)
        sys.stderr.write("C01 fuzz: bucket %s after %d runs; replay with ./check C01 --replay %s\n" %
                         (res.key, stats["n"], os.path.relpath(path, HERE)))
        sys.stderr.flush()
        os._exit(1)

    args = [a for a in argv]
    if not any(a.startswith("-max_len=") for a in args[1:]):
        args.append("-max_len=64")
    if not any(a.startswith("-handle_alrm=") for a in args[1:]):
        args.append("-handle_alrm=0")
    atheris.Setup(args, one)
    atheris.Fuzz()          # returns/exits 0 when -runs is exhausted


if __name__ == "__main__":
    if "VERIF_FUZZ_OUT" in os.environ:
        from vlib import fuzz
        fuzz.main("C01", "fuzz", decode)
    else:
        standalone(sys.argv)

#!/bin/bash
# Offline set-up: third-party tools the checks need beyond /venv (hypothesis is
# already there).  Idempotent.
HERE="$(cd "$(dirname "$0")" && pwd)"
mkdir -p "$HERE/.deps"
if ! /venv/bin/python -c 'import hypothesis' 2>/dev/null; then
  /venv/bin/pip install --no-index --find-links /opt/veriftools/wheels hypothesis || exit 1
fi
if [ ! -d "$HERE/.deps/atheris" ]; then
  /venv/bin/pip install -q --no-index --find-links /opt/veriftools/wheels \
      --target "$HERE/.deps" atheris jsonschema || echo "warning: optional deps not installed"
fi
exit 0

#!/venv/bin/python
"""tools/merge_findings.py Cxx [key=commit ...]
Merge notes/Cxx-findings.json into known_findings.json: keys given with a commit become status=fixed
(their repro is replayed by every run and must pass), the others status=known."""
import json, os, sys
HERE = os.path.dirname(os.path.dirname(os.path.abspath(__file__)))
prop = sys.argv[1]
fixed = dict(a.rsplit("=", 1) for a in sys.argv[2:])
src = json.load(open(os.path.join(HERE, "notes", prop + "-findings.json")))["findings"]
kfp = os.path.join(HERE, "known_findings.json")
kf = json.load(open(kfp))
keep = [e for e in kf["findings"] if not (e["property"] == prop and e["key"] in [s["key"] for s in src])]
for e in src:
    e = dict(e)
    e["property"] = prop
    if e["key"] in fixed:
        e["status"] = "fixed"
        e["commit"] = fixed[e["key"]]
        e["line"] = "fixed: property=%s %s %s" % (prop, e["commit"], e.get("what", ""))
    else:
        e["status"] = "known"
    keep.append(e)
unknown = set(fixed) - set(s["key"] for s in src)
if unknown:
    print("WARNING: keys not in findings file:", unknown)
kf["findings"] = keep
json.dump(kf, open(kfp, "w"), indent=1, ensure_ascii=False)
print(prop, "merged:", sum(1 for e in keep if e["property"] == prop and e["status"] == "fixed"), "fixed,",
      sum(1 for e in keep if e["property"] == prop and e["status"] == "known"), "known")

#!/venv/bin/python
"""tools/seed_record.py <seed-id> <check-result> <caught-by/notes>  -> writes seeded/<id>/meta.json"""
import json, os, sys
HERE = os.path.dirname(os.path.dirname(os.path.abspath(__file__)))
sid, result, notes = sys.argv[1], sys.argv[2], sys.argv[3]
d = os.path.join(HERE, "seeded", sid)
agent = json.load(open(os.path.join(d, "agent_meta.json"))) if os.path.exists(os.path.join(d, "agent_meta.json")) else {}
ver = json.load(open(os.path.join(d, "verified.json"))) if os.path.exists(os.path.join(d, "verified.json")) else {}
meta = {
    "id": sid,
    "property": agent.get("property", sid.split("-")[0]),
    "summary": agent.get("summary"),
    "needs_to_manifest": agent.get("needs"),
    "files": agent.get("files"),
    "origin": "written by a fresh sub-agent that saw only the property text and its own scratch worktree",
    "confirmed_by_me": {
        "patch_applies_to_repo_head": ver.get("applies"), "repo_head": ver.get("repo_head"),
        "demo_exit_on_clean_tree": ver.get("demo_clean_rc"), "demo_exit_with_change": ver.get("demo_changed_rc"),
        "baseline_360_tests_with_change": ver.get("baseline_with_change"),
        "how": "tools/seed_import.sh (scratch worktree under /tmp, demo.py run clean and changed, ./run_baseline.sh on the changed worktree)",
    },
    "check_result": result,
    "check_notes": notes,
    "how_run": "tools/mutant_run.sh seeded/%s/patch.diff %s  (scratch worktree + VERIF_REPO, quick tier)" % (sid, sid.split("-")[0]),
}
json.dump(meta, open(os.path.join(d, "meta.json"), "w"), indent=1)
print("recorded", sid, result)

#!/venv/bin/python
import glob, json, os, sys
HERE = os.path.dirname(os.path.dirname(os.path.abspath(__file__)))
sys.path.insert(0, os.path.join(HERE, ".deps"))
import jsonschema
schema = json.load(open("/root/.vp/EVIDENCE.schema.json"))
bad = 0
for p in sorted(glob.glob(os.path.join(HERE, "evidence", "*.json"))):
    try:
        jsonschema.validate(json.load(open(p)), schema)
        print("ok  ", os.path.basename(p))
    except Exception as e:
        bad += 1
        print("BAD ", os.path.basename(p), str(e)[:300])
sys.exit(1 if bad else 0)

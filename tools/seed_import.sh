#!/bin/bash
# tools/seed_import.sh <Cxx> : verify the seeding agent's output in /tmp/seed-<Cxx>-out and store it under seeded/
# optional: <srcdir> (default /tmp/seed-<Cxx>-out) and <offset> added to the change number (round 2: offset 2)
P="$1"; SRC="${2:-/tmp/seed-$P-out}"; OFF="${3:-0}"; HERE="$(cd "$(dirname "$0")/.." && pwd)"
for k in 1 2 3; do
  [ -f "$SRC/patch$k.diff" ] || continue
  N=$((k + OFF)); DEST="$HERE/seeded/$P-$N"; mkdir -p "$DEST"
  cp "$SRC/patch$k.diff" "$DEST/patch.diff"; cp "$SRC/demo$k.py" "$DEST/demo.py"; cp "$SRC/meta$k.json" "$DEST/agent_meta.json" 2>/dev/null
  WT="$(mktemp -d /tmp/wt-seed.XXXXXX)"; rmdir "$WT"; git -C /repo worktree add -q --detach "$WT" HEAD
  (cd "$WT" && PYTHONPATH="$WT" timeout 300 /venv/bin/python "$DEST/demo.py" "$WT" >/dev/null 2>&1); CLEAN=$?
  if git -C "$WT" apply "$DEST/patch.diff" 2>/dev/null; then APPLIES=yes; else APPLIES=no; fi
  (cd "$WT" && PYTHONPATH="$WT" timeout 300 /venv/bin/python "$DEST/demo.py" "$WT" >/dev/null 2>&1); CHANGED=$?
  if "$HERE/run_baseline.sh" "$WT" >/dev/null 2>&1; then BASE=green; else BASE=RED; fi
  git -C /repo worktree remove --force "$WT"
  echo "$P-$N applies=$APPLIES demo_clean_rc=$CLEAN demo_changed_rc=$CHANGED baseline=$BASE"
  echo "{\"applies\": \"$APPLIES\", \"demo_clean_rc\": $CLEAN, \"demo_changed_rc\": $CHANGED, \"baseline_with_change\": \"$BASE\", \"repo_head\": \"$(git -C /repo rev-parse --short HEAD)\"}" > "$DEST/verified.json"
done

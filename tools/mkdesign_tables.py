#!/venv/bin/python
"""Emit the generated tables of DESIGN.md section 8 (repairs, known findings, seeded changes, mutants)
to notes/_tables.md.  The prose of section 8 is written by hand; this keeps the tables honest."""
import glob
import json
import os
import re
import subprocess

HERE = os.path.dirname(os.path.dirname(os.path.abspath(__file__)))
kf = json.load(open(os.path.join(HERE, "known_findings.json")))["findings"]
out = []

# ---- repairs --------------------------------------------------------------------------
log = subprocess.run(["git", "-C", "/repo", "log", "--reverse", "--format=%h\t%s", "1bc5287..HEAD"],
                     capture_output=True, text=True).stdout.strip().splitlines()
by_commit = {}
for e in kf:
    if e.get("status") == "fixed":
        by_commit.setdefault(e["commit"], set()).add(e["property"])
out.append("### Repairs committed to /repo (`fix:` commits, oldest first)\n")
out.append("| commit | properties whose check found it | subject |")
out.append("|---|---|---|")
for line in log:
    h, subj = line.split("\t", 1)
    props = sorted(p for c, ps in by_commit.items() if c.startswith(h) or h.startswith(c) for p in ps)
    out.append("| %s | %s | %s |" % (h, ", ".join(props) or "-", subj.replace("|", "\\|")))
out.append("")

# ---- known findings ------------------------------------------------------------------
out.append("### Known findings (listed in known_findings.json, status=known)\n")
out.append("| property | bucket key | what fails |")
out.append("|---|---|---|")
seen = set()
for e in kf:
    if e.get("status", "known") == "known" and (e["property"], e["key"]) not in seen:
        seen.add((e["property"], e["key"]))
        out.append("| %s | `%s` | %s |" % (e["property"], e["key"], e.get("what", "").replace("|", "\\|")[:400]))
out.append("")

# ---- seeded changes ------------------------------------------------------------------
out.append("### Seeded changes (written by fresh sub-agents from the property text alone)\n")
out.append("| id | change | needs | result | notes |")
out.append("|---|---|---|---|---|")
for d in sorted(glob.glob(os.path.join(HERE, "seeded", "C*-*"))):
    mp = os.path.join(d, "meta.json")
    if not os.path.exists(mp):
        out.append("| %s | (not run yet) | | | |" % os.path.basename(d))
        continue
    m = json.load(open(mp))
    cell = lambda s, n: (s or "").replace("|", "\\|").replace("\n", " ")[:n]
    out.append("| %s | %s | %s | %s | %s |" % (m["id"], cell(m.get("summary"), 260), cell(m.get("needs_to_manifest") if isinstance(m.get("needs_to_manifest"), str) else json.dumps(m.get("needs_to_manifest")), 220),
                                         m.get("check_result"), cell(m.get("check_notes"), 330)))
out.append("")

# ---- mutants ------------------------------------------------------------------------------
out.append("### Own sensitivity mutants per property (mutants/*.patch; kill tables in notes/Cxx.md)\n")
out.append("| property | mutants |")
out.append("|---|---|")
per = {}
for f in sorted(glob.glob(os.path.join(HERE, "mutants", "C*.patch"))):
    b = os.path.basename(f)[:-6]
    per.setdefault(b[:3], []).append(b[4:])
for p in sorted(per):
    out.append("| %s | %d: %s |" % (p, len(per[p]), ", ".join(per[p])))
out.append("")
open(os.path.join(HERE, "notes", "_tables.md"), "w").write("\n".join(out))
print("written notes/_tables.md (%d lines)" % len(out))


def refresh_design():
    """Replace the four generated tables inside DESIGN.md section 8 by the current ones."""
    path = os.path.join(HERE, "DESIGN.md")
    text = open(path).read()
    tables = open(os.path.join(HERE, "notes", "_tables.md")).read().split("### ")
    for title in ("Repairs committed", "Known findings", "Seeded changes", "Own sensitivity"):
        fresh = [t for t in tables if t.startswith(title)][0].rstrip() + "\n"
        start = text.index("#### " + title)
        lines = text[start:].split("\n")
        # the block = heading, blank line, table rows; ends at the first blank line after a table row
        end_line = None
        seen_row = False
        for i, ln in enumerate(lines):
            if ln.startswith("|"):
                seen_row = True
            elif seen_row and ln.strip() == "":
                end_line = i
                break
        end = start + len("\n".join(lines[:end_line])) + 1
        text = text[:start] + "#### " + fresh + text[end:]
    open(path, "w").write(text)
    print("DESIGN.md tables refreshed")


if __name__ == "__main__":
    refresh_design()

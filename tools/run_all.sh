#!/bin/bash
# tools/run_all.sh [tier] props...  : run checks sequentially, one summary line each (full logs in /tmp/verif-runall/)
TIER="${TIER:-quick}"; mkdir -p /tmp/verif-runall
cd "$(dirname "$0")/.."
for P in "$@"; do
  S=$(date +%s)
  ./check $P --tier $TIER > /tmp/verif-runall/$P.log 2>&1; RC=$?
  E=$(( $(date +%s) - S ))
  echo "$P rc=$RC ${E}s seed=${VERIF_SEED:-1} $(grep -c '^VIOLATION' /tmp/verif-runall/$P.log) violations, $(grep -c '^KNOWN-FINDING' /tmp/verif-runall/$P.log) known; $(grep -E '^(HARNESS|INCONCLUSIVE)' /tmp/verif-runall/$P.log | head -2 | tr '\n' ' ')"
done

#!/bin/bash
# tools/seed_run_all.sh props... : run each seeded change of the given properties against its property's quick check
cd "$(dirname "$0")/.."
for P in "$@"; do
  for D in seeded/$P-*; do
    [ -f "$D/patch.diff" ] || continue
    R=$(tools/mutant_run.sh "$D/patch.diff" $P 2>&1 | grep -E "^(KILLED|SURVIVED|ERROR|PATCH)" | head -1)
    echo "$(basename $D): $R"
  done
done

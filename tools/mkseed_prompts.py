import json, os, subprocess, glob
props = {}
for l in open('/verif/properties.jsonl'):
    d = json.loads(l); props[d['id']] = d
R4 = ("This is a FOURTH round: earlier changes for this property are listed at the end — yours must use different mechanisms and different code sites. "
      "Earlier rounds were all detected by the framework, so aim for what is HARD to detect with randomly generated inputs: "
      "(a) defects that show only for an input feature that test generators typically leave out (a rarely used but documented command, option, "
      "environment, argument form, package or configuration key that is nevertheless within the property's quantifier), "
      "(b) a wrong result that is plausible-looking (off by one position, a neighbour's value, a stale but well-formed value) rather than a crash or obviously broken output, "
      "(c) a defect that needs THREE conditions together, or a specific order of two operations plus a particular value, "
      "(d) a defect in how two anchored mechanisms of the property interact, "
      "(e) a defect that affects only a secondary observable named in the statement (e.g. the source text, the remaining input, the second renderer, the re-run). ")
for pid in sorted(props):
    wt = '/tmp/seed4-%s' % pid
    out = wt + '-out'
    os.makedirs(out, exist_ok=True)
    if not os.path.exists(wt):
        subprocess.run(['git', '-C', '/repo', 'worktree', 'add', '--detach', wt, 'HEAD'], check=True, capture_output=True)
    base = open('/tmp/seed3-%s.prompt.txt' % pid).read()
    base = base.replace('seed3-%s' % pid, 'seed4-%s' % pid)
    i = base.index('This is a THIRD round')
    j = base.index('Task: produce TWO independent changes')
    base = base[:i] + R4 + base[j:]
    # earlier list
    k = base.index('Earlier changes for this property')
    earlier = []
    for d in sorted(glob.glob('/verif/seeded/%s-*' % pid)):
        m = json.load(open(d + '/meta.json'))
        earlier.append('- ' + (m.get('summary') or '').replace('\n', ' '))
    base = base[:k] + 'Earlier changes for this property (do NOT repeat these mechanisms or sites):\n' + '\n'.join(earlier) + '\n'
    open('/tmp/seed4-%s.prompt.txt' % pid, 'w').write(base)
    open('/tmp/seed4-%s.property.txt' % pid, 'w').write(open('/tmp/seed3-%s.property.txt' % pid).read())
print('ok')

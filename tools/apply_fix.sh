#!/bin/bash
# tools/apply_fix.sh <patch> <commit message file or string>  : apply a reviewed repair to /repo as its own "fix:" commit
PATCH="$(readlink -f "$1")"; MSG="$2"
cd /repo || exit 2
if ! git apply --check "$PATCH" 2>/dev/null; then
  if ! git apply --3way "$PATCH"; then echo "CONFLICT $PATCH"; git checkout -- . ; exit 1; fi
else
  git apply "$PATCH" || exit 1
fi
git add -A plasTeX
git commit -q -m "$MSG" && echo "committed $(git rev-parse --short HEAD) $(basename "$PATCH")"

#!/venv/bin/python
"""Regenerates /verif/MANIFEST.json from the table below and validates it against
the schema.  Run after adding a property module."""
import glob
import json
import os
import sys

HERE = os.path.dirname(os.path.dirname(os.path.abspath(__file__)))
sys.path.insert(0, os.path.join(HERE, ".deps"))

CHECKS = {
    # id: (engine, category, technique, text, note, design_ref)
    "C15": ("hypothesis-stateful",
            "exploration",
            "model-based stateful property testing (Hypothesis RuleBasedStateMachine) against a non-deterministic reference model of the template grammar",
            "Random request histories over generated templates are compared, name for name, with an independent reference generator; duplicates, reserved names, wrong order, wrong padding/word limit/charsub, missing error and non-termination are all decided per step. Exploration only: held on the generated histories.",
            "Trusted: models/fnmodel.py (reading of the docstring grammar and the statement); the two namespace policies accepted where the statement is silent.",
            "DESIGN.md C15"),
    "C17": ("hypothesis+fork-differential",
            "exploration",
            "differential property testing: generated sequences A1..Ak;B, B alone in a fresh fork vs B after A*, plus a class-attribute snapshot monitor",
            "Generated document sequences (registers, classes, packages, math/lists left open, \\openout, ...) are processed in one interpreter and B's canonicalised tree (and HTML5 files in the 'rendered' stream) is compared with B processed alone in a fresh fork; a monitor diffs every class attribute of every plasTeX class against its import-time value after every document. Exploration: held on the generated sequences, except the listed known finding.",
            "Trusted: fork of a process that imported plasTeX but processed nothing is a 'fresh interpreter'; id canonicalisation; '@' caches and Node._mixed_ book-keeping are not parsing state. Known finding: article class patches shared index/bibliography classes (known_findings.json).",
            "DESIGN.md C17"),
}

PENDING_REASON = "check not built yet in this session (planned, see DESIGN.md section 7); nothing is claimed for it"


def main():
    props = [json.loads(l) for l in open(os.path.join(HERE, "properties.jsonl"))]
    ids = [p["id"] for p in props]
    checks = []
    na = []
    for pid in ids:
        have = glob.glob(os.path.join(HERE, "props", pid + "_*.py"))
        if pid in CHECKS and have:
            eng, cat, tech, text, note, ref = CHECKS[pid]
            checks.append({
                "property_id": pid,
                "quick_cmd": "./check %s --tier quick" % pid,
                "thorough_cmd": "./check %s --tier thorough" % pid,
                "evidence_file": "evidence/%s.json" % pid,
                "replay_cmd_template": "./check %s --replay {path}" % pid,
                "engine": eng,
                "level_claimed": {"category": cat, "text": text, "design_ref": ref},
                "level_note": note,
                "technique": tech,
            })
        else:
            na.append({"property_id": pid, "reason": NA.get(pid, PENDING_REASON)})
    man = {
        "version": 1,
        "setup_cmd": "./setup.sh",
        "hooks": {
            "guard": "PLASTEX_VERIF",
            "enable": "no source hooks are needed: every observation point is a public attribute; ./check exports PLASTEX_VERIF=1 for uniformity",
            "baseline_off_cmd": "cd /repo && /venv/bin/python -m pytest -ra -q -p no:cacheprovider --timeout=900 --continue-on-collection-errors",
            "source_commits": [],
            "add_only": True,
        },
        "engines": [
            {"name": "vlib", "path": "vlib/", "serves_properties": [c["property_id"] for c in checks],
             "kind_free_text": "runner: 16 forked workers x Hypothesis (seeded from VERIF_SEED), survey pass with bucketing, Hypothesis shrink pass per bucket, exhaustive enumerations, evidence and replay writer"},
            {"name": "models", "path": "models/", "serves_properties": [c["property_id"] for c in checks],
             "kind_free_text": "independent reference models (pure Python, no plasTeX import) used as oracles"},
        ],
        "checks": checks,
        "notes": "Known findings and fixed defects: known_findings.json. Fixed-defect repros are replayed by every run. VERIF_REPO=<dir> points the checks at a scratch copy of the repository (used only for sensitivity runs).",
        "not_applicable": na,
    }
    path = os.path.join(HERE, "MANIFEST.json")
    with open(path, "w") as f:
        json.dump(man, f, indent=1)
        f.write("\n")
    try:
        import jsonschema
        schema = json.load(open("/root/.vp/MANIFEST.schema.json"))
        jsonschema.validate(man, schema)
        print("MANIFEST.json valid: %d checks, %d not_applicable" % (len(checks), len(na)))
    except ImportError:
        print("MANIFEST.json written (jsonschema not available, not validated)")


NA = {}

if __name__ == "__main__":
    main()

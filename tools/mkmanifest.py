#!/venv/bin/python
"""Regenerates /verif/MANIFEST.json from the table below and validates it against
the schema.  Run after adding a property module."""
import glob
import json
import os
import sys

HERE = os.path.dirname(os.path.dirname(os.path.abspath(__file__)))
sys.path.insert(0, os.path.join(HERE, ".deps"))

CHECKS = {
    # id: (engine, category, technique, text, note, design_ref)
    "C15": ("hypothesis-stateful",
            "exploration",
            "model-based stateful property testing (Hypothesis RuleBasedStateMachine) against a non-deterministic reference model of the template grammar",
            "Random request histories over generated templates are compared, name for name, with an independent reference generator; duplicates, reserved names, wrong order, wrong padding/word limit/charsub, missing error and non-termination are all decided per step. Exploration only: held on the generated histories.",
            "Trusted: models/fnmodel.py (reading of the docstring grammar and the statement); the two namespace policies accepted where the statement is silent.",
            "DESIGN.md C15"),
    "C17": ("hypothesis+fork-differential",
            "exploration",
            "differential property testing: generated sequences A1..Ak;B, B alone in a fresh fork vs B after A*, plus a state snapshot monitor (class attributes, module-level containers, os.environ, working directory)",
            "Generated document sequences (registers, classes, packages, math/lists left open, \\openout, file lookups, bibliographies sharing keys, ...; documents given as strings or as files in their own directory) are processed in one interpreter and B's canonicalised tree (and HTML5 files in the 'rendered' stream) is compared with B processed alone in a fresh fork; a monitor diffs every class attribute of every plasTeX class, the module-level containers, os.environ and the working directory against their import-time values after every document; a complete enumeration of ordered fragment pairs runs beside the random sequences. Exploration: held on the generated sequences, except the listed known finding.",
            "Trusted: fork of a process that imported plasTeX but processed nothing is a 'fresh interpreter'; id canonicalisation; '@' caches and Node._mixed_ book-keeping are not parsing state. Known finding: article class patches shared index/bibliography classes (known_findings.json).",
            "DESIGN.md C17"),

    "C01": ("hypothesis+atheris+exhaustive",
            "exploration",
            "differential property testing against an independent TeX82 lexer (reference model); Hypothesis strings x catcode tables, complete enumeration of short strings, atheris coverage-guided fuzzing",
            "Generated strings over an adversarial alphabet, tokenized under default/@-letter/verbatim/randomly assigned category tables (built through the real Context.catcode API), must give exactly the (catcode, text) stream of models/texlex.py (tex.web 343-356), with class/category agreement, termination and no exception; plus all strings of length <= 4 (<= 5 thorough) over 9 characters x 2 tables exhaustively and an atheris campaign with the oracle inside the target. Exploration (the short-string sub-run is complete).",
            "Trusted: models/texlex.py as a transcription of TeX82's lexical rules; the normal form of DESIGN.md C01 (no endlinechar insertion, adjacent \\par collapsed, active chars as documented, ignored characters dropped by the reader). Three listed known findings (line structure) are excluded by construction.",
            "DESIGN.md C01"),
    "C04": ("hypothesis+stateful+exhaustive",
            "exploration",
            "model-based property testing: generated balanced programs run against a TeX save-stack scoping model; Hypothesis RuleBasedStateMachine and a complete enumeration on the Context API against a stack-of-frames model",
            "Source level: generated balanced nestings of 15 group kinds (braces, \\begingroup, LaTeX and \\newenvironment environments, math, cells, macro arguments) with local/global definitions, \\let, catcodes, counters, \\newif and probes; expected visible text known by construction from a save-stack model; context depth back to initial. API level: random histories (<= 40 steps) and every sequence of length <= 5 (<= 6 thorough) over a 15-op alphabet, invariants (look-up identity, membership, get_let, whichCode, depth, catcode-table aliasing) after every step. Exploration; the API enumeration is complete for its bound.",
            "Trusted: models/scopemodel.py (TeX save-stack semantics, tex.web 268-284). Known findings listed: \\global prefix is a no-op, \\newcommand in a group is global, character \\let resolved by the tokenizer (excluded by construction).",
            "DESIGN.md C04"),
    "C06": ("hypothesis-stateful+exhaustive",
            "exploration",
            "model-based stateful property testing (RuleBasedStateMachine) against a list-of-lists tree model, plus complete enumeration of short edit sequences",
            "Random DOM edit histories (<= 40 steps: append/insert/insertBefore/After/replaceChild/removeChild/pop/item assignment/extend/fragments/normalize/cloneNode/attribute-held nodes, indices -len-1..len+1) and every sequence of length <= 3 (quick; <= 4 thorough) over a small pool are applied to plasTeX.DOM and to the model; after every step child order, parent links, ownerDocument, siblings, first/last child, textContent, getElementsByTagName, compareDocumentPosition, clone disjointness and normalize idempotence are compared over every live node. Exploration; enumeration complete for its bound.",
            "Trusted: models/dommodel.py (Python list semantics, fragment = splice); the two documented parent conventions for fragment children; a node that no container lists names no parent; getElementsByTagName is called with single names, lists and tuples. Deviation from the design: length-5 enumeration is infeasible (branching 60-240), bounds are 3/4.",
            "DESIGN.md C06"),
    "C07": ("hypothesis",
            "exploration",
            "property-based testing over a generated LaTeX document grammar with unique marker words; oracle = predictions computed from the generated AST (marker order, tree well-formedness predicates, charsub rules)",
            "Generated article/book/report documents (sectioning, paragraphs, fonts, lists, tabulars, floats, math, verbatim, theorems, footnotes, labels) are parsed; a depth-first walk (arguments before children) must meet every marker exactly once in source order, every node exactly once with a parent chain through its actual containers, sectioning units must nest by level, paragraphs never nest, and quote/dash substitutions appear in running text and never in verbatim or mathematics. Exploration.",
            "Trusted: models/latexdoc.py (AST -> source + predictions, no plasTeX import). Clause (5): after the documented read-only accessors (title, tocEntry, fullTitle, fullTocEntry, ref, id, captionName, textContent) have been read on every element the tree predicates must still hold. Parent-chain oracle (2) is reached only by a two-site mutant (single-site ones are equivalent: parent links are set redundantly).",
            "DESIGN.md C07"),
    "C08": ("hypothesis+exhaustive",
            "exploration",
            "property-based testing against a LaTeX counter machine run over the generated AST; exhaustive comparison of number representations with a table-driven converter",
            "Generated documents mixing numbered constructs, \\setcounter/\\addtocounter/\\stepcounter, theorem declarations, \\appendix, secnumdepth: node.ref text of every numbered node, enumerate item positions and final counter values must equal the model's. roman/Roman/arabic for 1..4999 and alph/Alph for 1..26 are compared exhaustively (also through a parsed document). Exploration; the representation sub-run is complete.",
            "Trusted: models/latexdoc.py counter machine (LaTeX2e rules per class). A second stream narrows the grammar to headings, equation/eqnarray rows (with \\nonumber) and counter commands; counters may be declared within others, in the preamble or in the body. Known finding listed: \\item[x] in enumerate steps the counter (excluded by construction). Units beyond secnumdepth are surveyed, not asserted.",
            "DESIGN.md C08"),
    "C09": ("hypothesis",
            "exploration",
            "property-based testing: label->object map predicted from the AST, identity of idref targets, plus a metamorphic relation (references moved before/after all labels give the same map)",
            "Generated documents with labels on sections, equations, items, captions, theorems and references before/after/inside, dangling references, \\cite/\\bibitem: every ref's idref must be (identity) the node the model designates, its id the label, its number the model's; dangling references resolve to no node; ids distinct; moving all references before or after all labels changes nothing. Exploration.",
            "Trusted: models/latexdoc.py label model (LaTeX \\@currentlabel scoping). Known finding listed: a label inside an unnumbered list item attaches to the item (excluded by construction); labels after an unnumbered unit are not asserted.",
            "DESIGN.md C09"),
    "C10": ("hypothesis",
            "exploration",
            "property-based testing: list and tabular shapes (items, rows, cells, spans, borders per boundary, no leak between cells) predicted from the generated AST",
            "Generated nested lists and tabulars (column specs with | p{} @{} *{n}{}, \\multicolumn, \\hline/\\cline, empty cells, nested tabulars, math, groups, a \\def probe for leaks): item sequence and nesting, rows/cells/colspans, span sums, and borders compared per boundary with the model. Exploration.",
            "Trusted: models/shapemodel.py. Known findings listed: \\hline next to a shorter row, ungrouped font declaration in an item swallows following items (excluded by construction).",
            "DESIGN.md C10"),
    "C12": ("hypothesis",
            "exploration",
            "metamorphic property testing: hostile-leaf document vs benign twin rendered by HTML5/XHTML, parsed with html.parser; identical element skeleton and decoded text = leaf",
            "Documents whose text positions hold markup-hostile leaves (< > & quotes, tag-, entity- and script-like strings, non-ASCII) are rendered with HTML5 default/minimal and XHTML; the parsed event stream must equal the benign twin's with each marker replaced by the decoded hostile leaf (text nodes and attribute values); with escape-high-chars the bytes are pure ASCII and the decoded text unchanged under utf-8/ascii/latin-1. Exploration.",
            "Trusted: models/renderdoc.py + models/renderrun.py (each case rendered in a fresh fork), html.parser. Known finding listed: image-placeholder regex rewrites text like &lt-width; (excluded by construction).",
            "DESIGN.md C12"),
    "C13": ("hypothesis",
            "exploration",
            "property-based testing against an exact file-placement model over split level x filename template x bad-chars x renderer, plus a rerun under another PYTHONHASHSEED",
            "Generated documents x split-level -10..6 x filename templates x bad-chars x three renderer/theme combinations: number of files = file-producing units, each body marker exactly once in the file of its nearest file-producing ancestor and in document order, footnotes at the end of their file, names distinct, clean and equal to the fnmodel prediction, identical names/placement on a fresh-interpreter rerun with another hash seed (1/8 of the cases). Exploration.",
            "Trusted: models/renderdoc.py placement model, models/fnmodel.py.",
            "DESIGN.md C13"),
    "C14": ("hypothesis",
            "exploration",
            "property-based testing: href/id closure over all produced files, id uniqueness, ref number/target file vs model, toc reachability",
            "Generated documents with cross-file labels/refs, footnotes, index, bibliography x split level x toc-depth x toc-non-files x base-url x three renderer/theme combinations: every internal href names a produced file and an existing id, ids unique per file, a rendered \\ref shows the model number and points into the file holding its target, every file reachable from the start page through toc links. Exploration.",
            "Trusted: models/renderdoc.py (counter and placement model), html.parser.",
            "DESIGN.md C14"),
    "C16": ("hypothesis+exhaustive",
            "exploration",
            "property-based testing against a layered-dictionary model through the real client entry point; complete option x source grid",
            "Every option of every section (59 options, 9 sections, enumerated from the live config incl. html5) x type-appropriate values x layerings of 0-3 generated INI files and an argv, run through plasTeX.client.main with run() stubbed; stored value and interpolated read-back compared with models/cfgmodel.py. The grid option x {default, file, file2-over-file1, argv, file+argv} x value samples (1147 cells) is enumerated completely. Exploration; the grid is complete.",
            "Trusted: models/cfgmodel.py; documented defaults are read from the live config as data. Every option is read back through section[key] and section.get(key), after the last layer and (stream stepwise) after every layer.",
            "DESIGN.md C16"),
    "C18": ("hypothesis",
            "exploration",
            "property-based testing: validity predicates (paths, merged lines, page lists, collation order, groups, column partition) against an independent makeindex-style model",
            "5-40 generated \\index entries (1-3 levels, sort@display, |see, |textbf, quoted specials, tied and near-miss keys) scattered over article/book documents x index-columns 1..4: set of paths = entries' paths with no duplicate sibling line, page list per path = occurrences in document order, sibling sort keys non-decreasing under the configured collator (read as data), groups by initial, columns an order-preserving partition. Exploration.",
            "Trusted: models/idxmodel.py; the collation function is environment data (pyuca here lacks the expected collator: str.lower-style fallback).",
            "DESIGN.md C18"),
    "C19": ("hypothesis+exhaustive",
            "exploration",
            "property-based testing: boolean expression trees and loops evaluated by a reference interpreter (truth value known by construction); complete grid of \\not placements",
            "Generated ifthen programs (six atom kinds, \\and/\\or left-to-right, \\not anywhere, redundant parentheses, upper-case aliases; branches with markers and side effects; \\whiledo 0-6 iterations, nested): event sequence and final state must equal models/ifthenmodel.py, math-disable switches restored. All 8154 cells of the \\not-placement x connective x parenthesisation grid for <= 3 operands are enumerated. Exploration; the grid is complete.",
            "Trusted: models/ifthenmodel.py (ifthen package semantics as stated in C19). Knife-edge length comparisons and boolean-name collisions are surveyed, not asserted.",
            "DESIGN.md C19"),
    "C20": ("hypothesis+stateful+exhaustive-faults",
            "fault_enumeration",
            "fault injection: every truncation point and every single-bit flip of saved .paux files, generated multi-byte corruptions and foreign files, save/corrupt/restore histories; round-trip oracle",
            "Label sets rendered under the real HTML5/XHTML renderers; round trip (same number/title/id/url per renderer); for every saved file every prefix, every single-bit flip (files <= 450 B), generated splices/opcode-aware edits/foreign pickles: restore never raises, yields a subset of the saved labels unchanged, the following persist does not raise and leaves a loadable complete file that round-trips; state-machine histories over two renderers. ~100k faults per quick run.",
            "Trusted: models/pauxmodel.py; the round trip also covers renderers named by package path, a second render of the same document object, several directories, and a document whose own label is named like a restored one; corrupted pickles are loaded only under resource limits; adversarial pickles are out of scope (statement: interrupted writes and bit rot).",
            "DESIGN.md C20"),

    "C11": ("hypothesis+atheris",
            "exploration",
            "round-trip property testing: verbatim bodies must come back character for character (Hypothesis + atheris), reconstructed math source must equal the written formula token for token with user macros expanded by an independent expander",
            "Verbatim/verbatim*/\\verb/\\verb* bodies built from adversarial fragments (partial end markers, %, ^^, braces, blank runs, non-ASCII; the end delimiter destroyed by construction) with every legal \\verb delimiter: textContent == body exactly and the text after the construct is processed normally. Formulas of a depth<=4 grammar in 12 placements with 0-3 user macros: tokens(node.source) == tokens(expected) blanks aside, and the same for the \\( \\) / \\[ \\] payloads of HTML5 output after unescaping and the documented < -> \\lt mapping. Exploration.",
            "Trusted: models/mathtok.py (token splitter and parameter-substitution expander, no plasTeX import); plasTeX's documented delimiters for reconstructed math; identity expectation for verbatim bodies incl. framing newlines.",
            "DESIGN.md C11"),

    "C05": ("hypothesis",
            "exploration",
            "property-based testing: calls rendered from generated values against generated signatures (expected binding known by construction); numeric literals against an exact-arithmetic transcription of TeX's scan_int/scan_dimen/scan_glue",
            "Generated signatures (1-6 arguments, every delimiter kind and type, *, =) x conforming calls rendered from generated values (nested groups/brackets, brackets hidden in braces, optionals present/absent, continuation text): every name bound to its value, argSource and the exact remaining text checked, parameter-enable switch balanced; the same through TeX.readArgument directly. Structurally generated integer/dimension/glue literals (sign runs, four radices, character constants, fractions, 11 units, true, fil orders, registers) followed by arbitrary tokens compared with models/texnum.py (integers and fil order exactly, dimensions within 2 sp of TeX's or of the exact value) including what is left unconsumed. Exploration.",
            "Trusted: models/texnum.py (tex.web 102-107, 404-462 in integer/Fraction arithmetic); em/ex estimates and register defaults read from plasTeX as data. Seven known findings listed (number look-ahead executes the next token, \\value as digits, integer registers as coefficients, macro-produced keywords, 'fil l'), excluded by construction.",
            "DESIGN.md C05"),

    "C02": ("hypothesis+exhaustive",
            "exploration",
            "differential property testing: generated macro programs, and a complete product of boundary parameter texts x arguments x uses, evaluated by plasTeX and by an independent mini-TeX expander (reference model)",
            "Grammar-built, recursion-free programs (\\def/\\gdef with 0-9 delimited/undelimited parameters, ## nesting, \\newcommand/\\renewcommand with optional arguments, \\let, \\csname, \\expandafter, groups) inside the stated normal form: the visible text (whitespace removed) must equal the output of models/minitex.py on the same source, and the context depth must be restored. A second stream enumerates 10 parameter texts x 14 boundary arguments ({} , {{}}, empty, groups around/before/after tokens) x 9 uses completely. Exploration.",
            "Trusted: models/minitex.py (own lexer + tex.web 391-399 parameter matching, save stack), self-tested on TeXbook examples. Normal form of DESIGN.md C02. Known findings listed: character \\let aliases are resolved by the tokenizer (excluded by construction); brace characters inside \\csname raise (combinations counted, not judged).",
            "DESIGN.md C02"),
    "C03": ("hypothesis",
            "exploration",
            "property-based testing with two independent oracles that must agree (AST-level branch predictor and the mini-TeX evaluator); side-effect probes in every branch",
            "Generated nestings (depth <= 4) of \\iftrue/\\iffalse/\\ifnum/\\ifdim/\\ifodd/\\ifcase (selectors -2..arms+2)/\\ifx/\\ifdefined/\\newif switches, in groups, macro bodies and arguments, every branch carrying a unique marker and a counter probe: plasTeX's text, all probe counters, absence of exceptions and context depth must equal the prediction. Exploration.",
            "Trusted: the AST predictor and models/minitex.py (they are cross-checked on every case; a disagreement is a harness error). Operand normal form of DESIGN.md C03. Known finding listed: \\newif setters are not local to a group (\\global being a no-op, a repair would break \\global\\footrue).",
            "DESIGN.md C03"),
}

PENDING_REASON = "check not built yet in this session (planned, see DESIGN.md section 7); nothing is claimed for it"


def main():
    props = [json.loads(l) for l in open(os.path.join(HERE, "properties.jsonl"))]
    ids = [p["id"] for p in props]
    checks = []
    na = []
    for pid in ids:
        have = glob.glob(os.path.join(HERE, "props", pid + "_*.py"))
        if pid in CHECKS and have:
            eng, cat, tech, text, note, ref = CHECKS[pid]
            checks.append({
                "property_id": pid,
                "quick_cmd": "./check %s --tier quick" % pid,
                "thorough_cmd": "./check %s --tier thorough" % pid,
                "evidence_file": "evidence/%s.json" % pid,
                "replay_cmd_template": "./check %s --replay {path}" % pid,
                "engine": eng,
                "level_claimed": {"category": cat, "text": text, "design_ref": ref},
                "level_note": note,
                "technique": tech,
            })
        else:
            na.append({"property_id": pid, "reason": NA.get(pid, PENDING_REASON)})
    man = {
        "version": 1,
        "setup_cmd": "./setup.sh",
        "hooks": {
            "guard": "PLASTEX_VERIF",
            "enable": "no source hooks are needed: every observation point is a public attribute; ./check exports PLASTEX_VERIF=1 for uniformity",
            "baseline_off_cmd": "cd /repo && /venv/bin/python -m pytest -ra -q -p no:cacheprovider --timeout=900 --continue-on-collection-errors",
            "source_commits": [],
            "add_only": True,
        },
        "engines": [
            {"name": "vlib", "path": "vlib/", "serves_properties": [c["property_id"] for c in checks],
             "kind_free_text": "runner: 16 forked workers x Hypothesis (seeded from VERIF_SEED), survey pass with bucketing, Hypothesis shrink pass per bucket, exhaustive enumerations, evidence and replay writer"},
            {"name": "models", "path": "models/", "serves_properties": [c["property_id"] for c in checks],
             "kind_free_text": "independent reference models (pure Python, no plasTeX import) used as oracles"},
        ],
        "checks": checks,
        "notes": "Known findings and fixed defects: known_findings.json. Fixed-defect repros are replayed by every run. VERIF_REPO=<dir> points the checks at a scratch copy of the repository (used only for sensitivity runs).",
        "not_applicable": na,
    }
    path = os.path.join(HERE, "MANIFEST.json")
    with open(path, "w") as f:
        json.dump(man, f, indent=1)
        f.write("\n")
    try:
        import jsonschema
        schema = json.load(open("/root/.vp/MANIFEST.schema.json"))
        jsonschema.validate(man, schema)
        print("MANIFEST.json valid: %d checks, %d not_applicable" % (len(checks), len(na)))
    except ImportError:
        print("MANIFEST.json written (jsonschema not available, not validated)")


NA = {}

if __name__ == "__main__":
    main()

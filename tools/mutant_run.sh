#!/bin/bash
# tools/mutant_run.sh <patch-file> <prop> [<prop>...]   [env BASELINE=1 to also run the repo tests]
# Applies a patch to a scratch worktree of /repo (outside /repo and /verif), runs the quick checks
# against it with VERIF_REPO, prints KILLED/SURVIVED per property, removes the worktree.
PATCH="$(readlink -f "$1")"; shift
HERE="$(cd "$(dirname "$0")/.." && pwd)"
WT="$(mktemp -d /tmp/wt-mut.XXXXXX)"
rmdir "$WT"
git -C /repo worktree add -q --detach "$WT" HEAD || exit 2
cleanup() { git -C /repo worktree remove --force "$WT" 2>/dev/null; rm -rf "$WT"; }
trap cleanup EXIT
if ! git -C "$WT" apply "$PATCH"; then echo "PATCH-DOES-NOT-APPLY $PATCH"; exit 2; fi
if [ -n "$BASELINE" ]; then
  if "$HERE/run_baseline.sh" "$WT" > "$WT.base" 2>&1; then echo "baseline: green"; else echo "baseline: RED"; cat "$WT.base"; fi
  rm -f "$WT.base"
fi
for P in "$@"; do
  OUT="$(cd "$HERE" && VERIF_REPO="$WT" ./check "$P" --tier quick --no-evidence ${WORKERS:+--workers $WORKERS} ${SCALE:+--scale $SCALE} ${STREAMS:+--streams $STREAMS} 2>&1)"
  RC=$?
  if [ $RC -eq 1 ] && echo "$OUT" | grep -q "^VIOLATION property=$P"; then
    echo "KILLED   $P $(basename "$PATCH")  [$(echo "$OUT" | grep '^bucket' | head -3 | tr '\n' ' ')]"
  elif [ $RC -eq 0 ]; then
    echo "SURVIVED $P $(basename "$PATCH")"
  else
    echo "ERROR($RC) $P $(basename "$PATCH")"; echo "$OUT" | tail -5
  fi
done

"""Runner: survey pass over all streams of a property on W forked workers,
collect failures by bucket, shrink each unlisted bucket with Hypothesis, write
the evidence file and the replay files, print VIOLATION / KNOWN-FINDING lines.

Exit codes: 0 held (possibly KNOWN-FINDING lines), 1 VIOLATION, 2 harness error
or inconclusive (never printed as a violation).
"""
import argparse
import glob
import importlib
import json
import multiprocessing
import os
import re
import shutil
import signal
import sys
import tempfile
import time
import traceback

from . import core
from .core import Result, HarnessTimeout, canonical, fingerprint

W_DEFAULT = min(16, os.cpu_count() or 1)


# --------------------------------------------------------------------------
# per-process collector (lives in a forked worker)
# --------------------------------------------------------------------------

class TargetHit(Exception):
    """Raised in shrink mode when the targeted bucket fails again."""


class Collector(object):
    def __init__(self, stream, mode="survey", target=None, stop_at=None):
        self.stream = stream
        self.mode = mode
        self.target = target
        self.stop_at = stop_at          # wall-clock end of a shrink pass
        self.evaluations = 0
        self.excluded = {}
        self.features = {}
        self.nontrivial = set()
        self.seen = set()
        self.failures = {}              # key -> dict(count, first, smallest, detail)
        self.hangs = []
        self.harness = []
        self.samples = {}               # fp -> case (bounded)
        self.first = None
        self.last = None
        self.best = None                # smallest failing case in shrink mode
        self.best_detail = None

    # -- evaluation of one case ------------------------------------------
    def judge(self, case):
        """Evaluate one complete case through stream.check under the watchdog."""
        res = guarded(self.stream.check, case, self.stream.timeout)
        self.record(case, res)
        return res

    def record(self, case, res):
        if self.stop_at is not None and time.time() > self.stop_at:
            raise ShrinkBudgetOver()
        fp = fingerprint(case)
        self.evaluations += 1
        for f in res.features:
            self.features[f] = self.features.get(f, 0) + 1
        if res.excluded:
            self.excluded[res.key] = self.excluded.get(res.key, 0) + 1
            return
        if res.nontrivial:
            self.nontrivial.add(fp)
        if self.first is None:
            self.first = case
        self.last = case
        if len(self.samples) < 3 or fp < max(self.samples):
            self.samples[fp] = case
            if len(self.samples) > 3:
                del self.samples[max(self.samples)]
        if res.ok:
            return
        if res.key == "hang":
            self.hangs.append(case)
        if res.key.startswith("harness:"):
            self.harness.append({"case": case, "detail": res.detail})
        size = len(canonical(case))
        b = self.failures.get(res.key)
        if b is None:
            b = self.failures[res.key] = {"count": 0, "first": case,
                                          "smallest": case, "size": size,
                                          "detail": res.detail}
        b["count"] += 1
        if size < b["size"]:
            b["smallest"], b["size"], b["detail"] = case, size, res.detail
        if self.mode == "shrink" and res.key == self.target:
            if self.best is None or size < len(canonical(self.best)):
                self.best, self.best_detail = case, res.detail
            raise TargetHit(res.key)

    def summary(self):
        return {
            "stream": self.stream.name,
            "evaluations": self.evaluations,
            "excluded": self.excluded,
            "features": self.features,
            "nontrivial": sorted(self.nontrivial),
            "failures": self.failures,
            "n_hangs": len(self.hangs),
            "harness": self.harness[:3],
            "samples": [c for c in ([self.first, self.last] +
                                    [self.samples[k] for k in sorted(self.samples)])
                        if c is not None],
            "best": self.best,
            "best_detail": self.best_detail,
        }


class ShrinkBudgetOver(BaseException):
    pass


_collector = None


def collector():
    return _collector


def _alarm(signum, frame):
    raise HarnessTimeout()


def guarded(fn, case, timeout):
    """Run fn(case) under the per-case watchdog; map escapes to Results."""
    old = signal.signal(signal.SIGALRM, _alarm)
    signal.setitimer(signal.ITIMER_REAL, timeout, 1.0)   # re-fires every second: an alarm swallowed inside a gc callback is retried
    try:
        res = fn(case)
        signal.setitimer(signal.ITIMER_REAL, 0)
        if not isinstance(res, Result):
            return Result(False, "harness:BadResult", {"got": repr(res)[:200]})
        return res
    except HarnessTimeout:
        return Result(False, "hang", {"timeout_s": timeout}, nontrivial=True)
    except (KeyboardInterrupt, ShrinkBudgetOver, TargetHit):
        raise
    except BaseException as exc:  # an exception escaping the oracle = harness error
        signal.setitimer(signal.ITIMER_REAL, 0)
        return Result(False, "harness:%s" % type(exc).__name__,
                      {"traceback": traceback.format_exc()[-3000:]})
    finally:
        signal.setitimer(signal.ITIMER_REAL, 0)
        signal.signal(signal.SIGALRM, old)


# --------------------------------------------------------------------------
# worker tasks
# --------------------------------------------------------------------------

def _load_module(prop):
    if core.VERIF not in sys.path:
        sys.path.insert(0, core.VERIF)
    cands = sorted(glob.glob(os.path.join(core.VERIF, "props", prop + "_*.py")))
    if not cands:
        raise SystemExit("HARNESS-ERROR no module for %s" % prop)
    name = "props." + os.path.basename(cands[0])[:-3]
    return importlib.import_module(name)


def _hyp_settings(n, shrink, steps=None):
    from hypothesis import settings, HealthCheck, Phase, Verbosity
    phases = [Phase.generate] + ([Phase.shrink] if shrink else [])
    kw = dict(max_examples=max(1, n), database=None, deadline=None,
              derandomize=False, report_multiple_bugs=False,
              suppress_health_check=list(HealthCheck), phases=phases,
              verbosity=Verbosity.quiet, print_blob=False)
    if steps is not None:
        kw["stateful_step_count"] = steps
    return settings(**kw)


def run_task(task):
    """Executed in a fresh forked process (maxtasksperchild=1)."""
    global _collector
    prop, sname, tier, seed, widx, nworkers, n, mode, target, budget_s = task
    t0 = time.time()
    scratch = tempfile.mkdtemp(prefix="verif-%s-" % prop)
    os.chdir(scratch)
    try:
        mod = _load_module(prop)
        stream = [s for s in mod.STREAMS if s.name == sname][0]
        stop_at = (time.time() + budget_s) if mode == "shrink" else None
        col = _collector = Collector(stream, mode, target, stop_at)
        if mode == "cases":            # plain replay of given cases (no library)
            for case in n:
                col.judge(case)
        elif stream.kind == "enum":
            total, fn = stream.make(tier)
            for i in range(widx, total, nworkers):
                col.judge(fn(i))
        elif stream.kind == "given":
            import hypothesis
            strat = stream.make(tier)

            @hypothesis.seed(seed)
            @_hyp_settings(n, mode == "shrink")
            @hypothesis.given(strat)
            def test(case):
                col.judge(case)
            try:
                test()
            except (TargetHit, ShrinkBudgetOver):
                pass
        elif stream.kind == "machine":
            import hypothesis
            from hypothesis.stateful import run_state_machine_as_test
            machine = stream.make(tier)
            try:
                run_state_machine_as_test(
                    hypothesis.seed(seed)(machine),
                    settings=_hyp_settings(n, mode == "shrink", stream.steps[tier]))
            except (TargetHit, ShrinkBudgetOver):
                pass
        elif stream.kind == "fuzz":
            out = _run_fuzz(prop, stream, tier, seed, widx, n, scratch)
            out["widx"], out["seed"], out["wall"] = widx, seed, time.time() - t0
            return out
        else:
            raise RuntimeError("unknown stream kind %r" % stream.kind)
        out = col.summary()
        out["error"] = None
    except BaseException:
        out = {"stream": sname, "error": traceback.format_exc()[-4000:]}
    finally:
        os.chdir("/")
        shutil.rmtree(scratch, ignore_errors=True)
    out["widx"] = widx
    out["seed"] = seed
    out["wall"] = time.time() - t0
    return out


def _run_fuzz(prop, stream, tier, seed, widx, n, scratch):
    """One atheris campaign (own process) + minimisation of what it found."""
    import subprocess
    script, extra = stream.make(tier)
    script = os.path.join(core.VERIF, script)
    corpus = os.path.join(scratch, "corpus")
    os.makedirs(corpus)
    seeds = os.path.join(core.VERIF, "fuzz", "corpus", "%s_%s" % (prop, stream.name))
    if widx % 2 == 1 and os.path.isdir(seeds):      # odd workers start from the seed corpus,
        for fn in sorted(os.listdir(seeds)):          # even workers from an empty one
            shutil.copy(os.path.join(seeds, fn), corpus)
    summ = os.path.join(scratch, "summary.json")
    env = dict(os.environ, VERIF_FUZZ_OUT=summ, VERIF_FUZZ_RUNS=str(n))
    cmd = [sys.executable, script, "-seed=%d" % ((seed % 2147483646) + 1), "-runs=-1",
           "-handle_alrm=0", "-artifact_prefix=%s/" % scratch] + list(extra) + [corpus]
    with open(os.path.join(scratch, "fuzz.log"), "wb") as log:
        try:
            subprocess.run(cmd, env=env, stdout=log, stderr=log, cwd=scratch,
                           timeout=max(600, n * stream.timeout / 20.0))
        except subprocess.TimeoutExpired:
            pass
    if not os.path.exists(summ):
        with open(os.path.join(scratch, "fuzz.log"), "rb") as log:
            tail = log.read()[-3000:].decode("utf-8", "replace")
        return {"stream": stream.name, "error": "fuzz target wrote no summary:\n" + tail}
    with open(summ) as f:
        out = json.load(f)
    out["nontrivial"] = list(out["nontrivial"])
    raw = out.pop("raw", {})
    if raw:
        # re-judge and minimise in this (plain, uninstrumented) process
        import importlib.util
        spec = importlib.util.spec_from_file_location("fuzz_target_" + prop, script)
        tgt = importlib.util.module_from_spec(spec)
        spec.loader.exec_module(tgt)
        sys.path.append(os.path.join(core.VERIF, ".deps"))
        import atheris
        from . import fuzz as vfuzz
        confirmed = {}
        for key, hx in raw.items():
            if key.startswith("harness:"):
                confirmed[key] = out["failures"][key]
                continue
            small = vfuzz.minimise(tgt.decode, stream.check, key, bytes.fromhex(hx))
            case = tgt.decode(atheris.FuzzedDataProvider(small))
            res = guarded(stream.check, case, stream.timeout)
            if not res.ok and res.key == key:
                confirmed[key] = dict(out["failures"][key], smallest=case,
                                      size=len(canonical(case)), detail=res.detail)
        out["failures"] = confirmed
    return out


# --------------------------------------------------------------------------
# parent
# --------------------------------------------------------------------------

def slug(s):
    return re.sub(r"[^A-Za-z0-9_.-]+", "_", s)[:80]


def ensure_deps():
    deps = os.path.join(core.VERIF, ".deps")
    if deps not in sys.path:
        sys.path.append(deps)


def write_replay(prop, sname, key, case, detail):
    d = os.path.join(core.VERIF, "replays")
    os.makedirs(d, exist_ok=True)
    path = os.path.join(d, "%s-%s-%s.json" % (prop, slug(sname), slug(key)))
    with open(path, "w") as f:
        json.dump({"property": prop, "stream": sname, "key": key, "case": case,
                   "detail": detail}, f, indent=1, default=repr)
    return os.path.relpath(path, core.VERIF)


def trunc(case, limit=1500):
    s = canonical(case)
    if len(s) <= limit:
        return case
    return {"truncated_json": s[:limit] + "...", "length": len(s)}


def main(argv=None):
    ap = argparse.ArgumentParser(prog="check")
    ap.add_argument("prop")
    ap.add_argument("--tier", default=os.environ.get("VERIF_TIER", "quick"),
                    choices=["quick", "thorough"])
    ap.add_argument("--replay")
    ap.add_argument("--workers", type=int, default=W_DEFAULT)
    ap.add_argument("--streams", default="")
    ap.add_argument("--scale", type=float, default=float(os.environ.get("VERIF_SCALE", "1")))
    ap.add_argument("--no-evidence", action="store_true")
    args = ap.parse_args(argv)
    prop = args.prop
    seed = int(os.environ.get("VERIF_SEED", "1") or "1")
    t0 = time.time()
    ensure_deps()
    try:
        mod = _load_module(prop)
        import plasTeX
        here = os.path.abspath(plasTeX.__file__)
        if not here.startswith(core.REPO + os.sep):
            print("HARNESS-ERROR plasTeX imported from %s, expected under %s" % (here, core.REPO))
            return 2
    except SystemExit:
        raise
    except BaseException:
        print("HARNESS-ERROR import failed\n" + traceback.format_exc())
        return 2

    ctx = multiprocessing.get_context("fork")
    streams = [s for s in mod.STREAMS if args.tier in s.tiers]
    if args.streams:
        want = set(args.streams.split(","))
        streams = [s for s in streams if s.name in want]

    # ---- replay of one file ------------------------------------------------
    if args.replay:
        with open(args.replay) as f:
            rp = json.load(f)
        st = [s for s in mod.STREAMS if s.name == rp["stream"]][0]
        with ctx.Pool(1, maxtasksperchild=1) as pool:
            out = pool.map(run_task, [(prop, st.name, args.tier, seed, 0, 1,
                                       [rp["case"]], "cases", None, None)])[0]
        if out.get("error"):
            print("HARNESS-ERROR\n" + out["error"])
            return 2
        if out["failures"]:
            for key, b in out["failures"].items():
                print("replay: bucket %s detail %s" % (key, json.dumps(b["detail"], default=repr)[:2000]))
                if key.startswith("harness:"):
                    print("HARNESS-ERROR in replay")
                    return 2
            print("VIOLATION property=%s replay=%s" % (prop, args.replay))
            return 1
        print("replay: property %s held on %s" % (prop, args.replay))
        return 0

    nW = max(1, args.workers)
    violations = []      # (stream, key, replay path)
    notes = []
    harness_errors = []

    # ---- regress cases (fixed defects) and known findings ------------------
    known = core.known_entries(prop, "known")
    fixed = core.known_entries(prop, "fixed")
    pre_tasks = []
    for e in known + fixed:
        if e.get("repro") is not None and e.get("stream"):
            pre_tasks.append((e, (prop, e["stream"], args.tier, seed, 0, 1,
                                  [e["repro"]], "cases", None, None)))
    regress_files = sorted(glob.glob(os.path.join(core.VERIF, "regress", prop + "-*.json")))
    for path in regress_files:
        with open(path) as f:
            rp = json.load(f)
        pre_tasks.append(({"status": "regress", "path": os.path.relpath(path, core.VERIF),
                           "key": rp.get("key", ""), "what": rp.get("what", "")},
                          (prop, rp["stream"], args.tier, seed, 0, 1,
                           [rp["case"]], "cases", None, None)))
    n_regress = 0
    known_lines = []
    if pre_tasks:
        with ctx.Pool(min(nW, len(pre_tasks)), maxtasksperchild=1) as pool:
            outs = pool.map(run_task, [t for _, t in pre_tasks], chunksize=1)
        for (e, t), out in zip(pre_tasks, outs):
            if out.get("error"):
                harness_errors.append("pre-task %s: %s" % (e.get("key"), out["error"]))
                continue
            failed = out["failures"]
            st = e.get("status", "known")
            if st == "known":
                if e["key"] in failed or set(e.get("also_keys", [])) & set(failed):
                    known_lines.append("KNOWN-FINDING: property=%s %s" % (prop, e["what"]))
                elif failed:
                    k = sorted(failed)[0]
                    violations.append((t[1], k, write_replay(prop, t[1], k, e["repro"], failed[k]["detail"])))
                else:
                    notes.append("known finding %s no longer reproduces" % e["key"])
            else:
                n_regress += 1
                if failed:
                    k = sorted(failed)[0]
                    if k.startswith("harness:"):
                        harness_errors.append("regress %s: %s" % (e.get("key"), failed[k]["detail"]))
                    else:
                        path = e.get("path") or write_replay(prop, t[1], k, e["repro"], failed[k]["detail"])
                        violations.append((t[1], k, path))

    # ---- survey pass -----------------------------------------------------------
    tasks = []
    chunk_n = {}
    for s in streams:
        n = max(1, int(s.budget[args.tier] * args.scale))
        if s.kind == "enum":
            total = s.make(args.tier)[0]
            chunks = max(1, -(-total // (nW * max(1, s.chunk))))
            for sh in range(nW * chunks):
                tasks.append((prop, s.name, args.tier, seed * 100000 + sh, sh, nW * chunks, n,
                              "survey", None, None))
            continue
        chunks = 1 if s.kind == "fuzz" else max(1, -(-n // max(1, s.chunk)))
        per = -(-n // chunks)
        chunk_n[s.name] = per
        for c in range(chunks):
            for w in range(nW):
                tasks.append((prop, s.name, args.tier, seed * 100000 + c * 100 + w, c * nW + w, nW, per,
                              "survey", None, None))
    with ctx.Pool(nW, maxtasksperchild=1) as pool:
        results = pool.map(run_task, tasks, chunksize=1)

    per = {}
    known_keys = core.known_keys(prop)
    for out in results:
        sname = out["stream"]
        p = per.setdefault(sname, {"evaluations": 0, "excluded": {}, "features": {},
                                   "nontrivial": set(), "failures": {}, "samples": [],
                                   "hangs": 0, "wall": 0.0})
        if out.get("error"):
            harness_errors.append("%s worker %s: %s" % (sname, out["widx"], out["error"]))
            continue
        p["evaluations"] += out["evaluations"]
        p["wall"] = max(p["wall"], out["wall"])
        for k, v in out["excluded"].items():
            p["excluded"][k] = p["excluded"].get(k, 0) + v
        for k, v in out["features"].items():
            p["features"][k] = p["features"].get(k, 0) + v
        p["nontrivial"].update(out["nontrivial"])
        p["hangs"] += out["n_hangs"]
        if out["widx"] in (0, nW // 2, nW - 1):
            p["samples"].extend(out["samples"][:2])
        for h in out["harness"]:
            harness_errors.append("%s: %s" % (sname, json.dumps(h["detail"], default=repr)[:3000]))
        for key, b in out["failures"].items():
            agg = p["failures"].get(key)
            if agg is None:
                agg = p["failures"][key] = dict(b, seed=out["seed"], widx=out["widx"])
            else:
                agg["count"] += b["count"]
                if b["size"] < agg["size"]:
                    agg.update(smallest=b["smallest"], size=b["size"], detail=b["detail"])

    # ---- classify buckets ---------------------------------------------------------
    to_shrink = []
    known_hits = {}
    inconclusive = []
    by_name = dict((s.name, s) for s in streams)
    for sname, p in per.items():
        for key, b in sorted(p["failures"].items()):
            if key.startswith("harness:"):
                continue
            if key in known_keys:
                known_hits[key] = known_hits.get(key, 0) + b["count"]
                continue
            to_shrink.append((sname, key, b))

    # ---- shrink pass -----------------------------------------------------------------
    shrink_budget = 40.0 if args.tier == "quick" else 240.0
    shrink_tasks = []
    for sname, key, b in to_shrink[:8]:
        s = by_name[sname]
        if s.kind in ("enum", "fuzz") or key == "hang":
            continue
        n = chunk_n.get(sname) or max(1, int(s.budget[args.tier] * args.scale))
        shrink_tasks.append(((sname, key), (prop, sname, args.tier, b["seed"], b["widx"], nW,
                                            n, "shrink", key, shrink_budget)))
    shrunk = {}
    if shrink_tasks:
        with ctx.Pool(min(nW, len(shrink_tasks)), maxtasksperchild=1) as pool:
            outs = pool.map(run_task, [t for _, t in shrink_tasks], chunksize=1)
        for (ident, _), out in zip(shrink_tasks, outs):
            if not out.get("error") and out.get("best") is not None:
                shrunk[ident] = (out["best"], out["best_detail"])

    for sname, key, b in to_shrink:
        s = by_name[sname]
        case, detail = shrunk.get((sname, key), (b["smallest"], b["detail"]))
        if len(canonical(case)) > b["size"]:
            case, detail = b["smallest"], b["detail"]
        if key == "hang":
            # confirm with 10x the bound in a fresh process
            old = s.timeout
            s.timeout = old * 10
            with ctx.Pool(1, maxtasksperchild=1) as pool:
                out = pool.map(run_task, [(prop, sname, args.tier, seed, 0, 1, [case],
                                           "cases", None, None)])[0]
            s.timeout = old
            still = (not out.get("error")) and "hang" in out["failures"]
            if still and s.hang_is_violation:
                violations.append((sname, key, write_replay(prop, sname, key, case, detail)))
            elif still:
                inconclusive.append("%s: case did not terminate within %ss: %s" %
                                    (sname, old * 10, canonical(case)[:500]))
            else:
                notes.append("%s: a case exceeded the %ss watchdog but finished within 10x" % (sname, old))
            continue
        violations.append((sname, key, write_replay(prop, sname, key, case, detail)))

    # ---- evidence ------------------------------------------------------------------
    total_eval = sum(p["evaluations"] for p in per.values())
    all_nt = set()
    for sname, p in per.items():
        all_nt.update((sname, x) for x in p["nontrivial"])
    samples = []
    for sname, p in per.items():
        for c in p["samples"][:3]:
            samples.append({"stream": sname, "case": trunc(c)})
    level = getattr(mod, "LEVEL", "exploration")
    ev = {
        "property_id": prop,
        "tier": args.tier,
        "seed": seed,
        "level": level,
        "coverage": {
            "evaluations": total_eval,
            "distinct_nontrivial": len(all_nt),
            "rule": " || ".join("%s: %s" % (s.name, s.rule) for s in streams),
            "samples": samples,
            "exhaustive": bool(streams) and all(s.kind == "enum" for s in streams),
            "streams": dict((sname, {
                "kind": by_name[sname].kind,
                "evaluations": p["evaluations"],
                "distinct_nontrivial": len(p["nontrivial"]),
                "exhaustive": by_name[sname].kind == "enum",
                "excluded": p["excluded"],
                "classes": dict(sorted(p["features"].items())),
                "failure_buckets": dict((k, b["count"]) for k, b in p["failures"].items()),
                "watchdog_hits": p["hangs"],
                "slowest_worker_s": round(p["wall"], 2),
            }) for sname, p in per.items()),
            "regress_cases_replayed": n_regress,
            "known_findings_listed": [e["key"] for e in known],
            "known_finding_hits_in_survey": known_hits,
            "workers": nW,
        },
        "assumptions": list(getattr(mod, "ASSUMPTIONS", [])),
        "wall_s": round(time.time() - t0, 2),
        "violations": len(violations),
    }
    if not args.no_evidence:
        os.makedirs(os.path.join(core.VERIF, "evidence"), exist_ok=True)
        with open(os.path.join(core.VERIF, "evidence", prop + ".json"), "w") as f:
            json.dump(ev, f, indent=1, sort_keys=True, default=repr)
            f.write("\n")

    # ---- report ----------------------------------------------------------------------
    for sname, p in sorted(per.items()):
        print("%s/%s: %d cases, %d distinct non-trivial, excluded %s, buckets %s, %.1fs" % (
            prop, sname, p["evaluations"], len(p["nontrivial"]), p["excluded"] or "{}",
            dict((k, b["count"]) for k, b in p["failures"].items()) or "{}", p["wall"]))
    for n in notes:
        print("NOTE: " + n)
    for line in known_lines:
        print(line)
    if violations:
        for sname, key, path in violations:
            print("bucket %s/%s" % (sname, key))
            print("VIOLATION property=%s replay=%s" % (prop, path))
        return 1
    if harness_errors:
        for h in harness_errors[:5]:
            print("HARNESS-ERROR " + h)
        return 2
    if inconclusive:
        for h in inconclusive:
            print("INCONCLUSIVE " + h)
        return 2
    if total_eval == 0:
        print("HARNESS-ERROR no cases were evaluated")
        return 2
    print("%s: held on everything explored (%d cases, %.1fs)" % (prop, total_eval, time.time() - t0))
    return 0


if __name__ == "__main__":
    sys.exit(main())

"""Helpers for history (operation-sequence) streams.

A *session* object couples the code under test with its reference model:

    class Session:
        def __init__(self, config): ...
        def apply(self, op) -> None | Result     # Result only when the step fails
        def finish(self) -> Result               # ok(features, nontrivial) normally

A history case is {"config": <json>, "ops": [<json op>, ...]}.

* history_check(Session) builds the stream's check(case): a plain replay with no
  library involved (used by --replay, regress cases, exhaustive enumeration).
* HistoryMachine is the RuleBasedStateMachine base: rules compute an op from their
  drawn arguments and the *model* state and call self.do(op).  The same Session
  code runs, step by step, so the invariants are checked after every step and
  Hypothesis shrinks the whole sequence.
"""
from hypothesis.stateful import RuleBasedStateMachine

from . import runner
from .core import Result, fail


def history_check(session_cls):
    def check(case):
        sess = session_cls(case.get("config"))
        for i, op in enumerate(case["ops"]):
            r = sess.apply(op)
            if r is not None and not r.ok:
                if isinstance(r.detail, dict):
                    r.detail.setdefault("step", i)
                return r
        return sess.finish()
    return check


class HistoryMachine(RuleBasedStateMachine):
    """Base class.  Subclasses set SESSION (class) and define rules calling do()."""
    SESSION = None
    CONFIG = None

    def __init__(self):
        super().__init__()
        self.config = None
        self.sess = None
        self.model = None
        self.ops = []
        self.failed = None

    def start(self, config):
        """Create the session; call from an @initialize rule when the
        configuration is drawn, otherwise do() starts with CONFIG."""
        self.config = config
        self.sess = self.SESSION(config)
        self.model = getattr(self.sess, "model", None)

    def case(self):
        return {"config": self.config, "ops": list(self.ops)}

    def do(self, op):
        if self.failed is not None:
            return
        if self.sess is None:
            self.start(self.CONFIG)
        self.ops.append(op)
        col = runner.collector()
        res = runner.guarded(lambda _c: self.sess.apply(op) or Result(True), None,
                             col.stream.timeout)
        if not res.ok:
            self.failed = res
            if isinstance(res.detail, dict):
                res.detail.setdefault("step", len(self.ops) - 1)
            col.record(self.case(), res)      # raises TargetHit in shrink mode

    def teardown(self):
        if self.failed is None and self.ops:
            col = runner.collector()
            res = runner.guarded(lambda _c: self.sess.finish(), None, col.stream.timeout)
            col.record(self.case(), res)

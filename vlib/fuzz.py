"""Coverage-guided fuzzing streams (atheris / libFuzzer).

A fuzz target is a small script  fuzz/Cxx_target.py:

    import sys, os; sys.path.insert(0, os.path.dirname(os.path.dirname(os.path.abspath(__file__))))
    from vlib import fuzz
    def decode(fdp):            # atheris.FuzzedDataProvider -> JSON-able case (total: any bytes decode
        ...                     # to a case inside the stream's domain)
    if __name__ == "__main__":
        fuzz.main("C15", "fuzz", decode)

and the property module lists  Stream("fuzz", "fuzz", lambda tier: ("fuzz/C15_target.py", ["-max_len=256"]),
check, budget={"quick": runs_per_worker, ...}).

The oracle (stream.check) runs inside the target.  A failing input does not stop the campaign: it is
bucketed by key (smallest raw input kept), so the search continues behind shallow defects.  The runner
launches one target process per worker with -seed derived from VERIF_SEED and a fresh corpus directory,
reads the summary file, re-judges every reported failure through the plain check and minimises it.
"""
import json
import os
import sys
import time

from . import core, runner


def main(prop, sname, decode, seeds=()):
    """Entry point of a target script (runs in its own process)."""
    deps = os.path.join(core.VERIF, ".deps")
    if deps not in sys.path:
        sys.path.append(deps)
    import atheris
    out_path = os.environ["VERIF_FUZZ_OUT"]
    with atheris.instrument_imports(include=["plasTeX"], enable_loader_override=False):
        mod = runner._load_module(prop)
        import plasTeX  # noqa
        import plasTeX.TeX  # noqa
    stream = [s for s in mod.STREAMS if s.name == sname][0]
    col = runner.Collector(stream)
    runner._collector = col
    raw_best = {}
    state = {"n": 0, "t0": time.time()}

    def flush():
        summ = col.summary()
        summ["raw"] = dict((k, v.hex()) for k, v in raw_best.items())
        summ["error"] = None
        tmp = out_path + ".tmp"
        with open(tmp, "w") as f:
            json.dump(summ, f, default=repr)
        os.replace(tmp, out_path)

    def one(data):
        fdp = atheris.FuzzedDataProvider(data)
        case = decode(fdp)
        res = col.judge(case)
        if not res.ok and not res.excluded:
            old = raw_best.get(res.key)
            if old is None or len(data) < len(old):
                raw_best[res.key] = bytes(data)
        state["n"] += 1
        if state["n"] % 500 == 0:
            flush()

    total = int(os.environ.get("VERIF_FUZZ_RUNS", "1000"))

    def one_counted(data):
        one(data)
        if state["n"] >= total:
            flush()
            os._exit(0)

    atheris.Setup(sys.argv, one_counted)
    atheris.Fuzz()


def minimise(decode, check, key, raw, budget_s=20.0):
    """Greedy byte deletion keeping the same bucket key; sound because decode is total."""
    import atheris
    t_end = time.time() + budget_s

    def bad(b):
        case = decode(atheris.FuzzedDataProvider(b))
        res = runner.guarded(check, case, 10.0)
        return (not res.ok) and res.key == key

    cur = bytes(raw)
    chunk = max(1, len(cur) // 2)
    while chunk >= 1 and time.time() < t_end:
        i = 0
        changed = False
        while i < len(cur) and time.time() < t_end:
            cand = cur[:i] + cur[i + chunk:]
            if cand != cur and bad(cand):
                cur = cand
                changed = True
            else:
                i += chunk
        if not changed:
            chunk //= 2
    return cur

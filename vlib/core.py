"""Core data types shared by the runner and the property modules."""
import hashlib
import json
import os
import sys
import traceback

VERIF = os.path.dirname(os.path.dirname(os.path.abspath(__file__)))
REPO = os.path.abspath(os.environ.get("VERIF_REPO", "/repo"))


class Result(object):
    """Verdict of one oracle evaluation.

    ok          True when the property held on this case
    key         bucket key (root-cause class) of a failure; '' when ok
    detail      JSON-able description of expected/observed values
    features    iterable of short strings; counted into the classes histogram
    nontrivial  True when the case satisfies the stream's non-triviality rule
    excluded    True when the case was not judged (outside the stated domain /
                contains a construct excluded for a listed known finding);
                counted, never asserted
    """
    __slots__ = ("ok", "key", "detail", "features", "nontrivial", "excluded")

    def __init__(self, ok, key="", detail=None, features=(), nontrivial=False,
                 excluded=False):
        self.ok = ok
        self.key = key
        self.detail = detail
        self.features = tuple(features)
        self.nontrivial = nontrivial
        self.excluded = excluded

    def __repr__(self):
        return "Result(ok=%r, key=%r, detail=%r)" % (self.ok, self.key, self.detail)


def ok(features=(), nontrivial=False):
    return Result(True, "", None, features, nontrivial)


def fail(key, detail=None, features=(), nontrivial=True):
    return Result(False, key, detail, features, nontrivial)


def skip(reason, features=()):
    """Case outside the asserted domain: counted under excluded[reason]."""
    return Result(True, reason, None, features, False, excluded=True)


class Stream(object):
    """One generator + oracle pair of a property.

    kind      'given'   make(tier) -> hypothesis strategy of JSON-able cases
              'machine' make(tier) -> RuleBasedStateMachine subclass; the machine
                        calls vlib.runner.report(stream_name, case, result) from
                        teardown() (see vlib/stateful.py helper)
              'enum'    make(tier) -> (n, fn) with fn(i) -> case for i in range(n);
                        a complete enumeration (exhaustive=True in the evidence)
    check     check(case) -> Result   (pure function of the case and the code)
    budget    {'quick': per-worker example count, 'thorough': ...}; for 'enum'
              ignored (all n cases are run) unless tier excluded via tiers
    timeout   per-case watchdog in seconds
    rule      text: how cases are generated and what counts as non-trivial
    hang_is_violation  a watchdog time-out (re-confirmed with 10x the bound) is a
              violation (True) or makes the run inconclusive (False)
    """

    def __init__(self, name, kind, make, check, budget=None, timeout=10.0,
                 rule="", tiers=("quick", "thorough"), hang_is_violation=False,
                 steps=None, weight=1.0, chunk=2500):
        self.name = name
        self.kind = kind
        self.make = make
        self.check = check
        self.budget = budget or {"quick": 100, "thorough": 1000}
        self.timeout = timeout
        self.rule = rule
        self.tiers = tiers
        self.hang_is_violation = hang_is_violation
        self.steps = steps or {"quick": 30, "thorough": 50}
        # cases per worker process: a processed plasTeX document is never freed (tokens are str
        # subclasses that keep their document alive), so long runs are cut into fresh processes
        self.chunk = chunk


def canonical(case):
    return json.dumps(case, sort_keys=True, ensure_ascii=True, default=repr)


def fingerprint(case):
    return hashlib.sha1(canonical(case).encode("ascii")).hexdigest()[:16]


class RealError(object):
    """An exception raised inside the code under test, reduced to a bucket key."""

    def __init__(self, exc, tb):
        self.exc = exc
        self.type = type(exc).__name__
        self.message = str(exc)[:300]
        frames = traceback.extract_tb(tb)
        inner = None
        for fr in frames:
            fn = os.path.abspath(fr.filename)
            if fn.startswith(REPO + os.sep):
                inner = fr
        if inner is None and frames:
            inner = frames[-1]
        if inner is not None:
            rel = os.path.relpath(os.path.abspath(inner.filename), REPO)
            self.where = "%s:%s" % (rel, inner.name)
            self.line = inner.lineno
        else:
            self.where = "?"
            self.line = 0
        self.in_repo = any(os.path.abspath(fr.filename).startswith(REPO + os.sep)
                           for fr in frames)

    @property
    def key(self):
        return "raise:%s@%s" % (self.type, self.where)

    def detail(self):
        return {"exception": self.type, "message": self.message,
                "where": self.where, "line": self.line}


class HarnessTimeout(BaseException):
    """Raised by the per-case watchdog (BaseException: not swallowed by
    `except Exception` blocks inside the code under test)."""


def call_real(fn, *args, **kw):
    """Run code under test.  Returns (value, None) or (None, RealError).

    KeyboardInterrupt and the watchdog's HarnessTimeout propagate; every other
    BaseException (SystemExit, RecursionError, MemoryError, ...) is captured so
    that the oracle can decide whether raising is allowed on this input.
    """
    try:
        return fn(*args, **kw), None
    except (KeyboardInterrupt, HarnessTimeout):
        raise
    except BaseException as exc:  # noqa
        return None, RealError(exc, sys.exc_info()[2])


_known_cache = None


def load_known():
    global _known_cache
    if _known_cache is None:
        path = os.path.join(VERIF, "known_findings.json")
        if os.path.exists(path):
            with open(path) as f:
                _known_cache = json.load(f)
        else:
            _known_cache = {"findings": []}
        # development aid only: extra (not yet merged) finding lists
        for extra in filter(None, os.environ.get("VERIF_EXTRA_KNOWN", "").split(":")):
            with open(extra) as f:
                _known_cache["findings"] = (_known_cache.get("findings", []) +
                                            json.load(f).get("findings", []))
    return _known_cache


def known_entries(prop, status="known"):
    return [e for e in load_known().get("findings", [])
            if e.get("property") == prop and e.get("status", "known") == status]


def known_keys(prop):
    """Bucket keys of the listed (not fixed) known findings of a property."""
    out = set()
    for e in known_entries(prop, "known"):
        out.add(e["key"])
        out.update(e.get("also_keys", []))      # other bucket keys of the same root cause
    return out

"""vlib -- the shared runner of the /verif property checks.

Public API used by property modules (props/Cxx_*.py):

    from vlib import Result, ok, fail, Stream, call_real, KNOWN

See vlib/README.md for the contract.
"""
from .core import (Result, ok, fail, skip, Stream, call_real, known_keys,
                   fingerprint, REPO, VERIF, RealError)

__all__ = ["Result", "ok", "fail", "skip", "Stream", "call_real", "known_keys",
           "fingerprint", "REPO", "VERIF", "RealError"]

#!/bin/bash
# Runs the repository's pinned baseline (guard off) and compares with BASELINE.json stable_pass.
cd /repo && env -u PLASTEX_VERIF /venv/bin/python -m pytest -ra -q -p no:cacheprovider --timeout=900 --continue-on-collection-errors --junitxml=/tmp/verif-baseline.junit.xml -n 8 "$@" > /tmp/verif-baseline.log 2>&1
/venv/bin/python - <<'PY'
import json, xml.etree.ElementTree as ET
base=json.load(open('/root/.vp/BASELINE.json'))
t=ET.parse('/tmp/verif-baseline.junit.xml')
passed=set()
for tc in t.iter('testcase'):
    if not any(ch.tag in('failure','error','skipped') for ch in tc):
        passed.add(tc.get('classname')+'::'+tc.get('name'))
want=set(base['stable_pass'])
missing=sorted(want-passed)
print('passed',len(passed),'baseline',len(want),'missing',len(missing))
for m in missing[:20]: print('  MISSING',m)
PY

#!/bin/bash
# ./run_baseline.sh [repo-dir]   (default /repo)
# Runs the repository's pinned baseline (hook guard off) in <repo-dir> and compares with
# BASELINE.json's stable_pass list.  Exit 0 iff none of the 360 stable tests is missing.
DIR="${1:-/repo}"
OUT="$(mktemp -d /tmp/verif-baseline.XXXXXX)"
cd "$DIR" && env -u PLASTEX_VERIF PYTHONPATH="$DIR" /venv/bin/python -m pytest -ra -q -p no:cacheprovider --timeout=900 \
    --continue-on-collection-errors --junitxml="$OUT/junit.xml" -n 6 > "$OUT/log" 2>&1
/venv/bin/python - "$OUT/junit.xml" <<'PY'
import json, sys, xml.etree.ElementTree as ET
base=json.load(open('/root/.vp/BASELINE.json'))
t=ET.parse(sys.argv[1])
passed=set()
for tc in t.iter('testcase'):
    if not any(ch.tag in('failure','error','skipped') for ch in tc):
        passed.add(tc.get('classname')+'::'+tc.get('name'))
want=set(base['stable_pass'])
missing=sorted(want-passed)
print('passed',len(passed),'baseline',len(want),'missing',len(missing))
for m in missing[:20]: print('  MISSING',m)
sys.exit(1 if missing else 0)
PY
RC=$?
rm -rf "$OUT"
exit $RC

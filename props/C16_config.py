"""C16 -- configuration values come from defaults, files and command line in that order.

Every option of every section of the live configuration (defaultConfig() plus the
renderer-contributed sections) is enumerated at import; cases are structured
layerings (0-3 INI files + an argv) that are rendered to real files / a real
argument vector, pushed through the real entry point `plasTeX.client.main` (with
`run` replaced by a stub that captures the configuration object) and compared,
option by option, with the layered-dictionary model in models/cfgmodel.py.
"""
import contextlib
import copy
import io
import logging
import os

from hypothesis import strategies as st

from vlib import Stream, ok, fail, skip, call_real, known_keys
from models import cfgmodel as M

logging.disable(logging.CRITICAL)

PROPERTY = "C16"
LEVEL = "exploration"
ASSUMPTIONS = [
    "section order, option names, option types, command-line flags and the default values are read from the live "
    "configuration object at start-up and taken as data (Doc/command.tex is visibly stale for several defaults)",
    "models/cfgmodel.py: defaults -> each file in order (scalars replaced, lists/dictionaries extended) -> command "
    "line (scalars replaced, last occurrence wins; lists/dictionaries extended); %(name)s looked up in the first "
    "section that has an option `name`",
    "INI normal form: lower-case keys (ConfigParser lower-cases them), one-line ASCII values without leading/"
    "trailing blanks, no lone % sign; booleans in files are spelled yes/no/true/false/on/off/1/0 in any case",
    "command-line normal form: values do not start with a dash (argparse), the input file comes first or after --",
    "%(name)s references point only at string/integer options and are acyclic by construction",
]

KNOWN = known_keys(PROPERTY)
K_BOOL = "wrong-value:bool:file:false-spelling"
EXCLUDE_BOOL_FALSE = K_BOOL in KNOWN


# --------------------------------------------------------------------------
# schema from the live configuration (environment data)
# --------------------------------------------------------------------------
def _live_config():
    from plasTeX.Config import defaultConfig
    from plasTeX.client import collect_renderer_config
    config = defaultConfig()
    collect_renderer_config(config)
    return config


def _build_schema():
    from plasTeX import ConfigManager as CM
    from argparse import ArgumentParser
    config = _live_config()
    parser = ArgumentParser("schema")
    config.registerArgparse(parser)
    nargs = dict((a.dest, a.nargs) for a in parser._actions)
    opts = []
    for sname, section in config.items():
        for key, opt in section.data.items():
            o = {"section": sname, "key": key, "default": copy.deepcopy(opt.value),
                 "enable": [x for x in opt.options if x and x[0] != "!"],
                 "disable": [x[1:] for x in opt.options if x and x[0] == "!"],
                 "vtype": None, "nargs": None}
            if isinstance(opt, CM.BooleanOption):
                o["type"] = "bool"
            elif isinstance(opt, CM.MultiStringOption):
                o["type"] = "list"
            elif isinstance(opt, CM.DictOption):
                o["type"] = "dict"
                probe = opt.entryFromString("7")
                o["vtype"] = {int: "int", float: "float"}.get(type(probe), "str")
                o["nargs"] = "+" if nargs.get(opt.name) == "+" else 2
            elif isinstance(opt.value, bool):
                o["type"] = "bool"
            elif isinstance(opt.value, int):
                o["type"] = "int"
            elif isinstance(opt.value, float):
                o["type"] = "float"
            elif isinstance(opt.value, str):
                o["type"] = "str"
            else:
                continue
            opts.append(o)
    return M.Schema(opts)


SCHEMA = _build_schema()
OPTS = SCHEMA.options
NOPT = len(OPTS)

# options whose values never contain references (reference targets), by rank
LEAF = [("general", "renderer"), ("files", "input-encoding"), ("files", "split-level"),
        ("document", "toc-depth"), ("images", "base-url"), ("html5", "theme-css")]
LEAF = [x for x in LEAF if x in SCHEMA.by]
MID = [x for x in [("general", "theme"), ("general", "kpsewhich")] if x in SCHEMA.by]


def _refs_for(idx):
    """Names an option's value may reference (acyclic by construction)."""
    if idx in LEAF or idx == ("document", "base-url"):
        return []
    names = [k for (s, k) in LEAF]
    if idx not in MID:
        names += [k for (s, k) in MID]
    return names


# --------------------------------------------------------------------------
# value strategies
# --------------------------------------------------------------------------
PLAIN = ["foo", "my theme", "a=b", "x = y", "path/to/file.css", "a:b", "#hash", ";semi", "", "UPPER lower",
         "http://example.com/x?a=b", "[brackets]", "tab-less", "0", "no"]
PCT = ["50%% off", "%%", "a%%b%%c", "%%(literal)s"]


@st.composite
def str_value(draw, idx):
    kind = draw(st.integers(0, 9))
    refs = _refs_for(idx)
    if kind <= 4 or (kind >= 7 and not refs):
        raw = draw(st.sampled_from(PLAIN))
    elif kind <= 6:
        raw = draw(st.sampled_from(PCT))
    else:
        name = draw(st.sampled_from(refs))
        fmt = "s"
        tgt = SCHEMA.lookup_name(name)
        if SCHEMA.by[tgt]["type"] == "int" and draw(st.booleans()):
            fmt = "d"
        raw = draw(st.sampled_from(["%%(%s)%s", "pre-%%(%s)%s", "%%(%s)%s-post", "a %%(%s)%s %%%% b"])) % (name, fmt)
        if draw(st.integers(0, 3)) == 0 and len(refs) > 1:
            raw += "+%%(%s)s" % draw(st.sampled_from(refs))
    return {"t": "str", "raw": raw}


def _spell_int(n, style):
    s = str(abs(n))
    if style == 1:
        s = "0" + s
    if n < 0:
        return "-" + s
    return ("+" + s) if style == 2 else s


int_value = st.tuples(st.one_of(st.integers(-9, 12), st.integers(-100000, 100000)),
                      st.sampled_from([0, 0, 0, 1, 2])).map(lambda t: {"t": "int", "raw": _spell_int(*t)})
float_value = st.sampled_from(["1.5", "-0.25", "3", "1e3", ".5", "2.", "0", "-7.125", "+2.5", "1E-2", "-1e3"]
                              ).map(lambda r: {"t": "float", "raw": r})
TRUE_SP = ["yes", "Yes", "YES", "true", "True", "TRUE", "on", "On", "1", "tRuE"]
FALSE_SP = ["no", "No", "NO", "false", "False", "FALSE", "off", "OFF", "0", "fAlSe"]


@st.composite
def bool_file_value(draw):
    if EXCLUDE_BOOL_FALSE:
        return {"t": "bool", "raw": draw(st.sampled_from(TRUE_SP)), "excluded": "bool-false-in-file"}
    return {"t": "bool", "raw": draw(st.sampled_from(TRUE_SP + FALSE_SP))}


ITEMS = ["a", "b.css", "my file.js", "x=y", "pkg.mod", "/abs/path", "50%%", "item-3"]


@st.composite
def list_value(draw, idx):
    items = draw(st.lists(st.sampled_from(ITEMS), max_size=3))
    refs = _refs_for(idx)
    if refs and items and draw(st.integers(0, 3)) == 0:
        items[draw(st.integers(0, len(items) - 1))] = "%%(%s)s-x" % draw(st.sampled_from(refs))
    return {"t": "list", "items": items, "quote": draw(st.lists(st.integers(0, 2), min_size=1, max_size=3))}


DKEYS = ["chapter", "section", "my.key", "a-b", "next-url", "next-title", "parse.env", "rr"]
DKEYS_ARGV = DKEYS + ["Section", "RR"]


def dict_raw(vtype):
    if vtype == "int":
        return st.integers(-5, 40).map(str)
    if vtype == "float":
        return st.sampled_from(["1.5", "2", "0.25", "-1.0"])
    return st.sampled_from(["DEBUG", "The Next Document", "http://example.com/a?b=c", "x", "\\mathbb{R}"])


@st.composite
def file_entries_for(draw, o):
    """List of INI entries setting option o (one entry; dictionaries: 1-2 entries)."""
    idx = (o["section"], o["key"])
    t = o["type"]
    if t == "str":
        return [{"key": o["key"], "v": draw(str_value(idx))}]
    if t == "int":
        return [{"key": o["key"], "v": draw(int_value)}]
    if t == "float":
        return [{"key": o["key"], "v": draw(float_value)}]
    if t == "bool":
        return [{"key": o["key"], "v": draw(bool_file_value())}]
    if t == "list":
        return [{"key": o["key"], "v": draw(list_value(idx))}]
    # dictionary: unknown-key lines and/or the explicit k=v,k=v form
    out = []
    keys = draw(st.lists(st.sampled_from(DKEYS), min_size=1, max_size=2, unique=True))
    if draw(st.integers(0, 3)) == 0:
        pairs = []
        for k in keys:
            raw = draw(dict_raw(o["vtype"]))
            if "," in raw:
                raw = "x"
            pairs.append([k, raw])
        out.append({"key": o["key"], "v": {"t": "dictstr", "pairs": pairs}})
    else:
        for k in keys:
            out.append({"key": k, "v": {"t": "dictline", "raw": draw(dict_raw(o["vtype"]))}})
    return out


@st.composite
def argv_entries_for(draw, o):
    idx = (o["section"], o["key"])
    t = o["type"]
    base = {"section": o["section"], "key": o["key"], "eq": draw(st.booleans())}
    if t == "bool":
        flags = [(f, True) for f in o["enable"]] + [(f, False) for f in o["disable"]]
        n = 1 if draw(st.integers(0, 4)) else 2
        out = []
        for _ in range(n):
            f, on = draw(st.sampled_from(flags))
            out.append(dict(base, flag=f, v={"t": "flag", "on": on}))
        return out
    flag = draw(st.sampled_from(o["enable"]))
    if len(flag) == 2:          # short option: no --x=value form
        base["eq"] = False
    if t == "str":
        v = draw(str_value(idx))
        if v["raw"].startswith("-"):
            v = {"t": "str", "raw": "x" + v["raw"]}
        return [dict(base, flag=flag, v=v)]
    if t == "int":
        return [dict(base, flag=flag, v=draw(int_value))]
    if t == "float":
        return [dict(base, flag=flag, v=draw(float_value))]
    if t == "list":
        out = []
        for _ in range(1 if draw(st.integers(0, 3)) else 2):
            v = draw(list_value(idx))
            out.append(dict(base, flag=flag, v=v))
        return out
    out = []
    for _ in range(draw(st.integers(1, 2))):
        k = draw(st.sampled_from(DKEYS_ARGV))
        if o["nargs"] == "+":
            args = [k] + [draw(dict_raw("str")) for _ in range(draw(st.integers(1, 2)))]
        else:
            args = [k, draw(dict_raw(o["vtype"]))]
        out.append(dict(base, flag=flag, v={"t": "dictarg", "args": args}))
    return out


P60 = st.sampled_from([True] * 6 + [False] * 4)
P10 = st.sampled_from([False] * 9 + [True])
NODICT_SECTIONS = [s for s in SCHEMA.sections if SCHEMA.section_dict(s) is None]


@st.composite
def layering(draw):
    nfiles = draw(st.sampled_from([0, 1, 1, 2, 2, 3]))
    focus = draw(st.lists(st.integers(0, NOPT - 1), min_size=1, max_size=6, unique=True))
    files = []
    for fi in range(nfiles):
        chosen = [i for i in focus if draw(P60)]
        chosen += draw(st.lists(st.integers(0, NOPT - 1), max_size=5, unique=True))
        seen = set()
        by_section = {}
        for i in chosen:
            if i in seen:
                continue
            seen.add(i)
            o = OPTS[i]
            by_section.setdefault(o["section"], []).extend(draw(file_entries_for(o)))
        if NODICT_SECTIONS and draw(P10):
            by_section.setdefault(draw(st.sampled_from(NODICT_SECTIONS)), []).append(
                {"key": "no-such-option", "v": {"t": "unknown", "raw": "x"}})
        names = draw(st.permutations(sorted(by_section)))
        sections = []
        for s in names:
            # one key may appear once per section (ConfigParser is strict)
            ents, keys = [], set()
            for e in by_section[s]:
                if e["key"] in keys:
                    continue
                keys.add(e["key"])
                ents.append(e)
            sections.append({"section": s, "delim": draw(st.sampled_from(["=", " = ", ":", ": "])),
                             "entries": draw(st.permutations(ents))})
        files.append({"name": "c16-%d.ini" % fi, "exists": not draw(P10),
                      "cflag": draw(st.sampled_from(["-c", "--config"])),
                      "comment": draw(st.booleans()), "sections": sections})
    chosen = [i for i in focus if draw(P60)]
    chosen += draw(st.lists(st.integers(0, NOPT - 1), max_size=5, unique=True))
    argv = []
    seen = set()
    for i in chosen:
        if i in seen:
            continue
        seen.add(i)
        argv.extend(draw(argv_entries_for(OPTS[i])))
    argv = draw(st.permutations(argv))
    return {"files": files, "argv": list(argv), "file_pos": draw(st.sampled_from(["first", "dashdash"]))}


# --------------------------------------------------------------------------
# the real thing
# --------------------------------------------------------------------------
def _run_client(argv):
    """plasTeX.client.main with `run` replaced by a stub returning the config."""
    import plasTeX.client as client
    captured = []
    saved = client.run
    client.run = lambda filename, config: captured.append((filename, config))
    out, errs = io.StringIO(), io.StringIO()
    try:
        with contextlib.redirect_stdout(out), contextlib.redirect_stderr(errs):
            client.main(list(argv))
    except SystemExit as e:
        raise RuntimeError("argparse rejected the command line: %s" % errs.getvalue()[-300:])
    finally:
        client.run = saved
    if not captured:
        raise RuntimeError("client.main did not call run")
    return captured[0]


def _same(a, b):
    if type(a) is not type(b):
        return False
    if isinstance(a, list):
        return len(a) == len(b) and all(_same(x, y) for x, y in zip(a, b))
    if isinstance(a, dict):
        return sorted(a) == sorted(b) and all(_same(a[k], b[k]) for k in a)
    return a == b


def _winner(o, prov):
    if not prov:
        return "default"
    if o["type"] in ("list", "dict"):
        return "+".join(sorted(set(prov)))
    return prov[-1]


def _features(case, vals, prov):
    f = set()
    f.add("files=%d" % len(case.get("files", [])))
    if any(not x.get("exists", True) for x in case.get("files", [])):
        f.add("nonexistent-file")
    nontrivial = False
    for o in OPTS:
        idx = (o["section"], o["key"])
        p = prov[idx]
        if not p:
            continue
        f.add("set:" + o["type"])
        srcs = [x.split(":")[0] for x in p]
        if len(p) >= 2:
            f.add("option-set-by>=2-sources")
            nontrivial = True
            if len(set(srcs)) == 2:
                f.add("%s:file+argv" % o["type"])
            elif srcs[0] == "file":
                f.add("%s:file+file" % o["type"])
        if len(p) >= 3:
            f.add("option-set-by>=3-sources")
        if o["type"] == "bool" and any(x.startswith("file") for x in p):
            f.add("bool-from-file")
            nontrivial = True
            if any(x == "file:false-spelling" for x in p):
                f.add("bool-false-from-file")
        v = vals[idx]
        strs = [v] if isinstance(v, str) else (v if isinstance(v, list) else [])
        if p and any("%(" in s.replace("%%", "") for s in strs):
            f.add("interpolated-reference")
            nontrivial = True
        if p and any("%%" in s for s in strs):
            f.add("percent-escape")
            nontrivial = True
    for x in case.get("files", []):
        for sec in x["sections"]:
            for e in sec["entries"]:
                if e["v"].get("excluded"):
                    f.add("excluded-known:" + e["v"]["excluded"])
                if e["v"]["t"] == "unknown":
                    f.add("unknown-key-ignored")
    return f, nontrivial


def check(case):
    try:
        vals, prov = M.expected(SCHEMA, case)
        argv = M.render_argv(case)
        texts = [(f["name"], f.get("exists", True), M.render_ini(f)) for f in case.get("files", [])]
        exp = dict(((o["section"], o["key"]), M.readback(SCHEMA, vals, (o["section"], o["key"]))) for o in OPTS)
    except M.ModelError as e:
        return skip("model-domain:" + str(e)[:50])
    feats, nontrivial = _features(case, vals, prov)
    feats = sorted(feats)
    for name, exists, text in texts:
        if exists:
            with open(name, "w") as fh:
                fh.write(text)
        elif os.path.exists(name):
            os.remove(name)
    got, err = call_real(_run_client, argv)
    detail = {"argv": argv, "files": dict((n, t) for n, e, t in texts if e)}
    if err is not None:
        return fail(err.key, dict(err.detail(), **detail), feats)
    filename, config = got
    if filename != "doc.tex":
        return fail("wrong-input-file", dict(detail, observed=filename), feats)
    if list(config.keys()) != SCHEMA.sections:
        return fail("sections-changed", dict(detail, observed=list(config.keys())), feats)
    bad = []
    for o in OPTS:
        idx = (o["section"], o["key"])
        raw, err = call_real(lambda: config[o["section"]].data[o["key"]].value)
        if err is not None:
            bad.append((err.key, idx, None, None))
            continue
        if not _same(raw, vals[idx]):
            bad.append(("wrong-value:%s:%s" % (o["type"], _winner(o, prov[idx])), idx, vals[idx], raw))
            continue
        val, err = call_real(lambda: config[o["section"]][o["key"]])
        if err is not None:
            bad.append(("readback-" + err.key, idx, exp[idx], err.message))
        elif not _same(val, exp[idx]):
            bad.append(("wrong-readback:%s" % o["type"], idx, exp[idx], val))
        else:
            # the other documented accessor of a section gives the same value
            got, err = call_real(lambda: config[o["section"]].get(o["key"]))
            if err is not None:
                bad.append(("readback-get-" + err.key, idx, exp[idx], err.message))
            elif not _same(got, exp[idx]):
                bad.append(("wrong-readback:get:%s" % o["type"], idx, exp[idx], got))
    if bad:
        # report the first mismatch that is not a listed known finding, so that the
        # search continues behind one
        pick = next((b for b in bad if b[0] not in KNOWN), bad[0])
        return fail(pick[0], dict(detail, option="%s.%s" % pick[1], expected=repr(pick[2]),
                                  observed=repr(pick[3]), provenance=prov[pick[1]],
                                  all_mismatches=[[b[0], "%s.%s" % b[1]] for b in bad][:10]), feats)
    return ok(feats, nontrivial)


# --------------------------------------------------------------------------
# stepwise: the same layerings applied one layer at a time through the API, every option
# read back after EVERY layer ("replaced by the current value of the named option")
# --------------------------------------------------------------------------
def _compare_all(config, case, tag, detail):
    vals, prov = M.expected(SCHEMA, case)
    exp = dict(((o["section"], o["key"]), M.readback(SCHEMA, vals, (o["section"], o["key"]))) for o in OPTS)
    bad = []
    for o in OPTS:
        idx = (o["section"], o["key"])
        raw, err = call_real(lambda: config[o["section"]].data[o["key"]].value)
        if err is not None:
            bad.append((err.key, idx, None, None))
            continue
        if not _same(raw, vals[idx]):
            bad.append(("wrong-value:%s:%s" % (o["type"], _winner(o, prov[idx])), idx, vals[idx], raw))
            continue
        val, err = call_real(lambda: config[o["section"]][o["key"]])
        if err is not None:
            bad.append(("readback-" + err.key, idx, exp[idx], err.message))
        elif not _same(val, exp[idx]):
            bad.append(("wrong-readback-after-earlier-read:%s" % o["type"] if tag != "defaults"
                        else "wrong-readback:%s" % o["type"], idx, exp[idx], val))
        else:
            got, err = call_real(lambda: config[o["section"]].get(o["key"]))
            if err is not None:
                bad.append(("readback-get-" + err.key, idx, exp[idx], err.message))
            elif not _same(got, exp[idx]):
                bad.append(("wrong-readback:get:%s" % o["type"], idx, exp[idx], got))
    if bad:
        pick = next((b for b in bad if b[0] not in KNOWN), bad[0])
        return fail(pick[0], dict(detail, after=tag, option="%s.%s" % pick[1], expected=repr(pick[2]),
                                  observed=repr(pick[3]),
                                  all_mismatches=[[b[0], "%s.%s" % b[1]] for b in bad][:10]))
    return None


def check_stepwise(case):
    import argparse
    import plasTeX.client as client
    from plasTeX.Config import defaultConfig
    try:
        vals, prov = M.expected(SCHEMA, case)
        argv = M.render_argv({"files": [], "argv": case["argv"], "file_pos": case.get("file_pos", "first")})
        texts = [(f["name"], f.get("exists", True), M.render_ini(f)) for f in case.get("files", [])]
    except M.ModelError as e:
        return skip("model-domain:" + str(e)[:50])
    feats, nontrivial = _features(case, vals, prov)
    feats = sorted(feats)
    detail = {"argv": argv, "files": dict((n, t) for n, e, t in texts if e)}

    def build():
        config = defaultConfig()
        client.collect_renderer_config(config)
        parser = argparse.ArgumentParser("plasTeX")
        config.registerArgparse(parser)
        parser.add_argument("file")
        return config, parser
    got, err = call_real(build)
    if err is not None:
        return fail(err.key, err.detail(), feats)
    config, parser = got
    r = _compare_all(config, {"files": [], "argv": []}, "defaults", detail)
    if r is not None:
        return Result_with(r, feats)
    files = case.get("files", [])
    for i, (name, exists, text) in enumerate(texts):
        if exists:
            with open(name, "w") as fh:
                fh.write(text)
        elif os.path.exists(name):
            os.remove(name)
        _, err = call_real(config.read, [name])
        if err is not None:
            return fail("stepwise-" + err.key, dict(err.detail(), **detail), feats)
        r = _compare_all(config, {"files": files[:i + 1], "argv": []}, "file-%d" % (i + 1), detail)
        if r is not None:
            return Result_with(r, feats)
    out, errs = io.StringIO(), io.StringIO()
    try:
        with contextlib.redirect_stdout(out), contextlib.redirect_stderr(errs):
            data = vars(parser.parse_args(list(argv)))
    except SystemExit:
        raise RuntimeError("argparse rejected the command line: %s" % errs.getvalue()[-300:])
    _, err = call_real(config.updateFromDict, data)
    if err is not None:
        return fail("stepwise-" + err.key, dict(err.detail(), **detail), feats)
    r = _compare_all(config, case, "argv", detail)
    if r is not None:
        return Result_with(r, feats)
    return ok(feats + ["stepwise-layers=%d" % (len(texts) + 2)], nontrivial)


def Result_with(r, feats):
    return fail(r.key, r.detail, feats)


# --------------------------------------------------------------------------
# exhaustive grid: option x {default, file, file2-over-file1, argv, file+argv} x samples
# --------------------------------------------------------------------------
def _samples_file(o):
    idx = (o["section"], o["key"])
    t = o["type"]
    if t == "str":
        out = [{"t": "str", "raw": "plain"}, {"t": "str", "raw": "two words = x"}, {"t": "str", "raw": "50%% a"}]
        refs = _refs_for(idx)
        if refs:
            out.append({"t": "str", "raw": "%%(%s)s-ref" % refs[0]})
        return out
    if t == "int":
        return [{"t": "int", "raw": r} for r in ("-7", "0", "12")]
    if t == "float":
        return [{"t": "float", "raw": r} for r in ("-0.5", "0", "2.25")]
    if t == "bool":
        return [{"t": "bool", "raw": r} for r in ("yes", "no", "True", "FALSE", "on", "Off", "1", "0")]
    if t == "list":
        return [{"t": "list", "items": ["a", "my b"], "quote": [0, 1]}, {"t": "list", "items": ["c"], "quote": [2]}]
    raws = {"int": ("4", "-2"), "float": ("1.5", "2"), "str": ("DEBUG", "a b")}[o["vtype"]]
    return [{"t": "dictline", "key": "chapter", "raw": raws[0]},
            {"t": "dictstr", "pairs": [["chapter", raws[1]], ["my.key", raws[0].replace(" ", "_")]]}]


def _samples_argv(o):
    t = o["type"]
    base = {"section": o["section"], "key": o["key"], "eq": False}
    if t == "bool":
        return [dict(base, flag=f, v={"t": "flag", "on": True}) for f in o["enable"]] + \
               [dict(base, flag=f, v={"t": "flag", "on": False}) for f in o["disable"]]
    out = []
    for flag in o["enable"]:
        if t == "list":
            out.append(dict(base, flag=flag, v={"t": "list", "items": ["z", "y x"], "quote": [0]}))
        elif t == "dict":
            raws = {"int": "9", "float": "0.5", "str": "INFO"}[o["vtype"]]
            args = ["chapter", raws] if o["nargs"] != "+" else ["chapter", "http://u", "T"]
            out.append(dict(base, flag=flag, v={"t": "dictarg", "args": args}))
        else:
            raw = {"str": "cli value", "int": "-3", "float": "7.5"}[t]
            out.append(dict(base, flag=flag, v={"t": t, "raw": raw}))
            out.append(dict(base, flag=flag, eq=(len(flag) > 2), v={"t": t, "raw": {"str": "%%x", "int": "0", "float": "0"}[t]}))
            if t == "str":
                out.append(dict(base, flag=flag, v={"t": "str", "raw": ""}))
    return out


def _file_with(o, v, name):
    if v["t"] == "dictline":
        e = {"key": v["key"], "v": {"t": "dictline", "raw": v["raw"]}}
    else:
        e = {"key": o["key"], "v": v}
    return {"name": name, "exists": True, "cflag": "-c", "comment": False,
            "sections": [{"section": o["section"], "delim": "=", "entries": [e]}]}


def _grid():
    cases = [{"files": [], "argv": [], "file_pos": "first"}]
    for o in OPTS:
        fs = _samples_file(o)
        as_ = _samples_argv(o)
        for v in fs:
            cases.append({"files": [_file_with(o, v, "g1.ini")], "argv": [], "file_pos": "first"})
        for i, v in enumerate(fs):
            w = fs[(i + 1) % len(fs)]
            cases.append({"files": [_file_with(o, v, "g1.ini"), _file_with(o, w, "g2.ini")], "argv": [],
                          "file_pos": "dashdash"})
        for a in as_:
            cases.append({"files": [], "argv": [a], "file_pos": "dashdash"})
        for i, v in enumerate(fs):
            for a in as_[:3]:
                cases.append({"files": [_file_with(o, v, "g1.ini")], "argv": [a], "file_pos": "first"})
    # one name in two sections: %(base-url)s is the one of the first section
    if ("images", "base-url") in SCHEMA.by and ("document", "base-url") in SCHEMA.by:
        im, do, ti = SCHEMA.by[("images", "base-url")], SCHEMA.by[("document", "base-url")], SCHEMA.by[("document", "title")]
        f = {"name": "g1.ini", "exists": True, "cflag": "-c", "comment": False, "sections": [
            {"section": "document", "delim": "=", "entries": [{"key": "base-url", "v": {"t": "str", "raw": "DOC"}},
                                                            {"key": "title", "v": {"t": "str", "raw": "%(base-url)s!"}}]},
            {"section": "images", "delim": "=", "entries": [{"key": "base-url", "v": {"t": "str", "raw": "IMG"}}]}]}
        cases.append({"files": [f], "argv": [], "file_pos": "first"})
    return cases


_GRID = None


def make_grid(tier):
    global _GRID
    if _GRID is None:
        _GRID = _grid()
    return len(_GRID), (lambda i: _GRID[i])


def check_grid(case):
    if EXCLUDE_BOOL_FALSE:
        vals, prov = M.expected(SCHEMA, case)
        for idx, p in prov.items():
            if p and p[-1] == "file:false-spelling":
                return skip("known:bool-false-in-file")
    return check(case)


RULE = ("layerings: 0-3 generated INI files (-c/--config, one may not exist) + an argv, run through plasTeX.client.main; "
        "a focus set of 1-6 options is set in each source with p=0.6 plus up to 5 random options per source; values "
        "by type: strings (blanks, =, :, %%, %(name)s/%(name)d references), ints (signed, leading zero), floats, "
        "booleans (yes/no/true/false/on/off/1/0 mixed case in files, --x/--no-x on argv, also both), lists (quoted "
        "items, repeated flags), dictionaries (unknown-key lines, k=v,k=v form, --counter/--link/--logging/--scales/"
        "--mj-macros); EVERY option of every section is compared (stored value and read-back).  Non-trivial: an "
        "option set by >= 2 sources, or a boolean set from a file, or a string with %(name)s / %%.")
RULE_GRID = ("complete grid: every option x {default, one file, file2 over file1, argv (every flag), file + argv} x "
             "2-8 value samples per type, plus the duplicated-name %(base-url)s lookup")

STREAMS = [
    Stream("layering", "given", lambda tier: layering(), check,
           budget={"quick": 300, "thorough": 6000}, timeout=20.0, rule=RULE),
    Stream("grid", "enum", make_grid, check_grid, timeout=20.0, rule=RULE_GRID),
    Stream("stepwise", "given", lambda tier: layering(), check_stepwise,
           budget={"quick": 120, "thorough": 3000}, timeout=30.0,
           rule=("the layerings of 'layering' applied one layer at a time through the API (defaultConfig + renderer "
                 "sections, config.read(file) per file, updateFromDict(parse_args(argv))), with EVERY option's stored "
                 "value and interpolated read-back compared with the model after EVERY layer, so that a read-back must "
                 "follow later changes of the options it refers to. Non-trivial as in 'layering'.")),
]

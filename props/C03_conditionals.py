"""C03 -- conditionals process exactly the branch TeX selects.

Generator: program AST of nested conditionals (depth <= 4) of all forms named in
the property, every branch (taken or not) carrying a unique marker word and a
side-effect probe (\\stepcounter{pX} and/or \\gdef\\gX{dX}); conditionals also
inside macro bodies, macro arguments and groups; operands in the operand normal
form of DESIGN.md C03.
Oracle: (1) predict(): an evaluator of the *AST* that knows operand values by
construction and walks only the selected branches; (2) models/minitex.py run on
the rendered source (token-level TeX rules); both must agree (else the harness
is wrong: HARNESS-ERROR), and plasTeX must give the same visible text, the same
probe counter values (untaken branches leave no side effect), raise nothing and
leave the context depth where it was.
"""
import logging
import re

from hypothesis import strategies as st

from vlib import Stream, ok, fail, skip, call_real, known_keys
from models import minitex

logging.disable(logging.CRITICAL)

PROPERTY = "C03"
LEVEL = "exploration"
ASSUMPTIONS = [
    "TeX's rules for conditionals as transcribed in models/minitex.py (tex.web 487-510, scan_int 440-446, "
    "scan_dimen 448-458; \\ifdefined as in e-TeX; \\newif as in plain.tex/latex.ltx: switch setters are local "
    "\\let assignments) and re-derived at AST level by predict() -- the two must agree on every case",
    "operand normal form of DESIGN.md C03: left operand followed directly (or after one blank) by the relation, "
    "right operand / \\ifodd / \\ifcase number followed by \\relax; dimension pairs are identical expressions or differ by >= 4sp",
    "\\ifx only between character tokens, between parameterless \\def macros with plain-text bodies, and macro vs \\undefined",
    "names used (ma mb mc xa xb xc xd xq na nb ca cb, switches sa sb fa fb ia foo final found, probes p../g..) are undefined in LaTeX and in a fresh plasTeX context; "
    "no user macro name starts with 'if' except the \\newif switches",
]

KNOWN = known_keys(PROPERTY)
K_IFCASE_RANGE = "wrong-branch:ifcase-out-of-range"
K_IFCASE_RAISE = "raise:IndexError@plasTeX/TeX.py:processIfContent"
K_SWITCH_LOCAL = "wrong-branch:newif-setter-not-local-to-group"
K_IFDEFINED = "wrong-branch:ifdefined"
K_IFX_UNDEF = "wrong-branch:ifx-undefined"
IFCASE_RANGE_KNOWN = K_IFCASE_RANGE in KNOWN or K_IFCASE_RAISE in KNOWN

UNITS = ["pt", "pc", "in", "bp", "cm", "mm", "dd", "cc", "sp"]
XBODIES = ["ab", "ab", "x y", "", "abc"]


def letters(i):
    """0 -> a, 25 -> z, 26 -> aa ... (names and marker words are letters only)."""
    s = ""
    i += 1
    while i > 0:
        i, r = divmod(i - 1, 26)
        s = chr(97 + r) + s
    return s


def dimen_sp(text):
    """Value in sp of a dimension literal, by TeX's integer arithmetic."""
    m = minitex.MiniTeX(text + "\\relax")
    return m.scan_dimen()


# ----------------------------------------------------------------------------
# rendering
# ----------------------------------------------------------------------------
_CW_END = re.compile(r"\\[a-zA-Z]+$")


def join_atoms(atoms):
    out = []
    prev_cw = False
    for a in atoms:
        if not a:
            continue
        if prev_cw and a[0].isalpha():
            out.append(" ")
        out.append(a)
        prev_cw = bool(_CW_END.search(a))
    return "".join(out)


def render_operand(op, at):
    k = op["k"]
    if k == "lit":
        at.append(op["s"])
    elif k == "value":
        at.append("\\value{%s}" % op["c"])
    elif k == "num":
        at.append("\\" + op["n"])
    elif k == "reg":
        at.append("\\" + op["r"])
    elif k == "dim":
        at.append(op["s"])
    else:  # pragma: no cover
        raise ValueError(k)


def render_test(t, at):
    k = t["k"]
    if k in ("iftrue", "iffalse"):
        at.append("\\" + k)
    elif k in ("ifnum", "ifdim"):
        at.append("\\" + k)
        if t["a"]["k"] in ("lit", "dim"):
            at.append(" ")
        render_operand(t["a"], at)
        if t.get("blank"):
            at.append(" ")
        at.append(t["rel"])
        render_operand(t["b"], at)
        at.append("\\relax")
    elif k in ("ifodd", "ifcase"):
        at.append("\\" + k)
        if t["a"]["k"] == "lit":
            at.append(" ")
        render_operand(t["a"], at)
        at.append("\\relax")
    elif k == "ifxc":
        at.append("\\ifx")
        at.append(" " + t["c1"] + t["c2"])
    elif k == "ifxm":
        at.append("\\ifx")
        at.append("\\" + t["m1"])
        at.append("\\" + t["m2"])
    elif k == "ifdefined":
        at.append("\\ifdefined")
        at.append("\\" + t["n"])
    elif k == "switch":
        at.append("\\if" + t["sw"])
    else:  # pragma: no cover
        raise ValueError(k)


def render_nodes(nodes, at):
    for n in nodes:
        k = n["k"]
        if k == "m":
            at.append(n["w"])
        elif k == "step":
            at.append("\\stepcounter{pq%s}" % n["p"])
        elif k == "gdef":
            at.append("\\gdef\\gq%s{D%s}" % (n["p"], n["p"]))
        elif k == "if":
            render_test(n["test"], at)
            for i, arm in enumerate(n["arms"]):
                if i:
                    at.append("\\or")
                render_nodes(arm, at)
            if n["else"] is not None:
                at.append("\\else")
                render_nodes(n["else"], at)
            at.append("\\fi")
        elif k == "grp":
            at.append("{" if n["kind"] == "brace" else "\\begingroup")
            render_nodes(n["body"], at)
            at.append("}" if n["kind"] == "brace" else "\\endgroup")
        elif k == "set":
            at.append("\\%s%s" % (n["sw"], "true" if n["v"] else "false"))
        elif k == "setc":
            if n["op"] == "set":
                at.append("\\setcounter{%s}{%d}" % (n["c"], n["v"]))
            elif n["op"] == "add":
                at.append("\\addtocounter{%s}{%d}" % (n["c"], n["v"]))
            else:
                at.append("\\stepcounter{%s}" % n["c"])
        elif k == "setr":
            at.append("\\%s=%d\\relax" % (n["r"], n["v"]))
        elif k == "newif":
            at.append("\\newif\\if%s" % n["sw"])
        elif k == "defnum":
            at.append("\\def\\%s{%d}" % (n["n"], n["v"]))
        elif k == "defx":
            at.append("\\def\\%s{%s}" % (n["n"], n["b"]))
        elif k == "arg":
            at.append("#%d" % n["n"])
        elif k == "call":
            at.append("\\" + n["n"])
            for a in n["args"]:
                at.append("{")
                render_nodes(a, at)
                at.append("}")
        elif k == "relax":
            at.append("\\relax")
        else:  # pragma: no cover
            raise ValueError(k)


def probes_of(case):
    """Probe names occurring in the AST (order of first occurrence in a fixed walk)."""
    seen = []

    def visit(n, owner):
        if n["k"] in ("step", "gdef") and n["p"] not in seen:
            seen.append(n["p"])
    for m in case["macros"]:
        walk(m["body"], visit)
    walk(case["body"], visit)
    return sorted(seen, key=lambda x: (len(x), x))


def render(case):
    if "src" in case:
        return case["src"]
    at = []
    probes = probes_of(case)
    for p in probes:
        at.append("\\newcounter{pq%s}" % p)
        at.append("\\def\\gq%s{}" % p)
    for c, v in sorted(case["counters"].items()):
        at.append("\\newcounter{%s}\\setcounter{%s}{%d}" % (c, c, v))
    for r, v in sorted(case.get("regs", {}).items()):
        at.append("\\newcount\\%s" % r)
        at.append("\\%s=%d\\relax" % (r, v))
    for n, v in sorted(case["nums"].items()):
        at.append("\\def\\%s{%d}" % (n, v))
    for n, b in sorted(case["xmacs"].items()):
        at.append("\\def\\%s{%s}" % (n, b))
    for sw in case["switches"]:
        at.append("\\newif\\if%s" % sw)
    for d in case["macros"]:
        at.append("\\def\\%s%s{" % (d["n"], "".join("#%d" % (i + 1) for i in range(d["np"]))))
        render_nodes(d["body"], at)
        at.append("}")
    render_nodes(case["body"], at)
    at.append("|")
    for p in probes:
        at.append("\\gq%s" % p)
    return join_atoms(at)


# ----------------------------------------------------------------------------
# AST-level evaluator ("the AST evaluator knows the selected branch")
# ----------------------------------------------------------------------------
class Scope(object):
    """Local (group-scoped) state: number macros, x-macros, switches."""

    def __init__(self, nums, xmacs, switches):
        self.stack = [{"num": dict(nums), "x": dict(xmacs), "sw": dict((s, False) for s in switches)}]

    def push(self):
        top = self.stack[-1]
        self.stack.append({"num": dict(top["num"]), "x": dict(top["x"]), "sw": dict(top["sw"])})

    def pop(self):
        self.stack.pop()

    @property
    def top(self):
        return self.stack[-1]


class Predictor(object):
    def __init__(self, case):
        self.case = case
        self.out = []
        self.probes = probes_of(case)
        self.steps = dict((p, 0) for p in self.probes)
        self.gdefs = set()
        self.counters = dict(case["counters"])
        self.regs = dict(case.get("regs", {}))
        self.scope = Scope(case["nums"], case["xmacs"], case["switches"])
        self.macros = dict((d["n"], d) for d in case["macros"])
        self.taken = []          # ids of the if nodes evaluated, with the selected arm
        self.out_of_range = set()  # ids of \ifcase nodes evaluated with a selector outside their arms
        self.classes = set()
        self.budget = 20000

    def operand(self, op):
        k = op["k"]
        if k == "lit" or k == "dim":
            return op["v"]
        if k == "value":
            return self.counters[op["c"]]
        if k == "reg":
            return self.regs[op["r"]]
        if k == "num":
            return self.scope.top["num"][op["n"]]
        raise ValueError(k)

    def select(self, node):
        """Index of the selected arm (len(arms) = the \\else part / nothing)."""
        t = node["test"]
        k = t["k"]
        narms = len(node["arms"])
        if k == "ifcase":
            n = self.operand(t["a"])
            if 0 <= n < narms:
                return n
            self.out_of_range.add(node["id"])
            self.classes.add("ifcase-out-of-range-negative" if n < 0 else "ifcase-out-of-range-high")
            return narms
        if k == "iftrue":
            b = True
        elif k == "iffalse":
            b = False
        elif k in ("ifnum", "ifdim"):
            a, c = self.operand(t["a"]), self.operand(t["b"])
            b = (a < c) if t["rel"] == "<" else (a > c) if t["rel"] == ">" else (a == c)
        elif k == "ifodd":
            b = self.operand(t["a"]) % 2 == 1
        elif k == "ifxc":
            b = t["c1"] == t["c2"]
        elif k == "ifxm":
            x = self.scope.top["x"]
            b1 = x.get(t["m1"])
            b2 = x.get(t["m2"])
            b = (b1 is None and b2 is None) or (b1 is not None and b2 is not None and
                                                 normalize_body(b1) == normalize_body(b2))
        elif k == "ifdefined":
            n = t["n"]
            if n in self.macros or (n.startswith("gq") and n[2:] in self.steps):
                b = True
            else:
                b = self.scope.top["x"].get(n) is not None
        elif k == "switch":
            b = self.scope.top["sw"][t["sw"]]
        else:
            raise ValueError(k)
        return 0 if b else 1

    def run(self, nodes, argenv):
        for n in nodes:
            self.budget -= 1
            if self.budget < 0:
                raise RuntimeError("predictor budget exceeded")
            k = n["k"]
            if k == "m":
                self.out.append(n["w"])
            elif k == "step":
                self.steps[n["p"]] += 1
            elif k == "gdef":
                self.gdefs.add(n["p"])
            elif k == "if":
                sel = self.select(n)
                self.taken.append((n["id"], sel))
                if sel < len(n["arms"]):
                    self.run(n["arms"][sel], argenv)
                elif n["else"] is not None:
                    self.run(n["else"], argenv)
            elif k == "grp":
                self.scope.push()
                self.run(n["body"], argenv)
                self.scope.pop()
            elif k == "set":
                self.scope.top["sw"][n["sw"]] = n["v"]
                if len(self.scope.stack) > 1:
                    self.classes.add("switch-set-inside-group")
            elif k == "setc":
                if n["op"] == "set":
                    self.counters[n["c"]] = n["v"]
                elif n["op"] == "add":
                    self.counters[n["c"]] += n["v"]
                else:
                    self.counters[n["c"]] += 1
            elif k == "setr":
                self.regs[n["r"]] = n["v"]
            elif k == "newif":
                self.scope.top["sw"][n["sw"]] = False
            elif k == "defnum":
                self.scope.top["num"][n["n"]] = n["v"]
            elif k == "defx":
                self.scope.top["x"][n["n"]] = n["b"]
            elif k == "arg":
                nodes2, env2 = argenv[n["n"] - 1]
                self.run(nodes2, env2)
            elif k == "call":
                d = self.macros[n["n"]]
                self.run(d["body"], [(a, argenv) for a in n["args"]])
            elif k == "relax":
                pass
            else:
                raise ValueError(k)

    def predict(self):
        self.run(self.case["body"], [])
        text = "".join(self.out) + "|" + "".join("D" + p for p in self.probes if p in self.gdefs)
        return text, self.steps


def normalize_body(b):
    """Token list of a plain-text body (bodies are drawn from XBODIES: single
    blanks only, so the source string identifies the token list)."""
    return b


# ----------------------------------------------------------------------------
# generator
# ----------------------------------------------------------------------------
class Gen(object):
    def __init__(self, draw):
        self.draw = draw
        self.nprobes = 0
        self.nmarkers = 0
        self.nifs = 0
        self.features = set()
        self.excluded = {}

    def i(self, a, b):
        return self.draw(st.integers(a, b))

    def p(self, tenths):
        return self.draw(st.integers(0, 9)) < tenths

    def pick(self, seq):
        return seq[self.draw(st.integers(0, len(seq) - 1))]

    def note_excluded(self, what):
        self.excluded[what] = self.excluded.get(what, 0) + 1

    # -- operands ---------------------------------------------------------------
    def int_literal(self, v):
        neg = v < 0
        a = abs(v)
        r = self.i(0, 9)
        if r <= 4:
            s = str(a)
        elif r == 5:
            s = "'" + oct(a)[2:]
        elif r == 6:
            s = '"' + hex(a)[2:].upper()
        elif r == 7 and 33 <= a <= 126 and chr(a) not in "\\{}%#^_&~$ `":
            s = "`" + chr(a)
        elif r == 8:
            s = "0" + str(a)
        else:
            s = str(a)
        sign = "-" if neg else ("+" if self.p(1) else "")
        if neg and self.p(1):
            sign = "+-"
        elif not neg and self.p(1) and a:
            sign = "--"
        return {"k": "lit", "s": sign + s, "v": v}

    def int_operand(self, v=None):
        """An operand with (currently unknown or known) integer value."""
        r = self.i(0, 9)
        if r <= 1 and self.counters:
            self.features.add("operand-counter-value")
            return {"k": "value", "c": self.pick(sorted(self.counters))}
        if r <= 3 and self.nums:
            self.features.add("operand-macro-number")
            return {"k": "num", "n": self.pick(sorted(self.nums))}
        if r == 4 and self.regs:
            self.features.add("operand-count-register")
            return {"k": "reg", "r": self.pick(sorted(self.regs))}
        if v is None:
            v = self.small_int()
        return self.int_literal(v)

    def small_int(self):
        r = self.i(0, 9)
        if r <= 5:
            return self.i(-3, 6)
        if r <= 8:
            return self.i(-130, 130)
        return self.i(-70000, 70000)

    def dim_literal(self):
        unit = self.pick(UNITS)
        r = self.i(0, 9)
        if unit == "sp":
            num = str(self.i(0, 400000))
        elif r <= 3:
            num = str(self.i(0, 40))
        elif r <= 7:
            num = "%d.%s" % (self.i(0, 40), self.pick(["5", "25", "0", "75", "125", "3", "33333", "1", "99"]))
        elif r == 8:
            num = "." + self.pick(["5", "25", "75", "1", "001"])
        else:
            num = "%d." % self.i(0, 40)
        if self.p(1):
            num = num.replace(".", ",")
        sign = "-" if self.p(2) else ""
        s = sign + num + (" " if self.p(1) else "") + unit
        return {"k": "dim", "s": s, "v": dimen_sp(s)}

    # -- tests -------------------------------------------------------------------
    def test(self):
        r = self.i(0, 19)
        if r <= 1:
            return {"k": "iftrue"}
        if r <= 3:
            return {"k": "iffalse"}
        if r <= 7:
            a = self.int_operand()
            if a["k"] == "lit" and self.p(5):
                # make equality / near misses likely
                b = self.int_operand(a["v"] + self.pick([0, 0, 1, -1]))
            else:
                b = self.int_operand()
            return {"k": "ifnum", "a": a, "rel": self.pick("<=>"), "b": b,
                    "blank": a["k"] == "lit" and self.p(2)}
        if r <= 10:
            a = self.dim_literal()
            if self.p(2):
                # a pair less than one scaled point apart that TeX nevertheless puts on different sp values
                # (asserted because the exact rational values and TeX's rounded ones order the same way)
                n, f = self.i(0, 40), self.i(0, 99998)
                step = self.pick([1, 1, 2])
                sa, sb = "%d.%05dpt" % (n, f + step), "%d.%05dpt" % (n, f)
                if dimen_sp(sa) != dimen_sp(sb):
                    pair = [{"k": "dim", "s": sa, "v": dimen_sp(sa)}, {"k": "dim", "s": sb, "v": dimen_sp(sb)}]
                    if self.p(5):
                        pair.reverse()
                    self.features.add("ifdim-operands-less-than-2sp-apart")
                    return {"k": "ifdim", "a": pair[0], "rel": self.pick("<=>"), "b": pair[1], "blank": self.p(2)}
            if self.p(3):
                b = dict(a)
            else:
                b = None
                for _ in range(4):
                    c = self.dim_literal()
                    if abs(c["v"] - a["v"]) >= 4:
                        b = c
                        break
                if b is None:
                    b = dict(a)
            return {"k": "ifdim", "a": a, "rel": self.pick("<=>"), "b": b, "blank": self.p(2)}
        if r <= 12:
            return {"k": "ifodd", "a": self.int_operand()}
        if r <= 14:
            c1 = self.pick("abxy+-12")
            c2 = c1 if self.p(5) else self.pick("abxy+-12")
            return {"k": "ifxc", "c1": c1, "c2": c2}
        if r <= 16:
            # with the \ifdefined finding listed, names tested by \ifdefined are never
            # looked up by \ifx (a look-up registers them as "defined")
            xn = self.xnames[:3] if K_IFDEFINED in KNOWN else self.xnames
            m1 = self.pick(xn)
            m2 = self.pick(xn + ["undefined", "undefined"])
            if self.p(5):
                if m2 == "undefined" and K_IFX_UNDEF in KNOWN:
                    self.note_excluded("ifx-with-undefined-as-first-operand")
                else:
                    m1, m2 = m2, m1
            return {"k": "ifxm", "m1": m1, "m2": m2}
        if r == 17:
            if K_IFDEFINED in KNOWN:
                self.features.add("excluded-known:ifdefined-of-a-name-looked-up-before")
                names = [n for n in self.xnames[:3] if n in self.xmacs] + ["xd", "xd", "xq"]
            else:
                names = self.xnames + ["xq"]
            return {"k": "ifdefined", "n": self.pick(names + [m["n"] for m in self.macros] + ["gqa"])}
        if self.switches:
            return {"k": "switch", "sw": self.pick(self.switches)}
        return {"k": "iftrue"}

    def ifcase_test(self, narms):
        lo, hi = -2, narms + 2
        r = self.i(0, 9)
        if IFCASE_RANGE_KNOWN and r <= 2:
            # a counter / macro selector can leave the range at run time
            self.note_excluded("ifcase-selector-from-counter-or-macro")
            r = 9
        if r <= 1 and self.counters:
            return {"k": "ifcase", "a": {"k": "value", "c": self.pick(sorted(self.counters))}}
        if r == 2 and self.regs:
            return {"k": "ifcase", "a": {"k": "reg", "r": self.pick(sorted(self.regs))}}
        if r <= 2 and self.nums:
            return {"k": "ifcase", "a": {"k": "num", "n": self.pick(sorted(self.nums))}}
        v = self.i(lo, hi)
        if IFCASE_RANGE_KNOWN and not 0 <= v < narms:
            self.note_excluded("ifcase-selector-out-of-range")
            v = self.i(0, narms - 1)
        return {"k": "ifcase", "a": self.int_literal(v)}

    # -- nodes ---------------------------------------------------------------------
    def branch(self, depth, ctx):
        """Content of one branch: unique marker + side-effect probe (+ more)."""
        p = letters(self.nprobes)
        self.nprobes += 1
        w = "W" + letters(self.nmarkers)
        self.nmarkers += 1
        nodes = [{"k": "m", "w": w}]
        r = self.i(0, 9)
        if r <= 5:
            nodes.append({"k": "step", "p": p})
        elif r <= 8:
            nodes.append({"k": "gdef", "p": p})
        else:
            nodes.append({"k": "step", "p": p})
            nodes.append({"k": "gdef", "p": p})
        if self.p(5):
            nodes.reverse()
        extra = self.nodes(depth, ctx, self.i(0, 2))
        pos = self.i(0, len(nodes))
        return nodes[:pos] + extra + nodes[pos:]

    def cond_with(self, depth, ctx, test):
        """A two-way conditional with the given test (both branches present)."""
        self.nifs += 1
        return {"k": "if", "id": self.nifs, "test": test, "arms": [self.branch(depth + 1, ctx)],
                "else": self.branch(depth + 1, ctx)}

    def cond(self, depth, ctx):
        self.nifs += 1
        node = {"k": "if", "id": self.nifs}
        if self.p(2):
            narms = self.i(1, 6)   # 0-5 \or separators
            node["test"] = self.ifcase_test(narms)
            node["arms"] = [self.branch(depth + 1, ctx) for _ in range(narms)]
            self.features.add("ifcase-arms-%d" % min(narms, 3))
        else:
            node["test"] = self.test()
            node["arms"] = [self.branch(depth + 1, ctx)]
        node["else"] = self.branch(depth + 1, ctx) if self.p(6) else None
        return node

    def nodes(self, depth, ctx, n):
        out = []
        for _ in range(n):
            r = self.i(0, 19)
            if r <= 7 and depth < 4 and self.nifs < 9:
                out.append(self.cond(depth, ctx))
            elif r <= 9 and depth < 4 and ctx["groups"] < 3:
                kind = "brace" if self.p(6) else "semi"
                sub = dict(ctx, groups=ctx["groups"] + 1)
                out.append({"k": "grp", "kind": kind, "body": self.nodes(depth, sub, self.i(1, 3))})
                self.features.add("group")
            elif r == 10 and self.switches:
                if ctx["groups"] > 0 or ctx["in_macro"] or ctx.get("in_arg"):
                    if K_SWITCH_LOCAL in KNOWN:
                        self.note_excluded("switch-setter-inside-group-or-macro")
                        continue
                out.append({"k": "set", "sw": self.pick(self.switches), "v": self.p(5)})
                self.features.add("switch-setter")
            elif r == 11 and self.counters:
                op = self.pick(["set", "add", "step"])
                out.append({"k": "setc", "c": self.pick(sorted(self.counters)), "op": op,
                            "v": self.i(-3, 6)})
            elif r == 12 and self.regs and self.p(5) and ctx["groups"] == 0 and not ctx["in_macro"] \
                    and not ctx.get("in_arg") and depth == 0:
                out.append({"k": "setr", "r": self.pick(sorted(self.regs)), "v": self.small_int()})
                self.features.add("count-register-assignment")
            elif r == 12 and self.nums:
                out.append({"k": "defnum", "n": self.pick(sorted(self.nums)), "v": self.small_int()})
            elif r == 13:
                n = self.pick(self.xnames)
                out.append({"k": "defx", "n": n, "b": self.pick(XBODIES)})
            elif r <= 15 and ctx["nargs"] and depth < 4 and ctx["argbudget"][0] > 0:
                ctx["argbudget"][0] -= 1
                out.append({"k": "arg", "n": self.i(1, ctx["nargs"])})
                self.features.add("argument-used-in-body")
            elif r <= 17 and depth < 3 and not ctx.get("in_arg"):
                cands = [m for m in self.macros if m["rank"] < ctx["rank"]]
                if cands:
                    m = self.pick(cands)
                    actx = dict(ctx, in_arg=True)
                    args = [self.nodes(depth + 1, actx, self.i(0, 2)) for _ in range(m["np"])]
                    out.append({"k": "call", "n": m["n"], "args": args})
                    self.features.add("macro-call")
            elif r == 18 and self.p(2) and depth < 3 and ctx["groups"] < 3 and self.nifs < 7 \
                    and K_IFDEFINED not in KNOWN and not ctx["in_macro"] and not ctx.get("in_arg"):
                # directed sequence: a name is tested while undefined (which makes plasTeX register a
                # placeholder for it), then defined locally inside a group and tested there, then tested
                # again after the group
                undefd = [x for x in self.xnames if x not in self.xmacs] or ["xd"]
                n = self.pick(undefd)
                first = {"k": "ifdefined", "n": n} if self.p(5) else {"k": "ifxm", "m1": n, "m2": "undefined"}
                sub = dict(ctx, groups=ctx["groups"] + 1)
                out.append(self.cond_with(depth, ctx, first))
                out.append({"k": "grp", "kind": "brace" if self.p(6) else "semi",
                            "body": [{"k": "defx", "n": n, "b": self.pick(XBODIES)},
                                     self.cond_with(depth, sub, {"k": "ifdefined", "n": n})]})
                out.append(self.cond_with(depth, ctx, {"k": "ifdefined", "n": n}))
                self.features.add("ifdefined-after-lookup-then-local-definition")
            elif r == 19 and self.p(3) and depth == 0 and ctx["groups"] == 0 and not ctx["in_macro"] \
                    and not ctx.get("in_arg") and self.nifs < 7 and getattr(self, "late_switches", 0) < 2:
                # a switch declared inside the text of a conditional that is being executed and tested at once
                # (only where the text is certainly executed: a skipped \newif would not be balanced in TeX)
                sw = ["zn", "fz"][getattr(self, "late_switches", 0)]
                self.late_switches = getattr(self, "late_switches", 0) + 1
                self.nifs += 1
                outer = {"k": "if", "id": self.nifs, "test": {"k": "iftrue"} if self.p(5) else
                         {"k": "ifnum", "a": {"k": "lit", "v": 1, "s": "1"}, "rel": "=", "b": {"k": "lit", "v": 1, "s": "1"},
                          "blank": True}, "arms": [[]], "else": self.branch(1, ctx)}
                arm = outer["arms"][0]
                arm.append({"k": "newif", "sw": sw})
                if self.p(3):
                    arm.append({"k": "set", "sw": sw, "v": self.p(5)})
                arm.append(self.cond_with(1, ctx, {"k": "switch", "sw": sw}))
                arm.extend(self.branch(1, ctx))
                out.append(outer)
                self.features.add("newif-inside-conditional-text")
            elif r == 18:
                out.append({"k": "relax"})
            else:
                w = "W" + letters(self.nmarkers)
                self.nmarkers += 1
                out.append({"k": "m", "w": w})
        return out

    def build(self):
        self.counters = dict(("c" + letters(i), self.i(-2, 5)) for i in range(self.i(0, 2)))
        self.nums = dict(("n" + letters(i), self.small_int()) for i in range(self.i(0, 2)))
        # plain TeX count registers (\\newcount), assigned with the primitive syntax \\ra=5\\relax
        self.regs = dict(("r" + letters(i), self.small_int()) for i in range(self.i(0, 2)))
        self.xnames = ["xa", "xb", "xc", "xd"]
        ndef = self.i(1, 3)
        self.xmacs = dict((n, self.pick(XBODIES)) for n in self.xnames[:ndef])
        # switch names after the `if' prefix also start with f or i (\\iffoo, \\ifia): the setters are
        # \\footrue/\\iatrue, i.e. exactly the name without its first two letters
        pool = self.pick([["sa", "sb"], ["fa", "ia"], ["foo", "sb"], ["sa", "final"], ["found", "fb"]])
        self.switches = pool[:self.i(0, 2)]
        self.macros = []
        for i in range(self.i(0, 3)):
            np_ = self.i(0, 2)
            ctx = {"groups": 0, "in_macro": True, "nargs": np_, "rank": i, "argbudget": [3]}
            body = self.nodes(1, ctx, self.i(1, 3))
            self.macros.append({"n": "m" + letters(i), "np": np_, "rank": i, "body": body})
        ctx = {"groups": 0, "in_macro": False, "nargs": 0, "rank": 99, "argbudget": [0]}
        body = self.nodes(0, ctx, self.i(1, 4))
        if self.nifs == 0:
            body.append(self.cond(0, ctx))
        return {"counters": self.counters, "regs": self.regs, "nums": self.nums,
                "xmacs": self.xmacs, "switches": self.switches, "macros": self.macros, "body": body,
                "features": sorted(self.features), "excluded": self.excluded}


@st.composite
def programs(draw, tier="quick"):
    return Gen(draw).build()


# ----------------------------------------------------------------------------
# oracle
# ----------------------------------------------------------------------------
class HarnessDisagreement(Exception):
    """predict() and minitex disagree: the harness itself is wrong."""


def release(tex, doc):
    """Harness hygiene, after the observations were taken: plasTeX tokens are str
    subclasses that point to their document but are invisible to the cycle collector,
    so a processed document (with all its per-context classes, ~0.4 MB) is never
    freed.  Emptying the containers lets reference counting free everything."""
    try:
        ctx = doc.context
        for c in list(ctx.contexts):
            dict.clear(c)
            c.__dict__.clear()
        ctx.__dict__.clear()
        while doc.childNodes:
            doc.pop()
        doc.__dict__.clear()
        tex.__dict__.clear()
    except Exception:
        pass


def run_real(src, probes):
    from plasTeX.TeX import TeX
    tex = TeX()
    tex.disableLogging()
    doc = tex.ownerDocument
    d0 = len(doc.context.contexts)
    try:
        tex.input(src)
        out = tex.parse()
        text = "".join(out.textContent.split())
        counters = {}
        for p in probes:
            c = doc.context.counters.get("pq" + p)
            counters[p] = None if c is None else int(c.value)
        return text, counters, len(doc.context.contexts) - d0
    finally:
        release(tex, doc)


def walk(nodes, fn, owner=None, skipped=False):
    for n in nodes:
        fn(n, owner)
        k = n["k"]
        if k == "if":
            for arm in n["arms"]:
                walk(arm, fn, n)
            if n["else"] is not None:
                walk(n["else"], fn, n)
        elif k == "grp":
            walk(n["body"], fn, owner)
        elif k == "call":
            for a in n["args"]:
                walk(a, fn, owner)


def test_class(node, out_of_range):
    t = node["test"]
    k = t["k"]
    if k == "ifcase":
        a = t["a"]
        if (a["k"] == "lit" and not 0 <= a["v"] < len(node["arms"])) or node["id"] in out_of_range:
            return "ifcase-out-of-range"
        return "ifcase"
    if k == "switch":
        return "newif-switch"
    if k == "ifxc":
        return "ifx-characters"
    if k == "ifxm":
        return "ifx-undefined" if "undefined" in (t["m1"], t["m2"]) else "ifx-macros"
    return k


def static_features(case):
    feats = set()
    depth = {}

    def visit(n, owner):
        if n["k"] == "if":
            d = depth[n["id"]] = (depth[owner["id"]] + 1) if owner is not None else 1
            feats.add("test:" + test_class(n, ()))
            feats.add("nesting-depth-%d" % min(d, 4))
            if n["else"] is None:
                feats.add("else-absent")
            else:
                feats.add("else-present")
            if owner is not None:
                feats.add("conditional-inside-branch")
    walk(case["body"], visit)
    for m in case["macros"]:
        before = len(feats)

        def visit_m(n, owner):
            if n["k"] == "if":
                # (conditionals of macro bodies rank below every conditional of a call site
                # when the culprit of a mismatch is looked for)
                depth[n["id"]] = (depth[owner["id"]] + 1) if owner is not None else 11
                feats.add("test:" + test_class(n, ()))
                feats.add("conditional-in-macro-body")
        walk(m["body"], visit_m)

    def visit_args(n, owner):
        if n["k"] == "call":
            def inner(x, o):
                if x["k"] == "if":
                    feats.add("conditional-in-macro-argument")
            for a in n["args"]:
                walk(a, inner)
    walk(case["body"], visit_args)
    for m in case["macros"]:
        walk(m["body"], visit_args)

    def visit_grp(n, owner):
        if n["k"] == "grp":
            def inner(x, o):
                if x["k"] == "if":
                    feats.add("conditional-in-group")
            walk(n["body"], inner)
    walk(case["body"], visit_grp)
    return feats, depth


def owners(case):
    """marker word / probe name -> the conditional node whose branch contains it."""
    own = {}

    def visit(n, owner):
        if n["k"] == "m":
            own["m:" + n["w"]] = owner
        elif n["k"] in ("step", "gdef"):
            own["p:" + n["p"]] = owner
    walk(case["body"], visit)
    for m in case["macros"]:
        walk(m["body"], visit)
    return own


def split_markers(text):
    """Marker words of a text made of W<letters> / D<letters> words and '|'."""
    out = []
    cur = ""
    for ch_ in text:
        if (ch_.isupper() or ch_ == "|") and cur:
            out.append(cur)
            cur = ""
        cur += ch_
    if cur:
        out.append(cur)
    return out


def evaluate(case):
    src = render(case)
    feats = set(case.get("features", ()))
    for k in sorted(case.get("excluded", {})):
        feats.add("excluded-known:" + k)
    try:
        m = minitex.MiniTeX(src).run()
    except minitex.TeXError as e:
        return skip("model-rejects-input", sorted(feats) + ["model-rejects:" + str(e)[:40]])
    probes = probes_of(case) if "body" in case else sorted(k[2:] for k in m.counters if k.startswith("pq"))
    exp_text = m.text
    exp_steps = dict((p, m.counters.get("pq" + p, 0)) for p in probes)
    nontrivial = False
    own = {}
    oor = ()
    depth = {}
    if "body" in case:
        pr = Predictor(case)
        ptext, psteps = pr.predict()
        if ptext != exp_text or psteps != exp_steps:
            raise HarnessDisagreement("AST evaluator %r %r / token-level model %r %r on %s" %
                                      (ptext, psteps, exp_text, exp_steps, src))
        sf, depth = static_features(case)
        feats |= sf
        feats |= pr.classes
        oor = pr.out_of_range
        if m.stats["skipped_nested"]:
            feats.add("nested-conditional-inside-skipped-branch")
        maxd = max([d % 10 for d in depth.values()]) if depth else 0
        nontrivial = (maxd >= 2 or any(f.startswith("ifcase-arms-") and not f.endswith("-1") for f in feats)
                      or "conditional-in-macro-body" in feats or "conditional-in-macro-argument" in feats)
        own = owners(case)
    else:
        nontrivial = True
    if m.final_level != 0:
        return skip("model-unbalanced-groups", sorted(feats))
    got, err = call_real(run_real, src, probes)
    detail = {"src": src, "expected_text": exp_text, "expected_probe_counters": exp_steps}
    if err is not None:
        return fail(err.key, dict(detail, **err.detail()), sorted(feats))
    text, counters, ddepth = got
    if text != exp_text:
        em, om = split_markers(exp_text), split_markers(text)
        ecount, ocount = {}, {}
        for w in em:
            ecount[w] = ecount.get(w, 0) + 1
        for w in om:
            ocount[w] = ocount.get(w, 0) + 1
        # the culprit is the outermost conditional one of whose branches was processed a
        # different number of times than predicted (inner ones differ as a consequence)
        best = None
        for pos, w in enumerate(em + om):
            if ecount.get(w, 0) == ocount.get(w, 0):
                continue
            o = own.get("m:" + w) or own.get("p:" + w[1:])
            d = depth.get(o["id"], 9) if o is not None else 99
            if best is None or d < best[0]:
                best = (d, w, o)
        key = "text-mismatch"
        word, o = (best[1], best[2]) if best else ("", None)
        if o is not None:
            key = "wrong-branch:" + test_class(o, oor)
            if test_class(o, oor) == "newif-switch" and "switch-set-inside-group" in feats:
                key = K_SWITCH_LOCAL
        elif "body" not in case:
            key = "wrong-branch:" + raw_class(src)
        kind = "untaken branch processed" if ocount.get(word, 0) > ecount.get(word, 0) else "taken branch lost"
        return fail(key, dict(detail, observed_text=text, first_difference=word, kind=kind),
                    sorted(feats))
    if counters != exp_steps:
        bad = sorted(k for k in exp_steps if counters.get(k) != exp_steps[k])
        o = own.get("p:" + bad[0])
        key = "side-effect-of-untaken-branch:" + (test_class(o, oor) if o is not None else "top-level")
        return fail(key, dict(detail, observed_probe_counters=counters, differing=bad), sorted(feats))
    if ddepth != 0:
        return fail("context-depth-not-restored", dict(detail, depth_delta=ddepth), sorted(feats))
    return ok(sorted(feats), nontrivial)


def _lists(node, acc):
    if isinstance(node, list):
        acc.append(node)
        for x in node:
            _lists(x, acc)
    elif isinstance(node, dict):
        for key in ("body", "arms", "args"):
            if key in node:
                _lists(node[key], acc)
        if node.get("else") is not None:
            _lists(node["else"], acc)


def reduce_case(case, key, budget=50):
    """Greedy deletion of AST nodes while the same bucket key persists (bounded;
    only used to name the root cause and to show a small program in the detail)."""
    import copy
    best = copy.deepcopy(case)
    spent = 0
    progress = True
    while progress and spent < budget:
        progress = False
        lists = []
        _lists(best["body"], lists)
        for m in best["macros"]:
            _lists(m["body"], lists)
        for lst in lists:
            i = len(lst) - 1
            while i >= 0 and spent < budget:
                if isinstance(lst[i], list) and lst is not best["body"]:
                    i -= 1          # arms / argument lists keep their arity
                    continue
                item = lst.pop(i)
                spent += 1
                try:
                    r = evaluate(best)
                    same = (not r.ok) and (not r.excluded) and r.key == key
                except Exception:
                    same = False
                if same:
                    progress = True
                else:
                    lst.insert(i, item)
                i -= 1
    return best


def check(case):
    """Verdict of one case.  (reduce_case() is a development aid: it is not run here,
    the runner's shrink pass minimises the replay file of every new bucket.)"""
    return evaluate(case)


def raw_class(src):
    """Root-cause class of a hand-written {'src': ...} repro."""
    if "\\ifcase" in src:
        return "ifcase-out-of-range"
    if "\\newif" in src:
        return "newif-setter-not-local-to-group"
    return "unclassified"


RULE = ("program AST: prologue (probe counters, \\def\\gX{}, operand counters, number macros, \\ifx macros, \\newif "
        "switches, 0-3 macros with 0-2 parameters whose bodies contain conditionals) + body of nested conditionals "
        "(depth <= 4; \\iftrue \\iffalse \\ifnum \\ifdim \\ifodd \\ifcase(1-6 arms, selector -2..arms+2) \\ifx "
        "\\ifdefined \\newif switches; operands decimal/octal/hex/`c literals, \\value{c}, macros, 9 units), every "
        "branch with a unique marker word and a probe (\\stepcounter / \\gdef), plus groups, switch setters, counter "
        "and macro updates, macro calls with conditionals in arguments. Non-trivial: nesting depth >= 2 or an "
        "\\ifcase with >= 2 arms or a conditional inside a macro body/argument. Distinct by sha1 of the AST.")

STREAMS = [
    Stream("nestings", "given", lambda tier: programs(tier), check,
           budget={"quick": 1500, "thorough": 40000}, timeout=30.0, rule=RULE,
           hang_is_violation=True),
]

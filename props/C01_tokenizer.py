"""C01 -- tokenization follows TeX's lexical rules for every input and catcode table.

Streams
  atoms    adversarial atom lists x category tables (default, @-letter, verbatim, 0-6 random
           Context.catcode calls made through the real API, table read back as data)
  rawtext  hypothesis st.text() x the same tables
  short    complete enumeration of all strings of length <= 4 over a 9-character core alphabet
           x {default, @-letter}

Oracle: models/texlex.py (independent transcription of tex.web S343-S356), exact equality of the
(catcode, text) streams after the normal form of DESIGN.md C01; class/category agreement of every
token; no exception, bounded number of tokens; last-assignment-wins model of Context.catcode /
whichCode checked after every catcode call.
"""
import logging

from hypothesis import strategies as st

from vlib import Stream, ok, fail, skip, call_real, known_keys
from models import texlex
from models.texlex import lex, normal_form, CatTable

logging.disable(logging.CRITICAL)

PROPERTY = "C01"
LEVEL = "exploration"
ASSUMPTIONS = [
    "models/texlex.py is a faithful transcription of tex.web S343-S356 (self-checked on TeXbook ch. 7/8 examples: python -m models.texlex)",
    "plasTeX's default and verbatim category tables (Tokenizer.DEFAULT_CATEGORIES / VERBATIM_CATEGORIES) are environment data: "
    "newline=5, blank/tab/CR/FF=10, NUL=9, ASCII letters=11, ~=13, %=14, DEL=12",
    "normal form: a line ends at its newline character (no \\endlinechar insertion, no stripping of trailing blanks), adjacent "
    "\\par tokens are collapsed in both streams, active characters are (0,'active::c')",
    "excluded (counted): ^^ followed by two lower-case hex digits; escape character directly followed by an end-of-line "
    "character / the end of a non-final line; an ignored or invalid character directly after the escape character or "
    "directly ending a control word (plasTeX's character reader documents that it drops category 9/15 characters)",
    "a fresh TeX() has no \\let aliases, so Context.get_let is the identity on every token",
    "stream deftable pins the default categories plain TeX prescribes (TeXbook p. 343) with the newline standing for the "
    "end-of-line character; CR, FF and DEL are not pinned",
]

KNOWN = known_keys(PROPERTY)

# --------------------------------------------------------------------------
# bucket keys <-> model flags / diagnostic deviations
# --------------------------------------------------------------------------
KEY_SUP_EOF = "raise:TypeError@plasTeX/Tokenizer.py:iterchars"
DEV_KEY = dict((d, "lex:" + d) for d in texlex.ALL_DEVIATIONS)
FLAG_OF_KEY = {
    KEY_SUP_EOF: texlex.FLAG_SUP_EOF,
    DEV_KEY[texlex.DEV_CS_STATE_BY_ASCII]: texlex.FLAG_CS_BLANK,
    DEV_KEY[texlex.DEV_SUP_NONASCII]: texlex.FLAG_SUP_NONASCII,
    DEV_KEY[texlex.DEV_EOL_KEEPS_REST]: texlex.FLAG_EOL_MIDLINE,
    DEV_KEY[texlex.DEV_NO_LINE_START]: texlex.FLAG_NL_NOT_EOL,
    DEV_KEY[texlex.DEV_SUP_NO_RESWITCH]: texlex.FLAG_SUP_CHAIN,
    DEV_KEY[texlex.DEV_NL_COMMENT]: texlex.FLAG_NL_COMMENT,
}
NF_FLAGS = (texlex.FLAG_HEX, texlex.FLAG_ESC_EOL, texlex.FLAG_ESC_IGNORED)
KNOWN_FLAGS = tuple(sorted(FLAG_OF_KEY[k] for k in KNOWN if k in FLAG_OF_KEY))
EXCLUDED_FLAGS = frozenset(NF_FLAGS + KNOWN_FLAGS)

# --------------------------------------------------------------------------
# category tables: plasTeX's base tables are data; ops are replayed through the real API
# --------------------------------------------------------------------------
_base_cache = {}


def base_table(base):
    """dict char->code of a base table (data read from plasTeX at start-up)."""
    if base not in _base_cache:
        from plasTeX.Tokenizer import DEFAULT_CATEGORIES, VERBATIM_CATEGORIES
        d = dict(CatTable(list(DEFAULT_CATEGORIES)).map)
        v = dict(CatTable(list(VERBATIM_CATEGORIES)).map)
        a = dict(d)
        a["@"] = 11
        _base_cache.update(default=d, atletter=a, verbatim=v)
    return dict(_base_cache[base])


def model_table(case):
    """last-assignment-wins model of Context.catcode."""
    t = base_table(case["base"])
    stack = []
    for ch, code in case["ops"]:
        if ch == PUSH:
            stack.append(dict(t))           # a nested group: its assignments end with it
        elif ch == POP:
            t = stack.pop()
        elif code == 12:
            t.pop(ch, None)
        else:
            t[ch] = code
    return t


# pseudo operations inside "ops": open / close a nested group (Context.push() / Context.pop())
PUSH, POP = "<push>", "<pop>"


# What plain TeX (TeXbook p. 343, INITEX + plain.tex) prescribes for the default table, written out
# here so that the default table is not only compared with itself.  The newline stands for TeX's
# end-of-line character (normal form).  CR, FF and DEL are plasTeX's own choices and stay data.
PLAIN_DEFAULT = {"\\": 0, "{": 1, "}": 2, "$": 3, "&": 4, "\n": 5, "#": 6, "^": 7, "_": 8, "\x00": 9,
                 " ": 10, "\t": 10, "~": 13, "%": 14}
for _ch in "abcdefghijklmnopqrstuvwxyzABCDEFGHIJKLMNOPQRSTUVWXYZ":
    PLAIN_DEFAULT[_ch] = 11
for _ch in "0123456789@[]?\"!><.,;:-+*/=()|'`\xe9\xdf\u03a9\u4e2d":
    PLAIN_DEFAULT[_ch] = 12

SPECIALS = list("\\{}$&#^_~%")
BLANKS = [" ", "\t", "\n", "\r", "\x0c"]
CORE = SPECIALS + BLANKS + ["\x00", "\x7f", "a", "b", "x", "M", "J", "Z", "0", "7", "@",
                            "\xe9", "\xdf", "\u03a9", "\u4e2d", "[", "?", "\"", "!", ">"]
ATOMS = CORE + [
    "  ", "\n\n", "\r\n", " \n", "\n ", "^^M", "^^@", "^^A", "^^?", "^^I", "^^J", "^^[", "^^^", "^^\"", "^^!",
    "^^", "^^\xe9", "\\ ", "\\\\", "\\%", "\\par", "\\@x", "\\foo", "\\foo@", "\\foo@ ", "\\x ", "\\\xe9",
    "\\\xe9 ", "\\  ", "\\^^M", "\\a^^\"c", "\\~", "x ", "%c\n", "%", "^", "\\", "~ ", "{ ", "\\par\n\n",
    "a\n", "a \n b", "\\foo\n", "\\foo \n",
    # a word ended by a comment, then a blank line (state N after the comment: \par), also as a second
    # paragraph break of the input
    "b%\n\n", "7%c\n\nx", "%\n\n", "a\n\nb%\n\nc",
]
OPCHARS = SPECIALS + [" ", "\t", "\n", "\r", "\x00", "\x7f", "a", "x", "M", "@", "\xe9", "0", "[", "\"", "!"]
OPCODES = list(range(16)) + [0, 5, 7, 9, 10, 11, 11, 13, 14, 15]
WATCH = sorted(set(CORE + OPCHARS))       # characters whose whichCode() is compared after every catcode call


def repair(case):
    """Remove, by construction, every construct outside the asserted domain: delete the character
    the model flags until no excluded flag is left.  Deterministic; the removed classes are recorded."""
    table = CatTable(model_table(case))
    text = case["text"]
    removed = []
    for _ in range(len(text) + 2):
        res = lex(text, table)
        bad = [(n, p) for n, p in res.flags if n in EXCLUDED_FLAGS]
        if not bad:
            break
        n, p = bad[0]
        text = text[:p] + text[p + 1:]
        if n not in removed:
            removed.append(n)
    return {"text": text, "base": case["base"], "ops": case["ops"], "repaired": sorted(removed)}


def tables():
    base = st.sampled_from(["default"] * 5 + ["atletter"] * 3 + ["verbatim"])
    op = st.tuples(st.sampled_from(OPCHARS), st.sampled_from(OPCODES)).map(list)
    plain = st.lists(op, min_size=1, max_size=6)
    # ... a nested group with assignments of its own is opened and closed before the text is read
    nested = st.tuples(st.lists(op, max_size=3), st.lists(op, max_size=3), st.lists(op, max_size=2)).map(
        lambda t: t[0] + [[PUSH, 0]] + t[1] + [[POP, 0]] + t[2])
    ops = st.one_of(st.just([]), st.just([]), plain, plain, nested)
    return st.tuples(base, ops)


def atom_cases(tier):
    text = st.lists(st.sampled_from(ATOMS), max_size=40).map("".join)
    return st.tuples(text, tables()).map(
        lambda t: repair({"text": t[0], "base": t[1][0], "ops": t[1][1]}))


def raw_cases(tier):
    chunk = st.one_of(st.sampled_from(ATOMS), st.text(max_size=3),
                      st.sampled_from(["\x1e", "\x01", "\x1c", "\x0b", "\x85", "\u2028", "\u00a0", "\U0001d4d0"]))
    text = st.one_of(st.text(max_size=40),
                     st.lists(chunk, max_size=25).map("".join),
                     st.lists(chunk, max_size=25).map("".join))
    return st.tuples(text, tables()).map(
        lambda t: repair({"text": t[0], "base": t[1][0], "ops": t[1][1]}))


SHORT_ALPHABET = ["\\", "a", "M", " ", "\n", "^", "%", "@", "\x00"]
SHORT_MAXLEN = {"quick": 4, "thorough": 5}


def short_enum(tier):
    k = len(SHORT_ALPHABET)
    sizes = [k ** n for n in range(SHORT_MAXLEN[tier] + 1)]
    per_table = sum(sizes)

    def fn(i):
        base = ["default", "atletter"][i // per_table]
        j = i % per_table
        n = 0
        while j >= sizes[n]:
            j -= sizes[n]
            n += 1
        chars = []
        for _ in range(n):
            chars.append(SHORT_ALPHABET[j % k])
            j //= k
        return repair({"text": "".join(chars), "base": base, "ops": []})
    return 2 * per_table, fn


# --------------------------------------------------------------------------
# oracle
# --------------------------------------------------------------------------
class TooManyTokens(Exception):
    pass


def _tokenize_real(tex, text, bound):
    out = []
    tex.input(text)
    for t in tex.itertokens():
        out.append(t)
        if len(out) > bound:
            raise TooManyTokens("more than %d tokens from %d characters" % (bound, len(text)))
    return out


def _cls(tok):
    if tok is None:
        return "end"
    code, txt = tok
    if code == 0:
        if txt == "par":
            return "par"
        if txt.startswith("active::"):
            return "active"
        if txt == "":
            return "nullcs"
        return "cs"
    return "c%d" % code


def _subsets(devs):
    devs = list(devs)
    for d in devs:
        yield (d,)
    for i in range(len(devs)):
        for j in range(i + 1, len(devs)):
            yield (devs[i], devs[j])
    for i in range(len(devs)):
        for j in range(i + 1, len(devs)):
            for k in range(j + 1, len(devs)):
                yield (devs[i], devs[j], devs[k])
    if len(devs) > 3:
        yield tuple(devs)


def _table_detail(table_list, base):
    got = CatTable(table_list).map
    ref = base_table("default")
    diff = dict((ch, got.get(ch, 12)) for ch in sorted(set(got) | set(ref)) if got.get(ch, 12) != ref.get(ch, 12))
    return {"base": base, "differs_from_default": diff}


def check(case):
    from plasTeX.TeX import TeX
    from plasTeX.Tokenizer import Tokenizer, EscapeSequence, Space

    text, base, ops = case["text"], case["base"], case["ops"]
    feats = set("repaired:" + r for r in case.get("repaired", ()))
    feats.add("table:" + (base if not ops else "random-ops"))

    # ---- build the category table through the real API; partition property -------------
    tex = TeX()
    ctx = tex.ownerDocument.context
    model = base_table(base)
    if base == "atletter":
        _, err = call_real(ctx.catcode, "@", 11)
        if err is not None:
            return fail(err.key, err.detail(), feats)
    elif base == "verbatim":
        _, err = call_real(ctx.setVerbatimCatcodes)
        if err is not None:
            return fail(err.key, err.detail(), feats)
    steps = [None] + list(ops)
    saved = []
    for step in steps:
        if step is not None and step[0] in (PUSH, POP):
            _, err = call_real(ctx.push if step[0] == PUSH else ctx.pop)
            if err is not None:
                return fail(err.key, dict(err.detail(), op=step), feats)
            if step[0] == PUSH:
                saved.append(dict(model))
                feats.add("table:nested-group-opened-and-closed")
            else:
                model = saved.pop()
        elif step is not None:
            ch, code = step
            _, err = call_real(ctx.catcode, ch, code)
            if err is not None:
                return fail(err.key, dict(err.detail(), op=step), feats)
            if code == 12:
                model.pop(ch, None)
            else:
                model[ch] = code
        for w in WATCH:
            got, err = call_real(ctx.whichCode, w)
            if err is not None:
                return fail(err.key, dict(err.detail(), char=w), feats)
            if got != model.get(w, 12):
                return fail("catcode-partition:whichCode-differs-from-last-assignment",
                            {"char": w, "expected": model.get(w, 12), "observed": got, "after_op": step,
                             "base": base, "ops": ops}, feats)
    table_list = [str(s) for s in ctx.categories]
    try:
        table = CatTable(table_list)
    except ValueError as exc:
        return fail("catcode-partition:character-in-two-classes", {"error": str(exc), "ops": ops, "base": base}, feats)
    if table.map != model:
        return fail("catcode-partition:table-differs-from-last-assignment",
                    {"ops": ops, "base": base, "table": table_list}, feats)

    # ---- model ---------------------------------------------------------------------------
    res = lex(text, table)
    names = res.flag_names()
    for f in NF_FLAGS:
        if f in names:
            return skip("normal-form:" + f, feats)
    # constructs of listed known findings are removed by the generators (repair); a case that still
    # contains one (the finding's own repro, a hand-written replay) is judged like any other.
    expected = normal_form(res.tokens)
    feats |= res.features
    for f in names:
        feats.add("construct:" + f)
    if table.map != base_table("default"):
        feats.add("non-default-table")
    counted = set(["control-word", "control-symbol", "eol-space", "par", "comment", "sup-decoded",
                   "non-default-table"]) & feats
    if "ignored-dropped" in feats or "invalid-dropped" in feats:
        counted.add("ignored-dropped")
    nontrivial = len(counted) >= 2

    # ---- real tokenizer --------------------------------------------------------------------
    bound = 50 * len(text) + 100
    toks, err = call_real(_tokenize_real, tex, text, bound)
    if err is not None:
        key = "no-termination:token-bound-exceeded" if err.type == "TooManyTokens" else err.key
        return fail(key, dict(err.detail(), text=text, table=_table_detail(table_list, base),
                              expected=expected), feats)

    observed = []
    for t in toks:
        code = t.catcode
        if code == 0:
            want = EscapeSequence
        elif code == 10:
            want = Space
        elif isinstance(code, int) and 0 <= code <= 15:
            want = Tokenizer.tokenClasses[code]
        else:
            want = None
        if want is None or type(t) is not want:
            return fail("class-category-disagree:%s/%r" % (type(t).__name__, code),
                        {"text": text, "token": str(t), "class": type(t).__name__, "catcode": repr(code)}, feats)
        observed.append((int(code), str(t)))
    # normal form: adjacent \par tokens are collapsed in both streams (explicit \par\par included)
    observed = normal_form(observed, active_as_cs=False)

    if observed == expected:
        return ok(sorted(feats), nontrivial)

    # ---- name the root cause ------------------------------------------------------------------
    key = None
    for sub in _subsets(texlex.ALL_DEVIATIONS):
        if normal_form(lex(text, table, deviations=sub).tokens) == observed:
            key = "lex:" + "+".join(sub)
            break
    i = 0
    while i < len(expected) and i < len(observed) and expected[i] == observed[i]:
        i += 1
    e = expected[i] if i < len(expected) else None
    o = observed[i] if i < len(observed) else None
    if key is None:
        key = "lex:diff:%s/%s" % (_cls(e), _cls(o))
    return fail(key, {"text": text, "table": _table_detail(table_list, base), "first_difference_at": i,
                      "expected_token": e, "observed_token": o, "expected": expected, "observed": observed,
                      "model_flags": sorted(names)}, sorted(feats))


def deftable_enum(tier):
    chars = sorted(PLAIN_DEFAULT)
    return len(chars), (lambda i: {"char": chars[i]})


def check_deftable(case):
    """The category a fresh TeX() gives a character is the one plain TeX prescribes."""
    from plasTeX.TeX import TeX
    ch = case["char"]
    want = PLAIN_DEFAULT[ch]
    got, err = call_real(lambda: TeX().ownerDocument.context.whichCode(ch))
    if err is not None:
        return fail(err.key, dict(err.detail(), char=ch))
    if got != want:
        return fail("default-table:differs-from-plain-TeX", {"char": ch, "expected": want, "observed": got})
    return ok(["code:%d" % want], want != 12)


RULE_COMMON = ("Non-trivial: the expected stream involves >=2 of {control word, control symbol, space from end of "
               "line, \\par, comment removed, ^^ decoded, ignored/invalid char dropped, non-default table}. "
               "Excluded constructs are removed by construction (character deleted where the model flags it; "
               "classes 'repaired:*').")
STREAMS = [
    Stream("atoms", "given", atom_cases, check, budget={"quick": 1500, "thorough": 50000}, timeout=10.0,
           hang_is_violation=True,
           rule="<=40 atoms from %d adversarial atoms joined to a string x table in {default, @=11, verbatim} "
                "followed by 0-6 Context.catcode(ch, code) calls (ch from %d chars, code 0-15). " % (len(ATOMS), len(OPCHARS))
                + RULE_COMMON),
    Stream("rawtext", "given", raw_cases, check, budget={"quick": 300, "thorough": 8000}, timeout=10.0,
           hang_is_violation=True,
           rule="1/3 hypothesis st.text(max_size=40), 2/3 up to 25 chunks each an atom, st.text(max_size=3) or a raw control / "
                "exotic Unicode character, x the same tables. "
                + RULE_COMMON),
    Stream("short", "enum", short_enum, check, timeout=10.0, hang_is_violation=True,
           rule="every string of length <= %d (thorough: <= %d) over %r under the default and the @-letter table (complete). " %
                (SHORT_MAXLEN["quick"], SHORT_MAXLEN["thorough"], "".join(SHORT_ALPHABET)) + RULE_COMMON),
    Stream("fuzz", "fuzz", lambda tier: ("fuzz/C01_target.py", ["-max_len=80"]), check,
           budget={"quick": 1000, "thorough": 300000}, timeout=10.0, hang_is_violation=True,
           rule="atheris/libFuzzer coverage-guided campaign per worker (plasTeX instrumented; odd workers start from the "
                "strings of unittests/Tokenizer.py, even workers from an empty corpus): bytes -> utf-8 text (errors ignored, "
                "<=64 chars) x table (base + 0-6 catcode ops taken from the end of the input), same oracle inside the target; "
                "failures bucketed, campaign continues. " + RULE_COMMON),
    Stream("deftable", "enum", deftable_enum, check_deftable, timeout=10.0,
           rule="every character of the pinned plain-TeX table (%d characters): whichCode in a fresh TeX() equals the "
                "category plain TeX prescribes (newline standing for the end-of-line character). Non-trivial: category != 12."
                % len(PLAIN_DEFAULT)),
]

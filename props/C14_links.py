"""C14 -- every internal link lands on an existing target.

Generator: models/renderdoc.py documents (marker leaves) with labels on units,
floats, equations and theorems, \\ref / \\cite preceded by a tag word, footnotes,
index entries, bibliography; x split level x toc-depth 0..4 x toc-non-files x
base-url x {HTML5 default, HTML5 minimal, XHTML default}.
Oracle: href/id closure over the produced files + the placement model of C13
(which file must contain the target) + the LaTeX counter model (which number a
\\ref must show) + reachability from the start page.
"""
import re

from hypothesis import strategies as st

from vlib import Stream, ok, fail, known_keys
from models import renderdoc as rd
from models import renderrun as rr

PROPERTY = "C14"
LEVEL = "exploration"
ASSUMPTIONS = [
    "internal links are the href attributes of <a> elements and of <link rel=next|prev|up|...> (rel=stylesheet, "
    "script/img src and svg xlink:href name theme assets, which are not document parts and are not copied here)",
    "an href is internal when it has no scheme, or starts with the configured base-url (stripped before lookup)",
    "the number a \\ref must show comes from the LaTeX counter model of models/renderdoc.numbers (sections within "
    "sec-num-depth, figures, tables, equations, theorems in the positions where the standard classes' rules are "
    "undisputed); for other numbered targets only link closure and the target file are checked",
    "which file holds a target comes from the C13 placement model; a unit's file is recognised by its title "
    "marker in a heading",
    "reachability is over <a href> links starting at the first file the renderer issued (the document's file), "
    "asserted for toc-depth >= 1 and the two themes that carry navigation/toc (HTML5 default, XHTML default)",
]
KNOWN = known_keys(PROPERTY)

# bucket key of the known finding "navigation link to the index has no anchor"
K_INDEX_NAV = "dangling-fragment:index-unit"
# bucket key of the known finding "XHTML has no template for theorem environments: no anchor"
K_XHTML_THM = "dangling-fragment:ref-to-thm"

COMBOS = [("HTML5", "default"), ("XHTML", "default"), ("HTML5", "minimal")]
BASE = "http://x/y/"


@st.composite
def config(draw):
    rend, theme = draw(st.sampled_from(COMBOS))
    return {"renderer": rend, "theme": theme,
            "split": draw(st.sampled_from([1, 0, 2, 1, 0, 2, -1, 3, 4, 6, -2, -10])),
            "toc_depth": draw(st.sampled_from([3, 1, 2, 4, 0, 3, 2])),
            "toc_non_files": draw(st.sampled_from([False, True, False])),
            "base_url": draw(st.sampled_from(["", "", BASE])),
            "filename": draw(st.sampled_from([None, None, None, "index [$id, sect$num(4)]",
                                              "top [$title(2), s$num]", "[$ref-$id, f$num(3)]",
                                              "only"])),
            "jobname": "job"}


INLINE = ["w", "ref", "ref", "w", "ref", "cite", "fn", "idx", "b", "tt", "ref", "w", "fnc", "fnc"]


def exclude_known(case):
    """Known finding 'links to an index that does not open its own file have no
    anchor': while it is listed, the construct (an index rendered inside another
    unit's file) is not generated -- the index is dropped from such cases."""
    doc, cfg = case["doc"], case["cfg"]
    if K_INDEX_NAV in KNOWN and doc.get("index"):
        tpl = cfg["filename"] or "index [$id, sect$num(4)]"
        if rd.effective_split(tpl, cfg["split"]) < rd.index_level(doc["cls"]):
            doc["index"] = False
            case["excluded_known"] = "index-inline"
    if K_XHTML_THM in KNOWN and cfg["renderer"] == "XHTML":
        gone = set()
        blocks = list(doc["pre"])
        for u in doc["units"]:
            blocks += u["blocks"]
        for b in blocks:
            if b["k"] == "thm" and b.get("label"):
                gone.add(b["label"])
                b["label"] = None
        if gone:
            for b in blocks:
                if b["k"] == "par":
                    b["items"] = [it for it in b["items"]
                                  if not (it["t"] == "ref" and it["to"] in gone)] or \
                        [{"t": "w", "leaf": b["items"][0]["leaf"]}]
            case["excluded_known"] = (case.get("excluded_known", "") + " xhtml-thm-label").strip()
    return case


def cases(tier):
    return st.fixed_dictionaries({"doc": rd.doc_strategy(inline_kinds=INLINE, ref_pars=True, mixed_index=True).map(rd.fill_benign),
                                  "cfg": config()}).map(exclude_known)


# ---------------------------------------------------------------------------

SCHEME = re.compile(r"^[A-Za-z][A-Za-z0-9+.-]*:")


def split_href(href, base):
    """-> (file, fragment) for an internal href, None for an external one."""
    h = href
    if base:
        b = base[:-1] if base.endswith("/") else base
        if h.startswith(b + "/"):
            h = h[len(b) + 1:]
        elif SCHEME.match(h):
            return None
    elif SCHEME.match(h):
        return None
    if "#" in h:
        f, frag = h.split("#", 1)
    else:
        f, frag = h, None
    return f, frag


def sink_of(tag, attrs, text):
    """Root-cause class of a link: which template position emitted it."""
    cls = attrs.get("class", "")
    if tag == "link":
        return "link-rel-" + attrs.get("rel", "")
    t = text.strip()
    if attrs.get("title") == "Index" or t == "Index" or re.match(r"^[\d.]+\s+Index$", t):
        return "index-unit"          # navigation / toc entry that points at the index
    if cls:
        return "a." + cls.split()[0]
    return "a"


def check(case):
    doc, cfg = case["doc"], case["cfg"]
    feats = set()
    src = rd.to_latex(doc)
    res = rr.render(src, dict((k, v) for k, v in cfg.items()))
    template = res["config"]["filename"]
    split = rd.effective_split(template, cfg["split"])
    P = rd.Placement(doc, split)
    base = cfg.get("base_url") or ""
    if case.get("excluded_known"):
        feats.add("excluded-known:" + case["excluded_known"])
    feats.add("%s-%s" % (cfg["renderer"], cfg["theme"]))
    feats.add("toc-depth=%d" % cfg["toc_depth"])
    if cfg["toc_non_files"]:
        feats.add("toc-non-files")
    if base:
        feats.add("base-url")
    feats.add("files=%s" % (len(P.order) if len(P.order) < 5 else "5+"))
    ctx = {"source": src, "split": split, "template": template}
    if res["error"] is not None:
        return fail(res["error"]["key"], dict(res["error"]["detail"], **ctx), feats)
    files = rd.decode_files(res)
    scans = dict((n, rd.Scan(t)) for n, t in files.items())
    streams = dict((n, rd.marker_stream(s)) for n, s in scans.items())
    names = sorted(files)
    created = res["created"]
    if len(names) != len(P.order) or sorted(created) != names:
        return fail("file-count", dict(ctx, expected=len(P.order), got=names, created=created), feats)
    node_file, err = rd.assign_files(doc, P, streams, created)
    if err is not None:
        return fail(err[0], dict(ctx, **err[1]), feats)

    # ---- ids unique per file ------------------------------------------------------
    anchors = {}
    for n in names:
        ids = scans[n].ids()
        dup = sorted(set(i for i in ids if ids.count(i) > 1))
        if dup:
            return fail("duplicate-id", dict(ctx, file=n, ids=dup), feats)
        anchors[n] = scans[n].anchors()

    # ---- closure ---------------------------------------------------------------------
    sites = rd.label_sites(doc)
    after = dict((n, rd.anchors_after_markers(scans[n])) for n in names)
    ref_href = {}            # (source file, href) -> kind of the \\ref target, for bucket keys
    for ui, kind, to, tag in rd.ref_sites(doc):
        sf = node_file[P.file_of[ui]]
        hit = after[sf].get(tag)
        if hit is not None and "??" not in hit[3]:
            ref_href[(sf, hit[0])] = "cite" if kind == "cite" else "ref-to-" + sites[to][1]
    graph = dict((n, set()) for n in names)
    nlinks = 0
    for n in names:
        for tag, href, text, attrs in scans[n].links():
            if tag not in ("a", "link"):
                continue
            if tag == "link" and attrs.get("rel") in ("stylesheet", "icon", "shortcut icon"):
                continue
            sp = split_href(href, base)
            if sp is None:
                feats.add("external-link")
                continue
            f, frag = sp
            tgt = f or n
            sink = ref_href.get((n, href)) or sink_of(tag, attrs, text)
            if tgt not in files:
                return fail("dangling-file:" + sink, dict(ctx, file=n, href=href, sink=sink), feats)
            if frag is not None and frag not in anchors[tgt]:
                key = "dangling-fragment:" + sink
                return fail(key, dict(ctx, file=n, href=href, sink=sink,
                                      anchors=sorted(anchors[tgt])[:40]), feats)
            nlinks += 1
            if tag == "a":
                graph[n].add(tgt)

    # ---- \ref and \cite ------------------------------------------------------------
    nums = rd.numbers(doc, res["config"]["sec_num_depth"])
    cross = same = 0
    last_unit = len(doc["units"]) - 1
    bibkeys = [it["key"] for it in doc.get("bib", [])]
    for ui, kind, to, tag in rd.ref_sites(doc):
        src_file = node_file[P.file_of[ui]]
        hit = after[src_file].get(tag)
        if kind == "ref":
            tui, tkind = sites[to]
            if tkind == "unit" and P.opens[tui]:
                exp_file, exp_frag = node_file[tui], None
            else:
                exp_file, exp_frag = node_file[P.file_of[tui]], to
            numbered = to in nums
            if hit is None or "??" in hit[3]:
                if numbered:
                    return fail("ref-unresolved", dict(ctx, tag=tag, to=to, file=src_file,
                                                       expected_number=nums[to]), feats)
                feats.add("ref-to-unnumbered-target")
                continue
            href, text, attrs, tail = hit
            sp = split_href(href, base)
            if sp is None:
                return fail("ref-external", dict(ctx, tag=tag, href=href), feats)
            f, frag = sp
            if (f or src_file) != exp_file:
                return fail("ref-wrong-file", dict(ctx, tag=tag, to=to, href=href, expected_file=exp_file,
                                                   expected_fragment=exp_frag), feats)
            if exp_frag is not None and frag != exp_frag:
                return fail("ref-wrong-fragment", dict(ctx, tag=tag, to=to, href=href,
                                                       expected_fragment=exp_frag), feats)
            if numbered and text.strip() != nums[to]:
                return fail("ref-wrong-number:" + tkind, dict(ctx, tag=tag, to=to, shown=text.strip(),
                                                            expected=nums[to], href=href), feats)
            if numbered:
                feats.add("ref-number-checked:" + tkind)
            else:
                feats.add("ref-link-only:" + tkind)
            if exp_file != src_file:
                cross += 1
            elif not (tkind == "unit" and P.opens[tui]):
                same += 1
        else:
            exp_file = node_file[P.file_of[last_unit]]
            if hit is None:
                return fail("cite-unresolved", dict(ctx, tag=tag, to=to, file=src_file), feats)
            href, text, attrs, tail = hit
            sp = split_href(href, base)
            if sp is None:
                return fail("cite-external", dict(ctx, tag=tag, href=href), feats)
            f, frag = sp
            if (f or src_file) != exp_file or frag != to:
                return fail("cite-wrong-target", dict(ctx, tag=tag, to=to, href=href,
                                                      expected=exp_file + "#" + to), feats)
            if text.strip() != str(bibkeys.index(to) + 1):
                return fail("cite-wrong-number", dict(ctx, tag=tag, to=to, shown=text.strip(),
                                                      expected=str(bibkeys.index(to) + 1)), feats)
            feats.add("cite-checked")
            if exp_file != src_file:
                feats.add("cite-cross-file")
    if cross:
        feats.add("ref-cross-file")
    if same:
        feats.add("ref-same-file-below-split")

    # ---- footnote marks point at their own text -------------------------------------
    for n in names:
        fmarks = [(href, attrs) for tag, href, text, attrs in scans[n].links()
                  if tag == "a" and attrs.get("class") == "footnote"]
        ftexts = [m for m, inh in streams[n] if m[-1] == "f"]
        # marks of the constant "Ibid." footnotes (several footnotes with equal text) carry no marker
        # word: each must still land on a footnote text; the others are paired with the markers
        paired = []
        for href, attrs in fmarks:
            sp = split_href(href, base)
            txt = None if sp is None or sp[1] is None else rd.element_text_by_id(scans[sp[0] or n], sp[1])
            if txt is not None and "Ibid." in txt and not any(m in txt for m in ftexts):
                feats.add("equal-footnotes")
                continue
            if txt is None and sp is not None and sp[1] is not None and len(fmarks) > len(ftexts):
                return fail("footnote-mark-target", dict(ctx, file=n, href=href, marker="(constant footnote)"), feats)
            paired.append((href, attrs))
        fmarks = paired
        if len(fmarks) != len(ftexts):
            return fail("footnote-mark-count", dict(ctx, file=n, marks=len(fmarks), texts=ftexts), feats)
        for (href, attrs), m in zip(fmarks, ftexts):
            sp = split_href(href, base)
            if sp is None or sp[1] is None:
                return fail("footnote-mark-target", dict(ctx, file=n, href=href, marker=m), feats)
            txt = rd.element_text_by_id(scans[sp[0] or n], sp[1])
            if txt is None or m not in txt:
                return fail("footnote-mark-target", dict(ctx, file=n, href=href, marker=m, target_text=txt), feats)
        if fmarks:
            feats.add("footnote-marks-checked")

    # ---- index page links point into the file that holds the \index ---------------------
    if doc.get("index"):
        idx_file = node_file[P.file_of[rd.INDEX_UNIT]]
        for leaf, kind, ui, slot in rd.walk_leaves(doc):
            if kind != "k":
                continue
            m = rd.MARK_RE.match(leaf["s"]).group(0)
            hit = after[idx_file].get(m)
            if hit is None:
                return fail("index-entry-without-link", dict(ctx, marker=m, file=idx_file), feats)
            sp = split_href(hit[0], base)
            exp = node_file[P.file_of[ui]]
            if sp is None or (sp[0] or idx_file) != exp or not sp[1]:
                return fail("index-link-wrong-file", dict(ctx, marker=m, href=hit[0], expected_file=exp), feats)
            feats.add("index-links-checked")
            if exp != idx_file:
                feats.add("index-link-cross-file")

    # ---- reachability ----------------------------------------------------------------------
    if cfg["toc_depth"] >= 1 and cfg["theme"] == "default" and len(names) > 1:
        start = node_file[-1]

        def bfs(g):
            seen = set([start])
            todo = [start]
            while todo:
                x = todo.pop()
                for y in sorted(g[x]):
                    if y not in seen:
                        seen.add(y)
                        todo.append(y)
            return seen
        seen = bfs(graph)
        miss = [n for n in names if n not in seen]
        if miss:
            return fail("unreachable-file", dict(ctx, start=start, unreachable=miss), feats)
        # through table-of-contents links alone: HTML5 default carries the document's toc
        # (toc-depth levels deep) on every page, XHTML default lists on every page the
        # units below that page (toc-depth levels deep)
        box = "nav.toc" if cfg["renderer"] == "HTML5" else "div.contents"
        tocgraph = dict((n, set()) for n in names)
        for n in names:
            for href, _t, attrs, stack in rd.links_with_context(scans[n]):
                if box in stack:
                    sp = split_href(href, base)
                    if sp is not None and (sp[0] or n) in tocgraph:
                        tocgraph[n].add(sp[0] or n)
        seen = bfs(tocgraph)
        want = []
        for nd in P.order:
            depth = 0
            m = nd
            while P.parent.get(m) is not None:
                depth += 1
                m = P.parent[m]
            if cfg["renderer"] == "XHTML" or depth <= cfg["toc_depth"]:
                want.append(nd)
        miss = [node_file[nd] for nd in want if node_file[nd] not in seen]
        if miss:
            return fail("not-reachable-through-toc", dict(ctx, start=start, unreachable=miss,
                                                          toc_depth=cfg["toc_depth"]), feats)
        feats.add("reachability-checked")
    return ok(sorted(feats), cross >= 1 and same >= 1)


RULE = ("documents of models/renderdoc.doc_strategy (as C13; every \\ref/\\cite is preceded by a unique tag word, "
        "targets are labelled units, figures, tables, equations, theorems, bibitems) x split-level {-10,-2..4,6} x "
        "toc-depth 0..4 x toc-non-files x base-url {'', 'http://x/y/'} x template {default, 3 wildcard forms, "
        "single-file} x {HTML5 default, XHTML default, HTML5 minimal}. Non-trivial: >=1 \\ref whose source and "
        "target are in different files and >=1 \\ref to a target inside the same file (an in-file anchor).")

STREAMS = [
    Stream("links", "given", cases, check, budget={"quick": 110, "thorough": 2500},
           timeout=60.0, rule=RULE),
]

rr.preload()

"""C02 -- macro definitions expand as TeX's substitution rules say.

Generator: a Hypothesis composite that builds a *program AST* of the macro
language of DESIGN.md C02 (defs with delimited / undelimited / #{ parameter
texts, \\newcommand with optional argument, nested defs with ##, \\let aliases
(macro and character), \\csname, \\expandafter, groups), recursion-free and
TeX-legal by construction; this module renders the AST to source.
Oracle: models/minitex.py (independent TeX expander) on the same source;
compared with TeX().input(src).parse().textContent (whitespace removed) and
with the context depth before/after.
"""
import logging
import re

from hypothesis import strategies as st

from vlib import Stream, ok, fail, skip, call_real, known_keys
from models import minitex

logging.disable(logging.CRITICAL)

PROPERTY = "C02"
LEVEL = "exploration"
ASSUMPTIONS = [
    "models/minitex.py is a faithful transcription of tex.web 268-283, 343-400, 440-476, 487-510 and of latex.ltx "
    "\\newcommand/\\@testopt for the generated sub-language (self-test: 37 examples from The TeXbook / tex.web)",
    "default category codes; the control-sequence names of the pools (qa qb qc qd foo zork x q ala alb cha chb hx hy "
    "Lq La Lo Lzo Lx fin sep s w) are undefined in LaTeX and in a fresh plasTeX context",
    "normal form of DESIGN.md C02: no recursion, no \\edef, no \\global, \\newcommand only at brace level 0, a delimiter "
    "token never occurs inside the argument it delimits (not even inside braces), macro names are letters only",
    "visible text = character tokens of category 11/12 that reach TeX's stomach, blanks removed",
]

KNOWN = known_keys(PROPERTY)
K_HASHBRACE = "text-mismatch:hash-brace"
K_STRIP = "text-mismatch:delimited-brace-strip"
K_XA_EMPTY = "text-mismatch:expandafter-empty-expansion"
K_GDEF_SHADOW = "text-mismatch:gdef-shadowed-by-local-definition"
K_QUAD_HASH = "text-mismatch:quad-hash-below-parameterless-def"
K_QUAD_HASH_RAISE = "raise:ValueError@plasTeX/__init__.py:invoke:quad-hash"
K_LETCHAR = "text-mismatch:let-char-alias-resolved-by-tokenizer"

POOL = ["qa", "qb", "qc", "qd", "foo", "zork", "x", "q"]
ALIASES = ["ala", "alb"]
CHARLETS = ["cha", "chb"]
HELPERS = ["hx", "hy"]
LETTERMACROS = {"Lq": "q", "La": "a", "Lo": "o", "Lzo": "zo", "Lx": "x"}
DELIM_CHARS = [".", ",", ";", ":", "!", "/", "|"]
DELIM_CS = ["\\fin", "\\sep", "\\s", "\\w"]
ALLDELIMS = frozenset(DELIM_CHARS + DELIM_CS + ["[", "]"])
TEXTCHARS = "abcdefghijklmnopqrstuvwyzABXY0123456789()+?@"
SINGLE = "abcdemnprstuvwyz0123456789?+"


# ----------------------------------------------------------------------------
# rendering of the AST to source
# ----------------------------------------------------------------------------
_CW_END = re.compile(r"\\[a-zA-Z]+$")


def join_atoms(atoms):
    out = []
    prev_cw = False
    for a in atoms:
        if not a:
            continue
        if prev_cw and a[0].isalpha():
            out.append(" ")
        out.append(a)
        prev_cw = bool(_CW_END.search(a))
    return "".join(out)


def hashes(lv):
    return "#" * (2 ** lv)


def spell_atoms(spell):
    """Name spelled inside \\csname: list of ['l', letters] / ['m', lettermacro]."""
    at = ["\\csname"]
    for kind, v in spell:
        at.append(v if kind == "l" else "\\" + v)
    at.append("\\endcsname")
    return at


def sig_param_text(sig, lv):
    at = []
    if sig["kind"] == "tex":
        at.extend(sig["prefix"])
        for i, p in enumerate(sig["params"]):
            at.append(hashes(lv) + str(i + 1))
            at.extend(p["delim"])
        if sig["hashbrace"]:
            at.append(hashes(lv))
    return at


def render_items(items, at):
    for it in items:
        render_item(it, at)


def render_args(sig, args, at, lo=0, hi=None, prefix=True):
    """Call-site rendering of args[lo:hi] for a signature."""
    hi = len(args) if hi is None else hi
    if sig["kind"] == "opt":
        for i in range(lo, hi):
            render_arg(args[i], at, "[" if i == 0 else None)
        return
    if prefix:
        at.extend(sig["prefix"])
    for i in range(lo, hi):
        render_arg(args[i], at, None)
        at.extend(sig["params"][i]["delim"])


def render_arg(a, at, bracket):
    f = a["form"]
    if f == "absent":
        return
    if a.get("sp"):
        at.append(" ")
    if bracket:
        at.append("[")
    if f == "tok":
        render_items(a["c"], at)
    elif f == "grp":
        at.append("{")
        render_items(a["c"], at)
        at.append("}")
    elif f == "ggrp":
        at.append("{{")
        render_items(a["c"], at)
        at.append("}}")
    elif f == "sgrp":
        at.append(" {")
        render_items(a["c"], at)
        at.append("}")
    elif f == "raw":
        render_items(a["c"], at)
    else:  # pragma: no cover
        raise ValueError(f)
    if bracket:
        at.append("]")


def render_item(it, at):
    k = it["k"]
    if k == "t":
        at.append(it["s"])
    elif k == "sp":
        at.append(" ")
    elif k == "relax":
        at.append("\\relax")
    elif k == "par":
        at.append(hashes(it["lv"]) + str(it["n"]))
    elif k == "usec":
        at.append("\\" + it["name"])
    elif k == "grp":
        at.append("{" if it["kind"] == "brace" else "\\begingroup")
        render_items(it["body"], at)
        at.append("}" if it["kind"] == "brace" else "\\endgroup")
    elif k == "def":
        sig = it["sig"]
        if it["via"] == "csname":
            at.append("\\expandafter")
            at.append("\\" + it["cmd"])
            at.extend(spell_atoms(it["spell"]))
        else:
            at.append("\\" + it["cmd"])
            at.append("\\" + it["name"])
        at.extend(sig_param_text(sig, it["lv"]))
        at.append("{")
        render_items(it["body"], at)
        at.append("}")
    elif k == "newcommand":
        sig = it["sig"]
        at.append("\\" + it["cmd"])
        if it.get("star"):
            at.append("*")
        at.append("{\\" + it["name"] + "}" if it.get("braced") else "\\" + it["name"])
        n = sig["n"] if sig["kind"] == "opt" else len(sig["params"])
        if n or it.get("explicit0"):
            at.append("[%d]" % n)
        if sig["kind"] == "opt":
            at.append("[")
            render_items(it["default"], at)
            at.append("]")
        at.append("{")
        render_items(it["body"], at)
        at.append("}")
    elif k == "let":
        at.append("\\let")
        at.append("\\" + it["alias"])
        at.append(["", "=", "= ", " ="][it["form"]])
        at.append("\\" + it["src"])
    elif k == "letc":
        at.append("\\let")
        at.append("\\" + it["name"])
        at.append(["=", "= ", " =", ""][it["form"]])
        at.append(it["ch"])
    elif k == "call":
        if it["via"] == "csname":
            at.extend(spell_atoms(it["spell"]))
        else:
            at.append("\\" + it["name"])
        render_args(it["sig"], it["args"], at)
        if it.get("tail") is not None:
            render_item(it["tail"], at)
    elif k == "xcall":
        at.append("\\def")
        at.append("\\" + it["helper"])
        at.append("{")
        render_args(it["sig"], it["args"], at, 0, it["split"], True)
        at.append("}")
        at.append("\\expandafter")
        at.append("\\" + it["name"])
        at.append("\\" + it["helper"])
        render_args(it["sig"], it["args"], at, it["split"], None, False)
        if it.get("tail") is not None:
            render_item(it["tail"], at)
        if it.get("again"):
            at.append("\\" + it["helper"])
            at.append("\\relax")
    else:  # pragma: no cover
        raise ValueError(k)


def render(case):
    if "src" in case:
        return case["src"]
    at = []
    for name in sorted(LETTERMACROS):
        at.append("\\def\\%s{%s}" % (name, LETTERMACROS[name]))
    render_items(case["body"], at)
    return join_atoms(at)


# ----------------------------------------------------------------------------
# generation-time scope tracker (which names are defined, and what their
# bodies need to be defined when they are called)
# ----------------------------------------------------------------------------
class Scope(object):
    def __init__(self):
        self.tab = {}
        self.level = 1
        self.saves = []

    def define(self, name, deps, glob=False):
        if glob:
            self.tab[name] = (frozenset(deps), 1)
            return
        e = self.tab.get(name)
        if e is not None and e[1] == self.level:
            self.tab[name] = (frozenset(deps), self.level)
        else:
            if self.level > 1:
                self.saves[-1].append((name, e))
            self.tab[name] = (frozenset(deps), self.level)

    def push(self):
        self.saves.append([])
        self.level += 1

    def pop(self):
        for name, old in reversed(self.saves.pop()):
            cur = self.tab.get(name)
            if cur is not None and cur[1] == 1:
                continue
            if old is None:
                del self.tab[name]
            else:
                self.tab[name] = old
        self.level -= 1

    def defined(self, name):
        return name in self.tab

    def callable(self, name, seen=()):
        e = self.tab.get(name)
        if e is None or name in seen:
            return False
        return all(self.callable(d, seen + (name,)) for d in e[0])


class Ctx(object):
    """Where items are being generated."""

    def __init__(self, rank, frames, forbid, need, in_body, local_defined, deps, budget):
        self.rank = rank              # callees must have a smaller rank
        self.frames = frames          # [(lv, nparams, levels)] of the enclosing defs
        self.forbid = forbid          # delimiter tokens that may not occur here
        self.need = need              # required cleanliness level of what is generated here
        self.in_body = in_body
        self.local_defined = local_defined
        self.deps = deps
        self.budget = budget

    def sub(self, forbid=None, need=None, budget=None):
        need = self.need if need is None else max(need, self.need)
        forbid = self.forbid if forbid is None else forbid
        if need >= 1:
            forbid = ALLDELIMS
        return Ctx(self.rank, self.frames, forbid, need, self.in_body,
                   self.local_defined, self.deps, self.budget - 1 if budget is None else budget)


class Gen(object):
    def __init__(self, draw, tier):
        self.draw = draw
        self.tier = tier
        self.scope = Scope()
        self.features = set()
        self.excluded = {}

    # -- small draw helpers ----------------------------------------------------
    def i(self, a, b):
        return self.draw(st.integers(a, b))

    def p(self, tenths):
        return self.draw(st.integers(0, 9)) < tenths

    def pick(self, seq):
        return seq[self.draw(st.integers(0, len(seq) - 1))]

    def word(self, maxlen=3):
        n = self.i(1, maxlen)
        return "".join(self.pick(TEXTCHARS) for _ in range(n))

    def note_excluded(self, what):
        self.excluded[what] = self.excluded.get(what, 0) + 1

    # -- signatures ------------------------------------------------------------
    def make_delim(self):
        n = 1 if self.p(7) else 2
        toks = []
        for j in range(n):
            if self.p(8):
                toks.append(self.pick(DELIM_CHARS))
            else:
                toks.append(self.pick(DELIM_CS))
        if n == 2 and toks[0] == toks[1]:
            toks.pop()
        return toks

    def level(self):
        """Cleanliness level of a parameter: 0 = any argument; 1 = no delimiter
        token anywhere in the argument (so #k may be forwarded into delimited
        positions); 2 = plain text only (so #k may be used as a bare undelimited
        argument)."""
        return [0, 0, 0, 0, 1, 1, 1, 2, 2, 2][self.i(0, 9)]

    def make_sig(self):
        r = self.i(0, 9)
        if r <= 1:
            n = self.i(1, 3)
            return {"kind": "opt", "n": n, "clean": [self.level() for _ in range(n)]}
        if r <= 3:
            np_ = 0
        elif r <= 7:
            np_ = self.i(1, 3)
        else:
            np_ = 9 if self.p(3) else self.i(4, 9)
        params = []
        for _ in range(np_):
            if self.p(4):
                params.append({"delim": self.make_delim()})
            else:
                params.append({"delim": []})
        prefix = []
        if self.p(1):
            prefix = [self.pick(DELIM_CHARS) for _ in range(self.i(1, 2))]
        hashbrace = False
        if self.p(1):
            if K_HASHBRACE in KNOWN:
                self.note_excluded("hash-brace")
            else:
                hashbrace = True
                if params:
                    params[-1]["delim"] = []
        return {"kind": "tex", "params": params, "prefix": prefix, "hashbrace": hashbrace,
                "clean": [self.level() for _ in range(np_)]}

    @staticmethod
    def sig_tokens(sig):
        if sig["kind"] == "opt":
            return {"[", "]"}
        s = set(sig["prefix"])
        for p in sig["params"]:
            s.update(p["delim"])
        return s

    @staticmethod
    def sig_nparams(sig):
        return sig["n"] if sig["kind"] == "opt" else len(sig["params"])

    @staticmethod
    def sig_plain(sig):
        return (sig["kind"] == "tex" and not sig["prefix"] and not sig["hashbrace"] and
                all(not p["delim"] for p in sig["params"]))

    # -- program ---------------------------------------------------------------
    def build(self):
        order = self.draw(st.permutations(POOL))
        nnames = self.i(2, len(POOL))
        self.names = list(order[:nnames])
        self.rank = dict((n, 2 * i) for i, n in enumerate(self.names))
        self.sigs = dict((n, self.make_sig()) for n in self.names)
        # with the \gdef-shadowing finding listed, a name is defined either always
        # globally or always locally (so a \gdef never meets a live local definition)
        self.gflag = dict((n, self.p(3)) for n in self.names)
        # names that may be (re)defined by nested defs inside bodies
        self.nestable = set(n for n in self.names if self.p(3))
        self.alias_src = {}
        for a in ALIASES:
            src = self.pick(self.names)
            self.alias_src[a] = src
            self.sigs[a] = self.sigs[src]
            self.rank[a] = self.rank[src] + 1
        for n in LETTERMACROS:
            self.scope.define(n, ())
        self.live_aliases = set()
        self.char_let_seen = set()
        ctx = Ctx(10 ** 6, [], frozenset(), 0, False, set(), set(), 2)
        body = self.statements(ctx, self.i(3, 10), 0)
        # make sure that something is called at the end
        for _ in range(self.i(0, 2)):
            cands = self.callable_names(ctx)
            if cands:
                body.append(self.gen_call(ctx, cands))
        return {"body": body, "features": sorted(self.features), "excluded": self.excluded}

    def statements(self, ctx, n, gdepth):
        out = []
        for _ in range(n):
            st_ = self.statement(ctx, gdepth)
            if st_ is not None:
                out.extend(st_)
        return out

    def callable_names(self, ctx):
        if ctx.need >= 2:
            return []
        res = []
        for n in self.names + ALIASES:
            if self.rank[n] >= ctx.rank:
                continue
            if self.sig_tokens(self.sigs[n]) & ctx.forbid:
                continue
            if n in ctx.local_defined:
                res.append(n)
            elif ctx.in_body:
                if self.scope.defined(n):
                    res.append(n)
            elif self.scope.callable(n):
                res.append(n)
        return res

    def statement(self, ctx, gdepth):
        r = self.i(0, 19)
        cands = self.callable_names(ctx)
        if r <= 5 or (not cands and r <= 12):
            return self.gen_def(gdepth)
        if r <= 11 and cands:
            return [self.gen_call(ctx, cands)]
        if r == 12:
            if self.p(5) and gdepth < 4:
                sc = self.gen_let_scenario(ctx, gdepth)
                if sc is not None:
                    return sc
            return self.gen_let(gdepth)
        if r == 13:
            return self.gen_letc(gdepth)
        if r <= 15 and gdepth < 4:
            kind = "brace" if self.p(6) else "semi"
            self.scope.push()
            body = self.statements(ctx, self.i(1, 4), gdepth + 1)
            self.scope.pop()
            self.features.add("group-depth-%d" % (gdepth + 1))
            return [{"k": "grp", "kind": kind, "body": body}]
        if r == 16:
            u = self.gen_usec(ctx)
            if u is not None:
                return [u]
        if r == 17:
            return [{"k": "relax"}]
        return [{"k": "t", "s": self.word()}]

    # -- definitions -------------------------------------------------------------
    def gen_def(self, gdepth):
        name = self.pick(self.names)
        undefined = [n for n in self.names if not self.scope.defined(n)]
        if undefined and self.p(6):
            # define the names bottom-up, so that bodies find something to call
            name = undefined[0]
        sig = self.sigs[name]
        defined = self.scope.defined(name)
        deps = set()
        np_ = self.sig_nparams(sig)
        frames = [(0, np_, sig["clean"])]
        ctx = Ctx(self.rank[name], frames, frozenset(), 0, True, set(), deps, 2)
        can_nc = gdepth == 0 and (defined or sig["kind"] == "opt" or name not in self.nestable)
        use_nc = can_nc and (sig["kind"] == "opt" or (self.sig_plain(sig) and self.p(4)))
        if sig["kind"] == "opt" and not use_nc:
            # an optional-argument command can only be (re)defined by \newcommand at level 0
            self.note_excluded("opt-def-inside-group")
            return None
        body = self.gen_body(ctx, name)
        if name in self.live_aliases:
            self.features.add("has-let-then-redefine")
        if use_nc:
            node = {"k": "newcommand", "cmd": "renewcommand" if defined else "newcommand",
                    "star": self.p(2), "braced": self.p(5), "name": name, "sig": sig, "body": body,
                    "explicit0": self.p(2)}
            if sig["kind"] == "opt":
                lvl = sig["clean"][0]
                dctx = Ctx(self.rank[name], [], ALLDELIMS if lvl else frozenset(["[", "]"]), lvl, True,
                           set(), deps, 1)
                node["default"] = self.no_single_group(self.gen_items(dctx, self.i(1 if lvl >= 2 else 0, 2)))
                self.features.add("has-optional")
            self.features.add("has-newcommand")
            self.scope.define(name, deps)
            return [node]
        cmd = self.def_cmd(name, 3)
        node = {"k": "def", "cmd": cmd, "name": name, "via": "plain", "sig": sig, "lv": 0, "body": body}
        if self.p(1):
            node["via"] = "csname"
            node["spell"] = self.spell(name)
            self.features.add("has-csname")
            self.features.add("has-expandafter")
        if cmd == "gdef" and gdepth > 0:
            self.features.add("gdef-in-group")
        if any(p["delim"] for p in sig["params"]) or sig["prefix"] or sig["hashbrace"]:
            self.features.add("def-with-delimiters")
        self.scope.define(name, deps, glob=(cmd == "gdef"))
        return [node]

    def def_cmd(self, name, tenths):
        if K_GDEF_SHADOW in KNOWN:
            self.features.add("excluded-known:mixed-def-gdef-of-one-name")
            return "gdef" if self.gflag[name] else "def"
        return "gdef" if self.p(tenths) else "def"

    def spell(self, name):
        out = []
        i = 0
        while i < len(name):
            done = False
            if self.p(4):
                for m, v in sorted(LETTERMACROS.items()):
                    if name.startswith(v, i) and self.p(7):
                        out.append(["m", m])
                        i += len(v)
                        done = True
                        break
            if not done:
                out.append(["l", name[i]])
                i += 1
        return out

    def gen_body(self, ctx, name):
        """Body of a top-level definition: optional nested defs first, then items."""
        items = []
        nested = [n for n in self.names if self.rank[n] < ctx.rank and n in self.nestable and
                  self.sigs[n]["kind"] == "tex" and not self.sigs[n]["hashbrace"]]
        if nested and self.p(4):
            for _ in range(self.i(1, 2)):
                nn = self.pick(nested)
                items.append(self.gen_nested_def(ctx, nn, 1))
                ctx.local_defined.add(nn)
            self.features.add("has-nested-def")
        items.extend(self.gen_items(ctx, self.i(1, 5)))
        return items

    def gen_nested_def(self, ctx, name, lv):
        sig = self.sigs[name]
        np_ = len(sig["params"])
        # outer parameters may appear in the nested body only when their arguments are
        # plain text: an argument containing a call of the name being redefined would
        # make the new definition recursive
        outer = [(l, n, [x if x >= 2 else -1 for x in lev]) for l, n, lev in ctx.frames]
        frames = outer + [(lv, np_, sig["clean"])]
        # leaf body: text and parameters (own: ## / outer: #) only
        inner = Ctx(0, frames, frozenset(), 0, True, set(), ctx.deps, 0)
        body = self.gen_items(inner, self.i(1, 4))
        if lv == 1 and self.p(4):
            # depth-2 nesting: a parameterless helper defined and used inside
            h = self.pick(HELPERS)
            with_par = self.p(5)
            if with_par and ctx.frames[0][1] == 0 and (K_QUAD_HASH in KNOWN or K_QUAD_HASH_RAISE in KNOWN):
                self.note_excluded("quad-hash-below-parameterless-macro")
                with_par = False
            if with_par:
                # ... with a parameter of its own, written ####1
                hsig = {"kind": "tex", "params": [{"delim": []}], "prefix": [], "hashbrace": False,
                        "clean": [2]}
                hctx = Ctx(0, frames + [(lv + 1, 1, [2])], frozenset(), 0, True, set(), ctx.deps, 0)
                hb = self.gen_items(hctx, self.i(1, 3))
                hargs = [{"form": "grp", "sp": False, "c": [{"k": "t", "s": self.word()}]}]
                self.features.add("nested-def-depth-2-with-parameter")
            else:
                hsig = {"kind": "tex", "params": [], "prefix": [], "hashbrace": False, "clean": []}
                hb = self.gen_items(inner, self.i(1, 2))
                hargs = []
            body = [{"k": "def", "cmd": "def", "name": h, "via": "plain", "sig": hsig, "lv": lv + 1,
                     "body": hb},
                    {"k": "call", "name": h, "via": "plain", "sig": hsig, "args": hargs}] + body
            self.features.add("nested-def-depth-2")
        return {"k": "def", "cmd": self.def_cmd(name, 2), "name": name, "via": "plain",
                "sig": sig, "lv": lv, "body": body}

    # -- items inside bodies and arguments ---------------------------------------------
    def par_choices(self, ctx, need=None):
        need = ctx.need if need is None else max(need, ctx.need)
        if ctx.forbid:
            # inside a delimited argument only parameters whose actual arguments are
            # free of delimiter tokens may be forwarded
            need = max(need, 1)
        res = []
        for lv, np_, levels in ctx.frames:
            for k in range(np_):
                if levels[k] >= need:
                    res.append((lv, k + 1))
        return res

    def gen_items(self, ctx, n):
        out = []
        for _ in range(n):
            r = self.i(0, 11)
            pars = self.par_choices(ctx)
            if r <= 3 and pars:
                lv, k = self.pick(pars)
                out.append({"k": "par", "lv": lv, "n": k})
                continue
            if ctx.budget > 0 and ctx.need < 2:
                if r <= 7:
                    cands = self.callable_names(ctx)
                    if cands:
                        out.append(self.gen_call(ctx, cands))
                        continue
                if r == 8:
                    kind = "brace" if self.p(7) else "semi"
                    out.append({"k": "grp", "kind": kind, "body": self.gen_items(ctx.sub(), self.i(0, 3))})
                    self.features.add("group-in-body-or-arg")
                    continue
                if r == 9:
                    u = self.gen_usec(ctx)
                    if u is not None:
                        out.append(u)
                        continue
            out.append({"k": "t", "s": self.word()})
        return out

    def gen_usec(self, ctx):
        cands = [c for c in CHARLETS if self.scope.defined(c)]
        if not cands or ctx.need >= 2:
            return None
        c = self.pick(cands)
        if ctx.in_body:
            if K_LETCHAR in KNOWN:
                self.note_excluded("let-char-inside-macro-body")
                return None
            ctx.deps.add(c)
            self.features.add("let-char-used-in-body")
        self.features.add("let-char-used")
        return {"k": "usec", "name": c}

    # -- calls --------------------------------------------------------------------------
    def gen_call(self, ctx, cands):
        name = self.pick(cands)
        sig = self.sigs[name]
        if ctx.in_body and name not in ctx.local_defined:
            ctx.deps.add(name)
        args = self.gen_args(ctx, sig)
        node = {"k": "call", "name": name, "via": "plain", "sig": sig, "args": args}
        if sig["kind"] == "tex" and sig["hashbrace"]:
            node["tail"] = {"k": "grp", "kind": "brace", "body": self.gen_items(ctx.sub(budget=0), self.i(0, 2))}
            self.features.add("call-hash-brace")
        r = self.i(0, 9)
        if r == 0 and name not in ALIASES:
            node["via"] = "csname"
            node["spell"] = self.spell(name)
            self.features.add("has-csname")
        elif r == 1 and sig["kind"] == "tex":
            helper = self.pick(HELPERS)
            split = self.i(0, len(args))
            probe = []
            render_args(sig, args, probe, 0, split, True)
            if not join_atoms(probe).strip() and K_XA_EMPTY in KNOWN:
                self.note_excluded("expandafter-over-empty-macro")
            else:
                # half of the time the helper is used again after the call: \\expandafter must not
                # have changed what the macro it expanded means (second occurrence)
                node = dict(node, k="xcall", helper=helper, split=split, again=self.i(0, 1) == 1)
                self.features.add("has-expandafter")
                if node["again"]:
                    self.features.add("expandafter-helper-used-again")
        if name in ALIASES:
            self.features.add("call-through-alias")
        if any(p["delim"] for p in sig.get("params", [])) or sig.get("prefix"):
            self.features.add("call-delimited")
        if ctx.in_body:
            self.features.add("call-in-body")
        return node

    def gen_args(self, ctx, sig):
        args = []
        if sig["kind"] == "opt":
            for i in range(sig["n"]):
                lvl = sig["clean"][i]
                if i == 0:
                    r = self.i(0, 9)
                    if r <= 3:
                        args.append({"form": "absent", "c": []})
                        continue
                    form = "raw"
                    if r == 9:
                        if K_STRIP in KNOWN:
                            self.note_excluded("braced-optional-argument")
                        else:
                            form = "grp"
                            self.features.add("arg-single-group-delimited")
                    c = self.gen_items(ctx.sub(forbid=ctx.forbid | frozenset(["[", "]"]), need=lvl),
                                       self.i(1 if lvl >= 2 else 0, 2))
                    args.append({"form": form, "c": self.no_single_group(c) if form == "raw" else c,
                                 "sp": False})
                else:
                    args.append(self.undelimited_arg(ctx, lvl, last=(i == sig["n"] - 1)))
            return args
        for i, p in enumerate(sig["params"]):
            lvl = sig["clean"][i]
            last_hb = sig["hashbrace"] and i == len(sig["params"]) - 1
            if last_hb:
                # delimited by the next { : plain tokens only
                args.append({"form": "raw", "sp": False,
                             "c": [{"k": "t", "s": self.word()} for _ in range(self.i(1 if lvl >= 2 else 0, 2))]})
            elif p["delim"]:
                r = self.i(0, 9)
                if r <= 1:
                    form = "grp"
                elif r == 2:
                    form = "sgrp"
                elif r == 3:
                    form = "ggrp"
                else:
                    form = "raw"
                if form in ("grp", "ggrp", "sgrp"):
                    # (a blank before the group is swallowed after a control word, so
                    # " {x}" can be a single-group argument as well)
                    if K_STRIP in KNOWN:
                        self.note_excluded("single-group-delimited-argument")
                        form = "raw"
                    else:
                        self.features.add("arg-single-group-delimited")
                c = self.gen_items(ctx.sub(forbid=ctx.forbid | frozenset(p["delim"]), need=lvl),
                                   self.i(1 if lvl >= 2 else 0, 3))
                args.append({"form": form, "sp": False,
                             "c": self.no_single_group(c) if form == "raw" else c})
            else:
                args.append(self.undelimited_arg(ctx, lvl, last=(i == len(sig["params"]) - 1 and
                                                                  not sig["hashbrace"])))
        return args

    def no_single_group(self, content):
        """With the brace-stripping finding listed: a delimited (or forwarded)
        argument never consists of exactly one brace group."""
        single = len(content) == 1 and content[0]["k"] == "grp" and content[0]["kind"] == "brace"
        if single and K_STRIP in KNOWN:
            self.note_excluded("single-group-delimited-argument")
            return [{"k": "t", "s": self.word(1)}] + content
        if single:
            self.features.add("arg-single-group-delimited")
        return content

    def undelimited_arg(self, ctx, lvl, last=False):
        r = self.i(0, 9)
        sp = self.p(2)
        if r <= 2:
            return {"form": "tok", "sp": sp, "c": [{"k": "t", "s": self.pick(SINGLE)}]}
        if r <= 4 and last:
            # bare #k as an undelimited argument: only plain-text parameters, and only as
            # the last argument of the call -- the callee takes the first token of the
            # actual argument, the rest stays behind as text; in any other position the
            # following arguments would shift (a braced argument could end up inside a
            # delimited one, with that parameter's delimiter hidden in its braces)
            pars = self.par_choices(ctx, need=2)
            if pars:
                lv, k = self.pick(pars)
                self.features.add("arg-bare-parameter")
                return {"form": "tok", "sp": sp, "c": [{"k": "par", "lv": lv, "n": k}]}
        sub = ctx.sub(need=lvl)
        if r == 4:
            # a single control sequence: parameterless macro of lower rank
            c2 = [n for n in self.callable_names(sub)
                  if self.sig_nparams(self.sigs[n]) == 0 and not self.sigs[n].get("hashbrace")
                  and not self.sigs[n].get("prefix")]
            if c2:
                n = self.pick(c2)
                if ctx.in_body and n not in ctx.local_defined:
                    ctx.deps.add(n)
                self.features.add("arg-single-cs")
                return {"form": "tok", "sp": sp,
                        "c": [{"k": "call", "name": n, "via": "plain", "sig": self.sigs[n], "args": []}]}
        if r == 5:
            if K_STRIP in KNOWN:
                self.note_excluded("double-braced-argument")
            else:
                self.features.add("arg-double-braced")
                return {"form": "ggrp", "sp": sp, "c": self.gen_items(sub, self.i(1 if lvl >= 2 else 0, 2))}
        c = self.gen_items(sub, self.i(1 if lvl >= 2 else 0, 3))
        if K_STRIP in KNOWN:
            c = self.no_single_group(c)
        return {"form": "grp", "sp": sp, "c": c}

    # -- \let ---------------------------------------------------------------------------------
    def gen_let(self, gdepth):
        a = self.pick(ALIASES)
        src = self.alias_src[a]
        if not self.scope.defined(src):
            return None
        deps, _ = self.scope.tab[src]
        self.scope.define(a, deps)
        self.live_aliases.add(src)
        self.features.add("has-let")
        return [{"k": "let", "alias": a, "src": src, "form": self.i(0, 3)}]

    def gen_let_scenario(self, ctx, gdepth):
        r"""\let\al\src  { \def\src{new} \let\al\src  \al.. }  \al..  : the alias keeps the
        meaning its source had at the time of the \let, and the inner \let is local."""
        out = self.gen_let(gdepth)
        if out is None:
            return None
        a = out[0]["alias"]
        src = self.alias_src[a]
        if self.sigs[src]["kind"] == "opt":
            return out
        self.scope.push()
        inner = []
        name_backup = self.names
        # redefine the source inside the group (locally unless its definitions are all global)
        self.names = [src]
        d = self.gen_def(gdepth + 1)
        self.names = name_backup
        if d is not None:
            inner.extend(d)
        l2 = self.gen_let(gdepth + 1)
        if l2 is not None:
            inner.extend(l2)
        if self.scope.callable(a):
            inner.append(self.gen_call(ctx, [a]))
        self.scope.pop()
        out.append({"k": "grp", "kind": "brace" if self.p(6) else "semi", "body": inner})
        if self.scope.callable(a):
            out.append(self.gen_call(ctx, [a]))
        self.features.add("let-relet-in-group-scenario")
        self.features.add("group-depth-%d" % (gdepth + 1))
        return out

    def gen_letc(self, gdepth):
        c = self.pick(CHARLETS)
        if c in self.char_let_seen and K_LETCHAR in KNOWN:
            # a second \let of the same name changes the meaning of uses inside
            # macro bodies and arguments tokenized earlier
            self.note_excluded("let-char-relet")
            return None
        self.char_let_seen.add(c)
        self.scope.define(c, ())
        self.features.add("has-let-char")
        return [{"k": "letc", "name": c, "ch": self.pick("abcxyz0123?+"), "form": self.i(0, 3)}]


@st.composite
def programs(draw, tier="quick"):
    return Gen(draw, tier).build()


# ----------------------------------------------------------------------------
# oracle
# ----------------------------------------------------------------------------
def release(tex, doc):
    """Harness hygiene, after the observations were taken: plasTeX tokens are str
    subclasses that point to their document but are invisible to the cycle collector,
    so a processed document (with all its per-context classes, ~0.4 MB) is never
    freed.  Emptying the containers lets reference counting free everything."""
    try:
        ctx = doc.context
        for c in list(ctx.contexts):
            dict.clear(c)
            c.__dict__.clear()
        ctx.__dict__.clear()
        while doc.childNodes:
            doc.pop()
        doc.__dict__.clear()
        tex.__dict__.clear()
    except Exception:
        pass


def run_real(src):
    from plasTeX.TeX import TeX
    tex = TeX()
    tex.disableLogging()
    doc = tex.ownerDocument
    d0 = len(doc.context.contexts)
    try:
        tex.input(src)
        out = tex.parse()
        return "".join(out.textContent.split()), len(doc.context.contexts) - d0
    finally:
        release(tex, doc)


def suspects(stats):
    """Suspect constructs the model saw being exercised, most specific first."""
    out = []
    if stats["hash_brace"]:
        out.append(K_HASHBRACE)
    if stats["quad_hash"]:
        out.append(K_QUAD_HASH)
    if stats["expandafter_empty"]:
        out.append(K_XA_EMPTY)
    if stats["let_char"]:
        out.append(K_LETCHAR)
    if stats["stripped_delimited"]:
        out.append(K_STRIP)
    if stats["gdef_over_local"]:
        out.append(K_GDEF_SHADOW)
    if stats["opt_present"] or stats["opt_default"]:
        out.append("text-mismatch:optional-argument")
    if stats["double_hash"]:
        out.append("text-mismatch:nested-definition")
    if stats["delimited"]:
        out.append("text-mismatch:delimited-parameter")
    if stats["csname"]:
        out.append("text-mismatch:csname")
    if stats["expandafter"]:
        out.append("text-mismatch:expandafter")
    if stats["let_macro"]:
        out.append("text-mismatch:let")
    if stats["max_level"] > 1:
        out.append("text-mismatch:grouping")
    return out


def judge(src):
    """('skip'|'ok'|'raise'|'text'|'depth', model, observation)."""
    try:
        m = minitex.MiniTeX(src).run()
    except minitex.TeXError as e:
        return "skip", None, str(e)
    if m.final_level != 0:
        return "skip", m, "unbalanced"
    got, err = call_real(run_real, src)
    if err is not None:
        return "raise", m, err
    text, ddepth = got
    if text != m.text:
        return "text", m, text
    if ddepth != 0:
        return "depth", m, ddepth
    return "ok", m, text


def _lists(node, acc):
    """All item lists of an AST (each can lose elements independently)."""
    if isinstance(node, list):
        acc.append(node)
        for x in node:
            _lists(x, acc)
    elif isinstance(node, dict):
        for key in ("body", "c", "default"):
            if key in node:
                _lists(node[key], acc)
        if node.get("tail") is not None:
            _lists(node["tail"], acc)
        for a in node.get("args", ()):
            _lists(a, acc)


def reduce_case(case, verdict, err_key, budget=30):
    """Greedy deletion of AST items while the same kind of failure persists
    (bounded; used only to name the root cause, never to decide pass/fail)."""
    import copy
    best = copy.deepcopy({"body": case["body"]})
    spent = 0
    progress = True
    while progress and spent < budget:
        progress = False
        lists = []
        _lists(best["body"], lists)
        for lst in lists:
            i = len(lst) - 1
            while i >= 0 and spent < budget:
                item = lst.pop(i)
                spent += 1
                v, m, obs = judge(render(best))
                if v == verdict and (v != "raise" or obs.key == err_key):
                    progress = True
                else:
                    lst.insert(i, item)
                i -= 1
    return best


def check(case):
    src = render(case)
    feats = set(case.get("features", ()))
    for k, v in sorted(case.get("excluded", {}).items()):
        feats.add("excluded-known:" + k)
    verdict, m, obs = judge(src)
    if verdict == "skip":
        if m is None:
            return skip("model-rejects-input", sorted(feats) + ["model-rejects:" + obs.split(" \\")[0][:40]])
        return skip("model-unbalanced-groups", sorted(feats))
    s = m.stats
    for stat, name in (("delimited", "has-delimited"), ("stripped_delimited", "stripped-delimited"),
                       ("stripped_undelimited", "stripped-undelimited"), ("opt_present", "optional-present"),
                       ("opt_default", "optional-default"), ("hash_brace", "hash-brace"),
                       ("partial_match", "partial-match"), ("restored", "local-def-restored"),
                       ("expandafter_empty", "expandafter-empty-expansion"), ("double_hash", "double-hash"),
                       ("quad_hash", "quad-hash"),
                       ("let_char", "let-char"), ("gdef_over_local", "gdef-over-live-local-def"), ("let_macro", "let-macro"), ("csname", "csname"),
                       ("expandafter", "expandafter")):
        if s[stat]:
            feats.add(name)
    if s["global_defs"] and s["max_level"] > 1:
        feats.add("global-def")
    feats.add("depth-%d" % min(s["max_depth"], 5))
    feats.add("max-group-level-%d" % min(s["max_level"] - 1, 5))
    if m.text == "":
        feats.add("empty-output")
    nontrivial = s["calls_at_depth>0"] >= 1 or s["delimited"] >= 1
    if verdict == "ok":
        return ok(sorted(feats), nontrivial)
    detail = {"src": src, "expected": m.text}
    if verdict == "raise":
        key = obs.key
        if key + ":quad-hash" == K_QUAD_HASH_RAISE and s["quad_hash"]:
            key = K_QUAD_HASH_RAISE
        return fail(key, dict(detail, **obs.detail()), sorted(feats))
    # name the root cause: reduce the program when more than one suspect construct is present
    sus = suspects(s)
    if len(sus) > 1 and "body" in case:
        small = reduce_case(case, verdict, None)
        v2, m2, obs2 = judge(render(small))
        if v2 == verdict:
            sus = suspects(m2.stats)
            detail["reduced_src"] = render(small)
            detail["reduced_expected"] = m2.text
            detail["reduced_observed"] = obs2
    if verdict == "depth":
        return fail("context-depth-not-restored" + (":" + sus[0].split(":", 1)[1] if sus else ""),
                    dict(detail, depth_delta=obs), sorted(feats))
    key = sus[0] if sus else "text-mismatch:substitution"
    return fail(key, dict(detail, observed=obs), sorted(feats))


RULE = ("program AST drawn from the C02 grammar (2-8 macro names with a fixed calling convention and rank each: "
        "0-9 parameters, undelimited / delimited by 1-2 tokens / #{ / literal prefix / [n][default]; definers "
        "\\def \\gdef \\newcommand \\renewcommand, via \\expandafter\\def\\csname; bodies with #k, nested defs (##), "
        "calls of lower-ranked names, groups; \\let of macros and characters; calls with token / braced / doubly "
        "braced / delimited arguments, via \\csname and via \\expandafter over a helper macro; 0-4 group levels). "
        "Non-trivial: the model saw a macro call made from inside another macro's expansion, or a delimited "
        "parameter being matched. Distinct by sha1 of the AST.")

K_CSNAME_BRACE = "boundary:brace-character-inside-csname"


# --------------------------------------------------------------------------
# boundary: complete product of parameter texts x boundary arguments x uses of the argument
# --------------------------------------------------------------------------
# (parameter text after the macro name, how a call is written around the argument A)
B_PARAMS = [("#1.", "%s."), ("#1 ", "%s "), ("#1\\fin ", "%s\\fin "), ("#1.,", "%s.,"), ("#1;#2.", "%s;q."),
            ("#1 #2.", "%s q."), ("[#1]", "[%s]"), ("#1", "%s"), ("#1#2", "%sq"), ("x#1.", "x%s.")]
B_ARGS = ["", "{}", "{{}}", "{}{}", "u", "{u}", "uv", "{u}v", "u{v}", "{uv}", "{u}{v}", "{{u}}", "{u v}", "{ }"]
# (body of the macro under test; helper macros \zba (1 undelimited), \zbb (2 undelimited), \zbc (delimited))
B_BODIES = ["[#1]", "\\zba#1xw", "\\zba{#1}xw", "\\zbb#1xw", "\\zbc#1.w", "\\csname zq#1\\endcsname", "#1#1",
            "{#1}", "\\zba#1"]
B_PRE = ("\\def\\zba#1{<#1>}\\def\\zbb#1#2{<#1|#2>}\\def\\zbc#1.{(#1)}"
         "\\def\\zq{Q0}\\def\\zqu{Q1}\\def\\zquv{Q2}")


def boundary(tier):
    combos = [(p, a, b) for p in range(len(B_PARAMS)) for a in range(len(B_ARGS)) for b in range(len(B_BODIES))]

    def fn(n):
        p, a, b = combos[n]
        return {"param": p, "arg": a, "body": b}
    return len(combos), fn


def boundary_source(case):
    ptext, call = B_PARAMS[case["param"]]
    arg = B_ARGS[case["arg"]]
    body = B_BODIES[case["body"]]
    if "#2" in ptext:
        body = body + "/#2"
    return "%s\\def\\zt%s{%s}A\\zt%sT Z" % (B_PRE, ptext, body, call % arg)


def check_boundary(case):
    src = boundary_source(case).replace("\\\\", "\\")
    feats = ["param:" + B_PARAMS[case["param"]][0], "arg:" + (B_ARGS[case["arg"]] or "(empty)"),
             "use:" + B_BODIES[case["body"]]]
    verdict, m, obs = judge(src)
    if verdict == "skip":
        return skip("model-rejects-input" if m is None else "model-unbalanced-groups", feats)
    nontrivial = "{" in B_ARGS[case["arg"]] or B_ARGS[case["arg"]] == ""
    if m.stats.get("csname_brace"):
        # listed finding: while it is listed the combination is counted, not judged
        if K_CSNAME_BRACE in KNOWN and not case.get("judge_anyway"):
            return skip("excluded-known:brace-character-inside-csname", feats)
        if verdict != "ok":
            return fail(K_CSNAME_BRACE, {"src": src, "expected": m.text,
                                         "observed": obs if verdict == "text" else repr(obs)[:300]}, feats)
    if verdict == "ok":
        return ok(feats, nontrivial)
    detail = {"src": src, "expected": m.text}
    if verdict == "raise":
        return fail("boundary:" + obs.key, dict(detail, **obs.detail()), feats)
    if verdict == "depth":
        return fail("boundary:context-depth-not-restored", dict(detail, depth_delta=obs), feats)
    return fail("boundary:text-mismatch:%s" % ("delimited" if case["param"] not in (7, 8) else "undelimited"),
                dict(detail, observed=obs), feats)


RULE_B = ("complete product of 10 parameter texts (delimited by a character, a blank, a control word, two tokens, "
          "between two parameters, [..], undelimited, after a literal prefix) x 14 boundary arguments (empty, {}, {{}}, "
          "{}{}, one/two tokens, groups before/after/around tokens, a group holding a blank) x 9 uses of the argument "
          "(printed, handed on bare/braced to macros with one, two or delimited parameters, inside \\csname, twice, in a "
          "group, as last token); expected text from models/minitex. Non-trivial: the argument is empty or has a group.")

STREAMS = [
    Stream("boundary", "enum", boundary, check_boundary, timeout=30.0, rule=RULE_B),
    Stream("programs", "given", lambda tier: programs(tier), check,
           budget={"quick": 1500, "thorough": 40000}, timeout=30.0, rule=RULE,
           hang_is_violation=True),
]

"""C15 -- the filename generator yields unique, clean names in template order.

Generator: rule-based state machine; an @initialize rule draws a template of the
documented grammar plus charsub / extension / reserved names, every step binds a
subset of {id, title, name, ref} from a colliding pool and requests a name.
Oracle: models/fnmodel.py (non-deterministic reference model) + invariants.
"""
from hypothesis import strategies as st
from hypothesis.stateful import initialize, rule

from vlib import Stream, ok, fail, call_real
from vlib.stateful import HistoryMachine, history_check
from models import fnmodel

PROPERTY = "C15"
LEVEL = "exploration"
ASSUMPTIONS = [
    "reference model models/fnmodel.py is a faithful reading of the Filenames docstring and of the C15 statement",
    "the initial namespace is the content of `variables` at the first request (generator body runs lazily)",
    "where the statement is silent (namespace seen by later alternatives after a collision) both readings are accepted",
    "templates keep a variable without format followed by a non-word character, as the $name syntax requires",
]

DEFAULT_BAD = ': #$%^&*!~`"\'=?/{}[]()|<>;\\,.'

# --------------------------------------------------------------------------
# template strategy (docstring grammar)
# --------------------------------------------------------------------------
VARS = ["id", "title", "name", "ref"]


def var_atom():
    plain = st.sampled_from(VARS + ["jobname"]).flatmap(
        lambda v: st.sampled_from(["$" + v, "${" + v + "}"]))
    limited = st.tuples(st.sampled_from(["title", "name", "id"]), st.integers(1, 5),
                        st.booleans()).map(
        lambda t: ("${%s}(%d)" if t[2] else "$%s(%d)") % (t[0], t[1]))
    num = st.one_of(st.just("$num"), st.just("${num}"),
                    st.integers(1, 5).map(lambda w: "$num(%d)" % w))
    return st.one_of(plain, limited, num, num)


LITS = ["sect", "s", "f", "top", "x", "node"]


@st.composite
def alternative(draw):
    parts = []
    if draw(st.booleans()):
        parts.append(draw(st.sampled_from(LITS)))
    nv = draw(st.integers(0 if parts else 1, 2))
    used = set()
    for i in range(nv):
        a = draw(var_atom())
        nm = a.strip("${}").split("}")[0].split("(")[0]
        if nm in used:
            continue
        used.add(nm)
        if parts and parts[-1].startswith("$") and not parts[-1].endswith(")"):
            parts.append("-")
        elif parts and parts[-1].endswith(")"):
            parts.append(draw(st.sampled_from(["-", "", "."])) if False else "-")
        parts.append(a)
    return "".join(parts)


@st.composite
def template(draw):
    names = []
    nstat = draw(st.integers(0, 3))
    for _ in range(nstat):
        names.append(draw(st.one_of(
            st.sampled_from(["index", "toc.html", "front", "file$num", "$jobname-top",
                             "$id.html", "${title}(2)", "index.html"]),
            alternative())))
    if draw(st.integers(0, 9)) > 0:
        alts = draw(st.lists(alternative(), min_size=1, max_size=4))
        if draw(st.integers(0, 3)) > 0:
            alts[-1] = draw(st.sampled_from(["sect$num", "f$num(3)", "$num", "s$num(4)"]))
        sp = lambda: " " * draw(st.integers(0, 2))
        body = (sp() + ",").join(sp() + a for a in alts)
        prefix = draw(st.sampled_from(["", "", "p-", "top"]))
        suffix = draw(st.sampled_from(["", "", ".html", ".htm"]))
        names.append(prefix + "[" + body + sp() + "]" + suffix)
    if not names:
        names.append("only")
    sep = draw(st.sampled_from([" ", "  ", " \t "]))
    return sep.join(names)


IDS = ["a", "b", "sec:one", "x y", "a/b", "é1", "a", "fig.1"]
TITLES = ["Intro", "The First Part", "a b c", "A/B: c", "", "Intro", "x  y   z w v u",
          "What? \"Now\"", "a.b c"]
NAMES = ["section", "chapter", "document"]
REFS = ["1", "1.2", "A", "1"]


@st.composite
def config(draw):
    return {
        "spec": draw(template()),
        "charsub": draw(st.sampled_from([None, [" /:", "-"], [DEFAULT_BAD, "_"],
                                         [DEFAULT_BAD, "-"]])),
        "jobname": draw(st.sampled_from(["job", "my doc"])),
        "extension": draw(st.sampled_from(["", ".html"])),
        "invalid": draw(st.lists(st.sampled_from(["index.html", "sect1.html", "a.html",
                                                  "1", "s0001", "index", "f001.html"]),
                                 max_size=2, unique=True)),
    }


bindings = st.fixed_dictionaries({}, optional={
    "id": st.sampled_from(IDS), "title": st.sampled_from(TITLES),
    "name": st.sampled_from(NAMES), "ref": st.sampled_from(REFS)})


# --------------------------------------------------------------------------
# session: real generator + model
# --------------------------------------------------------------------------
class Session(object):
    def __init__(self, cfg):
        from plasTeX.Filenames import Filenames
        self.cfg = cfg
        variables = {"jobname": cfg["jobname"]}
        self.real = Filenames(cfg["spec"],
                              tuple(cfg["charsub"]) if cfg["charsub"] else None,
                              variables, cfg["extension"],
                              dict((k, None) for k in cfg["invalid"]))
        self.model = fnmodel.FnModel(cfg["spec"], cfg["charsub"], {"jobname": cfg["jobname"]},
                                     cfg["extension"], cfg["invalid"])
        self.issued = []
        self.features = set()
        self.done = False
        if cfg["charsub"]:
            self.features.add("charsub")
        if self.model.statics:
            self.features.add("has-statics")
        if len(self.model.wild) > 1:
            self.features.add("alternatives>1")

    def apply(self, op):
        if self.done:
            return None
        binds = op["bind"]
        outcomes = self.model.predict(binds)
        self.features |= self.model.last_features
        if any(v for k, v in binds.items() if " " in v) and "(" in self.cfg["spec"]:
            self.features.add("word-limit-possible")
        for k, v in binds.items():
            self.real.variables[k] = v
        got, err = call_real(self.real)
        if err is not None:
            if err.type == "ValueError" and "could not be created" in err.message:
                obs = fnmodel.ERROR
            else:
                return fail(err.key, dict(err.detail(), issued=self.issued, bind=binds,
                                          expected=sorted(outcomes)))
        else:
            obs = got
        if obs != fnmodel.ERROR:
            if not isinstance(obs, str):
                return fail("non-string-result", {"got": repr(obs), "expected": sorted(outcomes),
                                                  "issued": self.issued, "bind": binds})
            if obs in self.issued:
                return fail("duplicate-name", {"got": obs, "issued": self.issued, "bind": binds})
            if obs in self.cfg["invalid"]:
                return fail("reserved-name-issued", {"got": obs, "bind": binds})
        if obs not in outcomes:
            if obs == fnmodel.ERROR:
                key = "error-but-name-expected"
            elif fnmodel.ERROR in outcomes and len(outcomes) == 1:
                key = "name-but-error-expected"
            else:
                key = "wrong-name"
            return fail(key, {"got": obs, "expected": sorted(outcomes), "issued": self.issued,
                              "bind": binds})
        self.model.commit(obs, outcomes)
        if obs == fnmodel.ERROR:
            self.features.add("error-expected")
            self.done = True
        else:
            self.issued.append(obs)
        return None

    def finish(self):
        nt = (len(self.issued) >= 3 and
              bool(self.features & set(["collision", "alternative-skipped-unbound",
                                        "static-skipped-unbound"])))
        return ok(sorted(self.features), nt)


class Machine(HistoryMachine):
    SESSION = Session

    @initialize(cfg=config())
    def init(self, cfg):
        self.start(cfg)

    @rule(b=bindings)
    def request(self, b):
        self.do({"bind": b})


RULE = ("state machine: draw a template of the docstring grammar (0-3 statics, wildcard with 1-4 "
        "alternatives, $var ${var} $var(n) $num $num(w)), charsub in {none,' /:'->'-',default bad-chars}, "
        "extension, 0-2 reserved names; each step binds a subset of id/title/name/ref from a colliding pool "
        "and requests a name (<=12 requests). Non-trivial: >=3 names issued and >=1 collision or skipped "
        "(unbound) alternative/static. Distinct by sha1 of (config, ops).")

STREAMS = [
    Stream("history", "machine", lambda tier: Machine, history_check(Session),
           budget={"quick": 400, "thorough": 12000}, timeout=10.0, rule=RULE,
           hang_is_violation=True, steps={"quick": 12, "thorough": 12}),
    Stream("fuzz", "fuzz", lambda tier: ("fuzz/C15_target.py", ["-max_len=128"]),
           history_check(Session), budget={"quick": 12000, "thorough": 200000}, timeout=10.0,
           rule=("atheris/libFuzzer coverage-guided campaign per worker (plasTeX instrumented): bytes -> "
                 "(template, config, <=12 requests) via FuzzedDataProvider, same session oracle inside the "
                 "target; failures bucketed, campaign continues; non-trivial as in 'history'."),
           hang_is_violation=True),
]

"""C20 -- cross-document label data survives a round trip and never blocks processing.

Streams: roundtrip (D1 rendered -> D2 parsed the way Compile.parse does -> references
resolve, per renderer), truncation (every prefix of a saved file), bitflip (every single
bit of a small saved file, sampled bits of a larger one), corrupt (splices, opcode-aware
edits, foreign content), history (save / corrupt / restore / remove over two renderers
sharing one file).

Everything runs under the real renderers (HTML5, XHTML): `Context.persist` only stores
the rendered strings while the renderer's mixin is active.  To avoid one render per fault
the fault loop runs *inside* the render, in the renderer's `cleanup` hook (the call right
before the program's own persist, mixin active).

Oracle: models/pauxmodel.py (document numbers/targets, fault functions, an independent
decode of file content, what restore may yield / what persist must leave).
"""
import contextlib
import io
import logging
import os
import re
import resource
import shutil
import sys
import tempfile
import traceback

from hypothesis import strategies as st
from hypothesis.stateful import initialize, rule

from vlib import Stream, ok, fail, skip, call_real, known_keys
from vlib.stateful import HistoryMachine, history_check
from models import pauxmodel as pm

logging.disable(logging.CRITICAL)

PROPERTY = "C20"
LEVEL = "fault_enumeration"
ASSUMPTIONS = [
    "the strings run 1 'rendered' are what the labelled nodes' ref/title/captionName/id/url yield as str() "
    "inside the renderer's cleanup hook (mixin active), cross-checked against models/pauxmodel.py's document "
    "model: LaTeX counter rules of the article class for the number, label = id, sectioning units are files "
    "and everything else is <file of the enclosing unit>#<label>, the title contains the plain words in order",
    "a faulty file is judged by what it says under an independent decode (pickle.loads in the harness): labels "
    "the file no longer spells, or spells malformed, may be absent; every restored label must be spelled by the "
    "file with exactly the restored attributes; a file whose table for the renderer is fully well formed (dict of "
    "dicts of known attribute names to strings, non-empty id, no macroName) must be restored completely -- it is "
    "indistinguishable from an intact file (a flipped bit inside a string payload cannot be noticed by any reader)",
    "after a save the file must load to a dict whose entry for the saving renderer is a dict holding every "
    "current label with the rendered attributes; other renderers' entries must survive a save only when the "
    "previous content was produced by saves alone; stale labels of the same renderer may stay (merge) or go",
    "faults: truncations, bit flips, <=8 small splices, opcode-aware edits, renderer-key swaps and harness-made "
    "foreign content; no crafted GLOBAL/REDUCE payloads; address space capped at 3 GiB (RLIMIT_AS) so that "
    "length bombs raise MemoryError, which the program must absorb",
    "restore is a function of (file bytes, renderer name) on a fresh document: the round-trip restore of a "
    "re-saved file is evaluated once per distinct byte content within a case",
    "a directory in place of the file, unwritable directories and concurrent writers are outside the statement",
]

KNOWN = known_keys(PROPERTY)
KEY_NONDICT = "persist-raise:TypeError:non-dict-renderer-entry"
KNOWN_NONDICT = KEY_NONDICT in KNOWN
KEY_POISON = "resave-roundtrip-lost"
KNOWN_POISON = KEY_POISON in KNOWN
XK = [k for k, v in (("nondict", KNOWN_NONDICT), ("poison", KNOWN_POISON)) if v]

OTHER = {"HTML5": "XHTML", "XHTML": "HTML5"}

# --------------------------------------------------------------------------
# harness
# --------------------------------------------------------------------------
_guarded = False


def guard():
    """Once per worker process: cap the address space before corrupted pickles are loaded."""
    global _guarded
    if _guarded:
        return
    _guarded = True
    lim = 3 << 30
    try:
        soft, hard = resource.getrlimit(resource.RLIMIT_AS)
        if hard != resource.RLIM_INFINITY:
            lim = min(lim, hard)
        if soft == resource.RLIM_INFINITY or soft > lim:
            resource.setrlimit(resource.RLIMIT_AS, (lim, hard if hard != resource.RLIM_INFINITY else lim))
    except (ValueError, OSError):
        pass


class HarnessBug(Exception):
    pass


def scratch_dir(prefix):
    """Per-case directory.  The fault loops do three file operations per fault and the disk
    behind the worker's cwd costs ~0.25-4 ms per operation under load; a tmpfs is 10x faster.
    Falls back to a sub-directory of the worker's scratch directory."""
    for base in ("/dev/shm", "."):
        if os.path.isdir(base) and os.access(base, os.W_OK):
            try:
                return os.path.abspath(tempfile.mkdtemp(prefix="verif-%s%d-" % (prefix, os.getpid()), dir=base))
            except OSError:
                continue
    return os.path.abspath(tempfile.mkdtemp(prefix=prefix))


@contextlib.contextmanager
def casedir():
    base = os.getcwd()
    d = scratch_dir("c20-")
    os.chdir(d)
    try:
        yield d
    finally:
        os.chdir(base)
        shutil.rmtree(d, ignore_errors=True)


@contextlib.contextmanager
def quiet_stderr():
    """CPython prints 'SystemError: deallocated bytearray object has exported buffers' straight
    to sys.stderr while failing on a corrupted BYTEARRAY8 opcode; keep the report readable."""
    old = sys.stderr
    sys.stderr = io.StringIO()
    try:
        yield
    finally:
        sys.stderr = old


def rpath(rname):
    """The documented third way of naming a renderer: the path of its package."""
    import plasTeX
    return os.path.join(os.path.dirname(os.path.abspath(plasTeX.__file__)), "Renderers", rname)


def rmod(rname):
    if rname == "HTML5" or rname.endswith(os.sep + "HTML5"):
        import plasTeX.Renderers.HTML5 as m
    else:
        import plasTeX.Renderers.XHTML as m
    return m


def mkconfig(rname, pauxdirs=None):
    from plasTeX.Config import defaultConfig
    from plasTeX.Renderers.HTML5.Config import addConfig
    config = defaultConfig()
    addConfig(config)
    config["images"]["imager"] = "none"
    config["images"]["vector-imager"] = "none"
    config["general"]["copy-theme-extras"] = False
    config["general"]["renderer"] = rname
    if pauxdirs:
        config["general"]["paux-dirs"] = list(pauxdirs)
    return config


def capture(document):
    """What the labelled nodes yield under the renderer (called in the cleanup hook)."""
    cap = {}
    for lab, node in document.context.persistentLabels.items():
        ent = {}
        for a in pm.ATTRS:
            v = getattr(node, a, None)
            if v is None:
                continue
            ent[a] = str.__str__(str(v))
        cap[lab] = ent
    return cap


def unmix_leftovers(renderer):
    """Renderer.render leaves its mixin on Node when persist raises at its end."""
    from plasTeX.DOM import Node
    from plasTeX.Renderers import unmix
    if "renderer" in vars(Node):        # render did not reach its last two lines
        del Node.renderer
        unmix(Node, type(renderer).renderableClass)


def render_doc(src, rname, jobname, hook=None, document=None):
    """Parse `src` (unless a parsed document is given) and render it with renderer `rname`
    into the current directory.  hook(document, cap) runs in the renderer's cleanup (mixin
    active, before the program's own persist).  Returns (box, RealError|None)."""
    from plasTeX.TeX import TeX
    from plasTeX import TeXDocument
    box = {"cap": None, "files": None, "hook": None}
    if document is None:
        config = mkconfig(rname)
        document = TeXDocument(config=config)
        tex = TeX(document)
        tex.input(src)
        document.userdata["jobname"] = jobname
        document.userdata["working-dir"] = os.getcwd()
        _, err = call_real(tex.parse)
        if err is not None:
            box["stage"] = "parse"
            return box, err
    base = rmod(rname).Renderer

    class Hooked(base):
        def cleanup(self, document, files, postProcess=None):
            res = base.cleanup(self, document, files, postProcess=postProcess)
            try:
                box["cap"] = capture(document)
                box["files"] = [str(f) for f in files]
                if hook is not None:
                    box["hook"] = hook(document, box["cap"])
            except Exception:
                box["bug"] = traceback.format_exc()
                raise
            return res

    renderer = Hooked()
    try:
        with quiet_stderr():
            _, err = call_real(renderer.render, document)
    finally:
        unmix_leftovers(renderer)
    if "bug" in box:
        raise HarnessBug(box["bug"])
    box["stage"] = "render"
    box["document"] = document
    return box, err


def read_file(path):
    if not os.path.exists(path):
        return None
    with open(path, "rb") as f:
        return f.read()


def write_file(path, content):
    if content is None:
        if os.path.exists(path):
            os.remove(path)
        return
    with open(path, "wb") as f:
        f.write(content)


def state_cause(state, rname):
    c = pm.classify(state, rname)
    return {"missing": "missing-file", "unloadable": "unloadable-file",
            "loadable-non-dict": "non-dict-file", "loadable-no-entry": "no-entry-for-renderer",
            "loadable-non-dict-entry": "non-dict-renderer-entry",
            "loadable-table-exact": "wellformed-table",
            "loadable-table-subset": "malformed-entry"}[c]


def persist_failure(err, state, rname, extra):
    cause = state_cause(state, rname)
    if cause == "non-dict-renderer-entry":
        key = "persist-raise:%s:%s" % (err.type, cause)
    else:
        key = "persist-raise:%s" % cause
    return fail(key, dict(err.detail(), **extra))


def read_restored(labels, state, rname, mixed):
    """Read from the restored nodes the attributes the file spells for them."""
    _, table = pm.expect_restore(state, rname)
    got = {}
    for key, node in labels.items():
        want = table.get(key) if isinstance(key, str) else None
        attrs = {}
        for a in (want or {}):
            try:
                if a == "url":
                    v = node.url if mixed else getattr(node, "urloverride", None)
                else:
                    v = getattr(node, a, None)
            except Exception as exc:
                v = "<reading raised %s>" % type(exc).__name__
            if isinstance(v, str):
                v = str.__str__(v)
            attrs[a] = v
        got[key] = attrs
    return got


def do_restore(config, path, rname, state, mixed, extra, must=None, reuse=None):
    """Fresh document, restore(path, rname) as Compile.parse does; judge with the model.
    must: labels (with attributes) that have to come back whatever else the file holds.
    reuse: a one-element list holding a document that is reused (labels emptied,
    warnOnUnrecognized reset) for files the independent decode cannot load at all --
    building a document costs more than everything else in the fault loop; every
    loadable file gets a fresh document."""
    from plasTeX import TeXDocument
    if reuse is not None and state[0] != "ok":
        if not reuse:
            reuse.append(TeXDocument(config=config))
        doc = reuse[0]
        doc.context.labels = {}
        doc.context.warnOnUnrecognized = True
    else:
        doc = TeXDocument(config=config)
    with quiet_stderr():
        _, err = call_real(doc.context.restore, path, rname)
    if err is not None:
        return fail("restore-raise:" + state_cause(state, rname), dict(err.detail(), **extra))
    got = read_restored(doc.context.labels, state, rname, mixed)
    bad = pm.check_restored(state, rname, got)
    if bad is not None:
        return fail(bad[0], dict(bad[1], **extra))
    if must is not None:
        for lab in sorted(must):
            if lab not in got:
                return fail("resave-roundtrip-lost", dict(extra, label=lab,
                                                          restored=sorted(map(repr, got))))
            for a in pm.CHECKED:
                if a in must[lab] and got[lab].get(a) != must[lab][a]:
                    return fail("roundtrip-mismatch:" + a, dict(extra, label=lab, rendered=must[lab][a],
                                                                restored=repr(got[lab].get(a))))
    return None


def hexs(content, limit=1500):
    if content is None:
        return None
    return content[:limit].hex() + ("..." if len(content) > limit else "")


def bucket(n, edges):
    lo = 0
    for e in edges:
        if n < e:
            return "%d-%d" % (lo, e - 1)
        lo = e
    return "%d+" % lo


# --------------------------------------------------------------------------
# fault loop (runs inside the render of the current document)
# --------------------------------------------------------------------------
def fault_loop(document, cap, rname, path, prev, clean, gen_faults, stats, xk=()):
    """Runs _fault_loop; when it reports a failure the faulty file is taken away so that the
    render around it can finish (its own persist would otherwise trip over the same file)."""
    res = _fault_loop(document, cap, rname, path, prev, clean, gen_faults, stats, xk)
    if res is not None:
        write_file(path, stats.get("good"))
    return res


def _fault_loop(document, cap, rname, path, prev, clean, gen_faults, stats, xk):
    """Step 0: the program's persist on the previous content (prev/clean) gives the good
    file F.  Then for every fault spec from gen_faults(F): faulty content -> restore on a
    fresh document -> persist of the current document -> decode -> restore round trip.
    Returns a failing Result or None; `stats` is filled."""
    config = document.config
    ctx = document.context
    _, err = call_real(ctx.persist, path, rname)
    if err is not None:
        return persist_failure(err, prev, rname, {"phase": "first-save"})
    good = read_file(path)
    st0 = pm.decode(good)
    bad = pm.check_resaved(prev, st0, rname, cap, clean)
    if bad is not None:
        return fail(bad[0], dict(bad[1], phase="first-save", file=hexs(good)))
    r = do_restore(config, path, rname, st0, True, {"phase": "first-save"}, must=cap)
    if r is not None:
        return r
    stats["size"] = len(good)
    stats["good"] = good
    verified = set([good])
    reuse = []
    for spec in gen_faults(good):
        content = pm.apply_fault(good, spec, rname)
        state = pm.decode(content)
        cls = pm.classify(state, rname)
        stats["n"] = stats.get("n", 0) + 1
        stats[cls] = stats.get(cls, 0) + 1
        if state[0] == "err":
            stats["err:" + state[1]] = stats.get("err:" + state[1], 0) + 1
        if ("nondict" in xk and pm.nondict_entry(state, rname)) or \
                ("poison" in xk and pm.poison_entry(state, rname, cap)):
            stats["excluded"] = stats.get("excluded", 0) + 1
            continue
        if content == good:
            stats["identity"] = stats.get("identity", 0) + 1
        write_file(path, content)
        extra = {"fault": spec, "file_class": cls, "faulty_file": hexs(content), "good_file": hexs(good)}
        r = do_restore(config, path, rname, state, True, dict(extra, phase="restore-faulty"), reuse=reuse)
        if r is not None:
            return r
        with quiet_stderr():
            _, err = call_real(ctx.persist, path, rname)
        if err is not None:
            return persist_failure(err, state, rname, dict(extra, phase="save-after-fault"))
        newc = read_file(path)
        new = pm.decode(newc)
        bad = pm.check_resaved(state, new, rname, cap, False)
        if bad is not None:
            key = bad[0]
            if key == "resave-entry-not-dict" and pm.nondict_entry(state, rname):
                key = KEY_NONDICT        # same root cause, reached with zero labels
            return fail(key, dict(bad[1], phase="save-after-fault", resaved=hexs(newc), **extra))
        if newc not in verified:
            stats["resaved-distinct"] = stats.get("resaved-distinct", 0) + 1
            r = do_restore(config, path, rname, new, True,
                           dict(extra, phase="restore-resaved", resaved=hexs(newc)), must=cap)
            if r is not None:
                return r
            verified.add(newc)
    return None


def run_fault_case(items, rname, two, gen_faults, base_features=(), xk=()):
    """Render the case's document (after an optional save by the other renderer into the
    same file) and run the fault loop in its cleanup hook."""
    guard()
    src, exp = pm.build_doc(items)
    feats = set(base_features)
    feats.add("renderer:" + rname)
    feats.add("labels:" + bucket(len(exp), [1, 2, 3, 5, 8]))
    if any(pm.has_nonascii(it.get("title", [])) for it in items):
        feats.add("non-ascii-title")
    stats = {}
    with casedir():
        path = os.path.join(os.getcwd(), "J.paux")
        prev, clean = pm.MISSING, True
        if two:
            feats.add("two-keys")
            box, err = render_doc(src, OTHER[rname], "J")
            if err is not None:
                return render_failure(box, err, pm.MISSING, OTHER[rname], feats)
            bad = pm.check_capture(exp, box["cap"])
            if bad is not None:
                return fail(bad[0], dict(bad[1], renderer=OTHER[rname]), feats)
            prev = pm.decode(read_file(path))
            bad = pm.check_resaved(pm.MISSING, prev, OTHER[rname], box["cap"], True)
            if bad is not None:
                return fail(bad[0], dict(bad[1], phase="other-renderer-save"), feats)

        def hook(document, cap):
            bad = pm.check_capture(exp, cap)
            if bad is not None:
                return fail(bad[0], dict(bad[1], renderer=rname))
            return fault_loop(document, cap, rname, path, prev, clean, gen_faults, stats, xk)

        box, err = render_doc(src, rname, "J", hook)
        res = box["hook"]
        if err is not None and res is None:
            return render_failure(box, err, pm.decode(read_file(path)), rname, feats)
        # the program's own persist at the very end of render ran on the last re-saved file
        final = pm.decode(read_file(path))
    if os.environ.get("VERIF_C20_COUNTS"):      # measurement aid for notes/C20.md; no effect on verdicts
        import json
        with open(os.environ["VERIF_C20_COUNTS"], "a") as f:
            f.write(json.dumps(dict((k, v) for k, v in stats.items() if k != "good")) + "\n")
    for k, v in stats.items():
        if k in ("n", "size", "good"):
            continue
        feats.add("fault:" + k)
    feats.add("faults-per-case:" + bucket(stats.get("n", 0), [1, 10, 100, 1000, 3000, 10000]))
    feats.add("file-bytes:" + bucket(stats.get("size", 0), [50, 150, 400, 1000, 2000]))
    if res is not None:
        res.features = tuple(sorted(feats))
        return res
    if final[0] != "ok":
        return fail("resave-not-loadable", {"phase": "end-of-render", "state": list(final[:2])}, feats)
    judged = stats.get("n", 0) - stats.get("excluded", 0)
    if stats.get("n", 0) and judged == 0:
        return skip("excluded-known", sorted(feats))
    loadable = sum(v for k, v in stats.items() if k.startswith("loadable"))
    nt = judged > 0 and (loadable - stats.get("identity", 0) > 0 or
                         (len(exp) >= 1 and stats.get("unloadable", 0) > 0))
    return Ok(sorted(feats), nt)


def Ok(features, nontrivial):
    return ok(features, nontrivial)


def render_failure(box, err, state, rname, feats):
    if box.get("stage") == "parse":
        return fail("parse-raise:%s@%s" % (err.type, err.where), err.detail(), feats)
    if err.where.endswith(":persist"):
        r = persist_failure(err, state, rname, {"phase": "end-of-render"})
        r.features = tuple(sorted(feats))
        return r
    return fail("render-raise:%s@%s" % (err.type, err.where), err.detail(), feats)


# --------------------------------------------------------------------------
# strategies
# --------------------------------------------------------------------------
WORDS = ["Intro", "Results", "Two words", "Études", "über", "naïve", "—",
         "Größe", "final", "B"]
POOL = ["sec:a", "eq-1", "fig.2", "thm:x", "s1", "L", "intro", "sec:b", "eq:2", "t.3", "Z9",
        "main-result", "x", "fig:plot"]

piece = st.one_of(
    st.sampled_from(WORDS).map(lambda w: ["w", w]),
    st.sampled_from(WORDS).map(lambda w: ["w", w]),
    st.sampled_from(["x", "very", "é"]).map(lambda w: ["em", w]),
    st.sampled_from(["y", "bold"]).map(lambda w: ["bf", w]),
    st.sampled_from(["x^2", "a+b"]).map(lambda w: ["math", w]))
title = st.lists(piece, min_size=1, max_size=4)


@st.composite
def items_st(draw, max_n, min_n=0, sizes=(3, 1, 2, 4, 0, 5, 2, 3, 6, 1, 8, 4, 10, 12)):
    # (Hypothesis starts every worker with the first element of each sampled_from)
    n = min(max_n, max(min_n, draw(st.sampled_from(list(sizes)))))
    kinds = draw(st.lists(st.sampled_from(["sec", "sec", "sub", "eq", "eq", "thm", "lem", "fig", "par"]),
                          min_size=n, max_size=n))
    labels = draw(st.lists(st.sampled_from(POOL), unique=True, min_size=n, max_size=n))
    out, have_sec = [], False
    for k, lab in zip(kinds, labels):
        if k == "sub" and not have_sec:
            k = "sec"
        if k == "sec":
            have_sec = True
        it = {"t": k}
        if k != "par":
            it["l"] = lab if draw(st.sampled_from([True, True, True, True, True, False])) else None
        if k in ("sec", "sub", "fig"):
            it["title"] = draw(title)
        out.append(it)
    return out


renderer_st = st.sampled_from(["HTML5", "XHTML"])

HEXBYTES = st.one_of(
    st.binary(min_size=0, max_size=3),
    st.lists(st.sampled_from([0x7d, 0x5d, 0x4e, 0x94, 0x8c, 0x75, 0x28, 0x2e, 0x68, 0x00, 0xff, 0x80, 0x95,
                              0x58, 0x85, 0x81, 0x93, 0x30, 0x31]), min_size=1, max_size=3).map(bytes))


def fault_st(xk):
    foreign_kinds = [w for w in pm.FOREIGN if not ("nondict" in xk and w in pm.NONDICT_FOREIGN)
                     and not ("poison" in xk and w in pm.POISON_FOREIGN)]
    return st.one_of(
        st.builds(lambda at: {"k": "trunc", "at": at}, st.integers(0, 4000)),
        st.builds(lambda b: {"k": "flip", "bit": b}, st.integers(0, 40000)),
        st.builds(lambda e: {"k": "splice", "edits": e},
                  st.lists(st.tuples(st.integers(0, 4000), st.integers(0, 4), HEXBYTES.map(bytes.hex)).map(list),
                           min_size=1, max_size=8)),
        st.builds(lambda w, to: {"k": "opcode", "which": w, "to": to},
                  st.integers(0, 30), st.sampled_from(["list", "none", "tuple"])),
        st.builds(lambda w, d, op: {"k": "lenbump", "which": w, "delta": d, "op": op},
                  st.integers(0, 80), st.sampled_from([1, 2, 3, 16, 128, 255, 254]),
                  st.sampled_from(["short", "short", "short", "long"])),
        st.builds(lambda to: {"k": "swapkey", "to": to}, st.sampled_from(["HTML5", "XHTML", "none", "Text"])),
        st.builds(lambda w: {"k": "foreign", "what": w}, st.sampled_from(foreign_kinds)),
        st.builds(lambda w: {"k": "foreign", "what": w}, st.sampled_from(foreign_kinds)),
    )


# --------------------------------------------------------------------------
# stream 2: truncation (each case is exhaustive over all k = 0..len(F))
# --------------------------------------------------------------------------
def make_truncation(tier):
    max_n = 4 if tier == "quick" else 12
    return st.fixed_dictionaries({"items": items_st(max_n), "r": renderer_st,
                                  "two": st.sampled_from([False, False, False, True]),
                                  "xk": st.just(XK)})


def check_truncation(case):
    def gen(good):
        for k in range(len(good) + 1):
            yield {"k": "trunc", "at": k}
    return run_fault_case(case["items"], case["r"], case["two"], gen, ["exhaustive-over-k"],
                          xk=case.get("xk", ()))


# --------------------------------------------------------------------------
# stream 3: bitflip (exhaustive over all bits when len(F) <= limit, else sampled)
# --------------------------------------------------------------------------
def make_bitflip(tier):
    limit = 450 if tier == "quick" else 1000
    max_n = 3 if tier == "quick" else 10
    return st.fixed_dictionaries({
        "items": items_st(max_n, sizes=(0, 2, 3, 1, 3, 2, 4, 6, 8, 10)), "r": renderer_st,
        "two": st.sampled_from([False, False, False, False, False, True]),
        "limit": st.just(limit), "xk": st.just(XK),
        "sample": st.lists(st.integers(0, 1 << 20), min_size=200, max_size=400)})


def check_bitflip(case):
    mode = []

    def gen(good):
        if len(good) <= case["limit"]:
            mode.append("all-bits")
            for b in range(len(good) * 8):
                yield {"k": "flip", "bit": b}
        else:
            mode.append("sampled-bits")
            for b in case["sample"]:
                yield {"k": "flip", "bit": b % (len(good) * 8)}
    res = run_fault_case(case["items"], case["r"], case["two"], gen, xk=case.get("xk", ()))
    res.features = tuple(sorted(set(res.features) | set(mode)))
    return res


# --------------------------------------------------------------------------
# stream 4: corrupt
# --------------------------------------------------------------------------
def make_corrupt(tier):
    return st.fixed_dictionaries({
        "items": items_st(8 if tier == "quick" else 12), "r": renderer_st,
        "two": st.sampled_from([False, True, False]),
        "faults": st.lists(fault_st(XK), min_size=4, max_size=16),
        "xk": st.just(XK)})


def check_corrupt(case):
    kinds = set()

    def gen(good):
        for spec in case["faults"]:
            kinds.add("kind:" + spec["k"] + (":" + spec["what"] if spec["k"] == "foreign" else ""))
            yield spec
    res = run_fault_case(case["items"], case["r"], case["two"], gen, xk=case.get("xk", ()))
    res.features = tuple(sorted(set(res.features) | kinds))
    return res


# --------------------------------------------------------------------------
# stream 1: roundtrip
# --------------------------------------------------------------------------
def make_roundtrip(tier):
    return st.fixed_dictionaries({
        "items": items_st(12),
        "savers": st.sampled_from([["HTML5"], ["XHTML"], ["HTML5", "XHTML"], ["XHTML", "HTML5"],
                                   ["HTML5", "XHTML"], ["XHTML", "HTML5"]]),
        "reader": renderer_st,
        # with two savers: the second renderer renders the document object the first one rendered
        # (instead of a fresh parse of the same source)
        "reuse": st.sampled_from([False, False, True]),
        # the renderer is named by the path of its package (same name for saving and restoring)
        "aspath": st.sampled_from([False, False, False, True]),
        # a third document defines a label named like the k-th label of D1
        "collide": st.sampled_from([None, None, 0, 1, 5]),
        "pauxdir": st.sampled_from([False, False, True])})


ANCHOR = re.compile(r'<a\s[^>]*?href="([^"]*)"[^>]*>([^<]*)</a>')


def check_roundtrip(case):
    import plasTeX.Compile
    guard()
    items, savers, reader = case["items"], case["savers"], case["reader"]
    src, exp = pm.build_doc(items)
    feats = set(["savers:" + "+".join(savers), "reader:" + reader,
                 "labels:" + bucket(len(exp), [1, 2, 3, 5, 8])])
    if any(pm.has_nonascii(it.get("title", [])) for it in items):
        feats.add("non-ascii-title")
    if any(k == "math" for it in items for k, _ in it.get("title", []) if it.get("l")):
        feats.add("math-in-labelled-title")
    if case["pauxdir"]:
        feats.add("paux-dirs")
    if case.get("aspath"):
        feats.add("renderer-named-by-path")
        savers, reader = [rpath(r) for r in savers], rpath(reader)
    with casedir() as top:
        d1 = os.path.join(top, "one")
        d2 = os.path.join(top, "two") if case["pauxdir"] else d1
        os.mkdir(d1)
        if d2 != d1:
            os.mkdir(d2)
        # ---- run 1: D1 rendered by each saving renderer into the same directory
        os.chdir(d1)
        path = os.path.join(d1, "D1.paux")
        caps = {}
        state, clean = pm.MISSING, True
        parsed = None
        for rname in savers:
            if parsed is not None and case.get("reuse"):
                parsed.config["general"]["renderer"] = rname
                feats.add("second-renderer-on-same-document-object")
            else:
                parsed = None
            box, err = render_doc(src, rname, "D1", document=parsed)
            if err is not None:
                return render_failure(box, err, state, rname, feats)
            parsed = box.get("document")
            bad = pm.check_capture(exp, box["cap"])
            if bad is not None:
                return fail(bad[0], dict(bad[1], renderer=rname, source=src), feats)
            caps[rname] = box["cap"]
            new = pm.decode(read_file(path))
            bad = pm.check_resaved(state, new, rname, box["cap"], clean)
            if bad is not None:
                return fail(bad[0], dict(bad[1], phase="run1-save", renderer=rname), feats)
            state = new
        if len(savers) == 2:
            feats.add("two-keys")
            if caps[savers[0]] != caps[savers[1]]:
                feats.add("renderers-rendered-differently")
        # ---- run 2: D2 parsed the way the program does it
        os.chdir(d2)
        labels = [it["l"] for it in items if it.get("l")]
        src2 = pm.refs_doc(labels)
        with open("D2.tex", "w", encoding="utf-8") as f:
            f.write(src2)
        config = mkconfig(reader, [d1] if d2 != d1 else None)
        with quiet_stderr():
            tex, err = call_real(plasTeX.Compile.parse, "D2.tex", config)
        if err is not None:
            if err.where.endswith(":restore"):
                return fail("restore-raise:" + state_cause(state, reader), err.detail(), feats)
            return fail("parse-raise:%s@%s" % (err.type, err.where), err.detail(), feats)
        doc2 = tex.ownerDocument
        want = caps.get(reader)
        if want is None:
            feats.add("reader-did-not-save")
        foreign = dict((k, v) for k, v in doc2.context.labels.items() if k != "dtwo")
        got = read_restored(foreign, state, reader, False)
        bad = pm.check_restored(state, reader, got)
        if bad is not None:
            return fail(bad[0], dict(bad[1], phase="run2-parse", reader=reader, savers=savers), feats)
        # directly against what run 1 rendered for this renderer
        if set(got) != set(want or {}):
            lost = sorted(set(want or {}) - set(got))
            return fail("label-lost" if lost else "foreign-label",
                        {"phase": "run2-parse", "reader": reader, "savers": savers,
                         "expected": sorted(want or {}), "restored": sorted(got)}, feats)
        for lab in sorted(got):
            for a in pm.CHECKED:
                if want[lab].get(a) != got[lab].get(a):
                    return fail("roundtrip-mismatch:" + a,
                                {"label": lab, "rendered": want[lab].get(a), "restored": repr(got[lab].get(a)),
                                 "reader": reader}, feats)
        # the \ref nodes of D2
        nrefs = 0
        for node in doc2.getElementsByTagName("ref"):
            lab = node.attributes["label"]
            target = node.idref.get("label")
            if lab in (want or {}):
                nrefs += 1
                if target is not doc2.context.labels.get(lab):
                    return fail("ref-unresolved", {"label": lab, "reader": reader}, feats)
                if getattr(target, "urloverride", None) != want[lab]["url"]:
                    return fail("roundtrip-mismatch:url", {"label": lab, "where": "ref target",
                                                           "rendered": want[lab]["url"],
                                                           "restored": repr(getattr(target, "urloverride", None))},
                                feats)
            elif lab != "dtwo":
                if getattr(target, "urloverride", None) is not None or lab in doc2.context.labels:
                    return fail("foreign-label", {"label": lab, "where": "ref target", "reader": reader}, feats)
        if want and nrefs != len(want):
            raise HarnessBug("D2 has %d refs to %d labels" % (nrefs, len(want)))
        # ---- run 2 rendered: the links in the output point at the saved targets
        box, err = render_doc(None, reader, "D2", document=doc2)
        if err is not None:
            return render_failure(box, err, pm.MISSING, reader, feats)
        anchors = []
        for fn in box["files"]:
            with open(fn, encoding="utf-8") as f:
                anchors.extend(ANCHOR.findall(f.read()))
        for lab in sorted(want or {}):
            if (want[lab]["url"], want[lab]["ref"]) not in anchors:
                return fail("link-not-rendered", {"label": lab, "url": want[lab]["url"], "number": want[lab]["ref"],
                                                  "anchors": anchors[:40], "reader": reader}, feats)
        # D2's own file: complete for D2, and D1's file untouched
        own = pm.decode(read_file(os.path.join(d2, "D2.paux")))
        bad = pm.check_resaved(pm.MISSING, own, reader, box["cap"], True)
        if bad is not None:
            return fail(bad[0], dict(bad[1], phase="run2-save"), feats)
        # ... and it holds D2's own labels only (known from the generated source: just "dtwo"), not the
        # labels D2 restored from D1's file -- "the same set of labels" a third document would restore
        own_table = own[1].get(reader) if own[0] == "ok" and isinstance(own[1], dict) else None
        if isinstance(own_table, dict) and sorted(own_table) != ["dtwo"]:
            return fail("resave-foreign-label:restored-labels-saved-as-own",
                        {"phase": "run2-save", "saved": sorted(map(repr, own_table)), "expected": ["dtwo"]}, feats)
        after = pm.decode(read_file(path))
        if pm.canon(after) != pm.canon(state):
            return fail("other-document-file-changed", {"phase": "run2"}, feats)
        # ---- run 3: a third document defines a label named like one it restored from D1; its own file
        # ---- lists that label (with the values rendered for D3), so that a fourth document can restore it
        if labels and case.get("collide") is not None:
            feats.add("own-label-named-like-a-restored-one")
            lab = labels[case["collide"] % len(labels)]
            with open("D3.tex", "w", encoding="utf-8") as f:
                f.write(pm.refs_doc([], own=lab))
            config = mkconfig(reader, [d1] if d2 != d1 else None)
            with quiet_stderr():
                tex, err = call_real(plasTeX.Compile.parse, "D3.tex", config)
            if err is not None:
                if err.where.endswith(":restore"):
                    return fail("restore-raise:" + state_cause(state, reader), err.detail(), feats)
                return fail("parse-raise:%s@%s" % (err.type, err.where), err.detail(), feats)
            doc3 = tex.ownerDocument
            box, err = render_doc(None, reader, "D3", document=doc3)
            if err is not None:
                return render_failure(box, err, pm.MISSING, reader, feats)
            own3 = pm.decode(read_file(os.path.join(d2, "D3.paux")))
            bad = pm.check_resaved(pm.MISSING, own3, reader, box["cap"], True)
            if bad is not None:
                return fail(bad[0], dict(bad[1], phase="run3-save"), feats)
            table3 = own3[1].get(reader) if own3[0] == "ok" and isinstance(own3[1], dict) else None
            if not isinstance(table3, dict) or sorted(table3) != [lab]:
                return fail("resave-label-lost:own-label-named-like-restored",
                            {"phase": "run3-save", "label": lab, "expected": [lab],
                             "saved": sorted(map(repr, table3)) if isinstance(table3, dict) else repr(table3)}, feats)
    nt = len(exp) >= 3 and len(savers) == 2
    return ok(sorted(feats), nt)


# --------------------------------------------------------------------------
# stream 4b: several other documents, in several directories, some with the same job name
# --------------------------------------------------------------------------
def make_multidir(tier):
    return st.fixed_dictionaries({
        "items": items_st(10, min_n=2),
        "reader": renderer_st,
        "jobs": st.sampled_from([["index", "index"], ["index", "index"], ["partA", "partB"], ["index", "other"]]),
        "twice": st.booleans()})          # list one directory twice in paux-dirs


def check_multidir(case):
    """D1a and D1b (two halves of the label set) are rendered in two directories, possibly under the
    same job name; D2, in a third directory with both in paux-dirs, must restore both label sets."""
    import plasTeX.Compile
    guard()
    items, reader, jobs = case["items"], case["reader"], case["jobs"]
    labelled = [it for it in items if it.get("l")]
    if len(labelled) < 2:
        return skip("fewer-than-two-labels")
    feats = set(["reader:" + reader, "jobs:" + ("same-name" if jobs[0] == jobs[1] else "different-names")])
    if case["twice"]:
        feats.add("directory-listed-twice")
    cut = len(items) // 2
    halves = [items[:cut], items[cut:]]
    if not any(it.get("l") for it in halves[0]) or not any(it.get("l") for it in halves[1]):
        halves = [[it for i, it in enumerate(items) if i % 2 == 0], [it for i, it in enumerate(items) if i % 2 == 1]]
    def wellformed(part):
        out, seen = [], False
        for it in part:
            if it["t"] == "sub" and not seen:
                it = dict(it, t="sec")      # a half must not start with a subsection
            seen = seen or it["t"] == "sec"
            out.append(it)
        return out
    halves = [wellformed(h) for h in halves]
    with casedir() as top:
        want = {}
        dirs = []
        for k, (part, job) in enumerate(zip(halves, jobs)):
            d = os.path.join(top, "dir%d" % k)
            os.mkdir(d)
            dirs.append(d)
            os.chdir(d)
            src, exp = pm.build_doc(part)
            box, err = render_doc(src, reader, job)
            if err is not None:
                return render_failure(box, err, pm.MISSING, reader, feats)
            bad = pm.check_capture(exp, box["cap"])
            if bad is not None:
                return fail(bad[0], dict(bad[1], renderer=reader, source=src), feats)
            want.update(box["cap"])
        d2 = os.path.join(top, "reader")
        os.mkdir(d2)
        os.chdir(d2)
        with open("D2.tex", "w", encoding="utf-8") as f:
            f.write(pm.refs_doc(sorted(want)))
        config = mkconfig(reader, dirs + ([dirs[0]] if case["twice"] else []))
        with quiet_stderr():
            tex, err = call_real(plasTeX.Compile.parse, "D2.tex", config)
        if err is not None:
            return fail("parse-raise:%s@%s" % (err.type, err.where), err.detail(), feats)
        got = tex.ownerDocument.context.labels
        lost = sorted(set(want) - set(got))
        if lost:
            return fail("label-lost:other-directory", {"lost": lost, "jobs": jobs, "reader": reader,
                                                       "restored": sorted(k for k in got if k != "dtwo")}, feats)
        for lab in sorted(want):
            node = got[lab]
            for a in ("ref", "id"):
                v = getattr(node, a, None)
                v = None if v is None else str.__str__(str(v))
                if want[lab].get(a) is not None and v != want[lab].get(a):
                    return fail("roundtrip-mismatch:" + a, {"label": lab, "rendered": want[lab].get(a),
                                                            "restored": repr(v), "reader": reader}, feats)
    return ok(sorted(feats), len(want) >= 3)


RULE_MD = ("two halves of a generated label set rendered as two documents in two directories (same job name in "
           "half of the cases), a third document with both directories in paux-dirs (one possibly listed twice) "
           "parsed through Compile.parse: every label of both must be restored with its number and id. "
           "Non-trivial: >= 3 labels.")


# --------------------------------------------------------------------------
# stream 5: history
# --------------------------------------------------------------------------
class Session(object):
    def __init__(self, cfg):
        guard()
        self.cfg = cfg
        self.base = os.getcwd()
        self.dir = scratch_dir("c20h-")
        self.path = os.path.join(self.dir, "J.paux")
        self.state, self.clean = pm.MISSING, True
        self.features = set()
        self.saved_by = set()
        self.excluded = False
        self.n_saves = self.n_corrupt = self.n_restore = 0
        self.loadable_fault = False
        self.merge_checked = False

    def __del__(self):
        shutil.rmtree(self.dir, ignore_errors=True)

    def apply(self, op):
        if self.excluded:
            return None
        os.chdir(self.dir)
        res = None
        try:
            res = getattr(self, "op_" + op["op"])(op)
            return res
        finally:
            os.chdir(self.base)
            if res is not None and not res.ok:      # the session ends here: finish() will not be called
                shutil.rmtree(self.dir, ignore_errors=True)

    def op_save(self, op):
        rname = op["r"]
        items = self.cfg["docs"][op["doc"] % len(self.cfg["docs"])]
        if "nondict" in self.cfg.get("xk", ()) and pm.nondict_entry(self.state, rname):
            self.excluded = True
            return None
        src, exp = pm.build_doc(items)
        # the same parsed document may be rendered again (by either renderer) instead of a fresh parse
        parsed = None
        last = getattr(self, "last", None)
        if op.get("reuse") and last is not None and last[0] == op["doc"] % len(self.cfg["docs"]):
            parsed = last[1]
            parsed.config["general"]["renderer"] = rname
            self.features.add("save-renders-the-previous-document-object")
        box, err = render_doc(src, rname, "J", document=parsed)
        if err is not None:
            return render_failure(box, err, self.state, rname, self.features)
        self.last = (op["doc"] % len(self.cfg["docs"]), box.get("document"))
        bad = pm.check_capture(exp, box["cap"])
        if bad is not None:
            return fail(bad[0], dict(bad[1], renderer=rname))
        newc = read_file(self.path)
        new = pm.decode(newc)
        bad = pm.check_resaved(self.state, new, rname, box["cap"], self.clean)
        if bad is not None:
            key = bad[0]
            if key == "resave-entry-not-dict" and pm.nondict_entry(self.state, rname):
                key = KEY_NONDICT
            return fail(key, dict(bad[1], phase="save", renderer=rname, file_before=pm.classify(self.state, rname),
                                  resaved=hexs(newc)))
        prev_cls = pm.classify(self.state, rname)
        if self.clean and self.state[0] == "ok" and any(k != rname for k in self.state[1]):
            self.merge_checked = True
            self.features.add("save-into-intact-file-of-other-renderer")
        if prev_cls in ("missing", "unloadable", "loadable-non-dict"):
            self.clean = True
        self.features.add("save-on:" + prev_cls)
        prev = self.state
        self.state = new
        self.saved_by.add(rname)
        self.n_saves += 1
        if "poison" in self.cfg.get("xk", ()) and pm.poison_entry(prev, rname, box["cap"]):
            self.excluded = True
            return None
        # the file just written restores completely
        return do_restore(mkconfig(rname), self.path, rname, new, False, {"phase": "restore-after-save"},
                          must=box["cap"])

    def op_restore(self, op):
        rname = op["r"]
        self.n_restore += 1
        self.features.add("restore-on:" + pm.classify(self.state, rname))
        return do_restore(mkconfig(rname), self.path, rname, self.state, False, {"phase": "restore"})

    def op_corrupt(self, op):
        cur = read_file(self.path)
        if cur is None:
            self.features.add("corrupt-on-missing")
            return None
        content = pm.apply_fault(cur, op["fault"], op["r"])
        write_file(self.path, content)
        self.clean = self.clean and content == cur
        self.state = pm.decode(content)
        self.n_corrupt += 1
        if self.state[0] == "ok":
            self.loadable_fault = True
        self.features.add("after-corrupt:" + pm.classify(self.state, op["r"]))
        return None

    def op_remove(self, op):
        write_file(self.path, None)
        self.state, self.clean = pm.MISSING, True
        self.features.add("removed")
        return None

    def finish(self):
        shutil.rmtree(self.dir, ignore_errors=True)
        if self.excluded:
            return skip("excluded-known", sorted(self.features))
        if len(self.saved_by) == 2:
            self.features.add("two-renderers-saved")
        nt = self.n_saves >= 2 and (self.merge_checked or (self.n_corrupt >= 1 and self.loadable_fault))
        return ok(sorted(self.features), nt)


class Machine(HistoryMachine):
    SESSION = Session

    @initialize(docs=st.lists(items_st(5), min_size=2, max_size=3))
    def init(self, docs):
        self.start({"docs": docs, "xk": XK})

    @rule(kind=st.sampled_from(["save", "corrupt", "restore", "save", "corrupt", "restore", "save",
                                "remove", "save", "corrupt", "restore"]),
          doc=st.integers(0, 2), r=renderer_st, fault=fault_st(XK), reuse=st.booleans())
    def step(self, kind, doc, r, fault, reuse):
        if kind == "corrupt" and self.sess is not None and self.sess.state[0] == "missing":
            kind = "save"                     # nothing to corrupt yet
        if kind == "save":
            self.do({"op": "save", "doc": doc, "r": r, "reuse": reuse})
        elif kind == "corrupt":
            self.do({"op": "corrupt", "fault": fault, "r": r})
        elif kind == "restore":
            self.do({"op": "restore", "r": r})
        else:
            self.do({"op": "remove"})


# --------------------------------------------------------------------------
RULE_RT = ("label sets of 0-12 objects (section/subsection/equation/two \\newtheorem environments/figure with "
           "caption/paragraph; ~5/6 labelled; titles of 1-4 pieces: plain and non-ASCII words, \\emph, \\textbf, "
           "$math$); D1 rendered by HTML5, XHTML or both into one directory (both: from two parses or, 1/3, the same "
           "document object rendered twice; 1/4 with the renderers named by package path); D2 (other jobname; same directory or "
           "another one with paux-dirs) goes through plasTeX.Compile.parse with either renderer name and is "
           "rendered; 2/5: a third document D3 defines a label named like one of D1's and must list it in its own "
           "file. Non-trivial: >=3 labels and two renderer keys in the file.")
RULE_TR = ("label sets (quick 0-4 objects, thorough 0-12), renderer HTML5|XHTML, 1/4 with the other renderer's "
           "entry already in the file; EACH CASE IS EXHAUSTIVE over all truncations F[:k], k=0..len(F), of the file "
           "the program wrote (inner loop in the renderer's cleanup hook). Non-trivial: >=1 label (the file has "
           "content to lose; includes the cuts inside the last 10 %).")
RULE_BF = ("label sets (quick 0-3 objects, thorough 0-10; 1/6 with the other renderer's entry in the file); EACH CASE IS "
           "EXHAUSTIVE over all single-bit flips when "
           "the file has <=limit bytes (quick 450, thorough 1000), otherwise 200-400 Hypothesis-chosen bits. "
           "Non-trivial: >=1 flip leaves a loadable pickle.")
RULE_CO = ("label sets of 0-8 (12) objects, 4-16 faults per case: truncation, bit flip, <=8 splices of <=3 bytes "
           "(biased to pickle opcodes), '}'->']'/'N'/')', length-prefix bumps, renderer-key swap, foreign content "
           "(empty, text, junk, pickles of list/None/str, renderer entry list/None/str/int, protocol 0/2, two "
           "pickles, extra renderer key, unknown/known macroName, non-dict label entry, missing file). "
           "Non-trivial: >=1 fault leaves a loadable pickle.")
RULE_HI = ("state machine, <=10 steps over one J.paux shared by HTML5 and XHTML: save(doc_i, r) = full render (of a "
           "fresh parse or of the document object the previous save rendered), "
           "corrupt(fault as in 'corrupt'), restore(r) on a fresh document outside the renderer, remove. "
           "Non-trivial: >=2 saves and (a save into an intact file holding the other renderer's entry, or a "
           "corruption that leaves a loadable file).")

STREAMS = [
    Stream("roundtrip", "given", make_roundtrip, check_roundtrip,
           budget={"quick": 14, "thorough": 300}, timeout=120.0, rule=RULE_RT, hang_is_violation=True),
    Stream("multidir", "given", make_multidir, check_multidir,
           budget={"quick": 10, "thorough": 200}, timeout=120.0, rule=RULE_MD, hang_is_violation=True),
    Stream("truncation", "given", make_truncation, check_truncation,
           budget={"quick": 10, "thorough": 120}, timeout=120.0, rule=RULE_TR, hang_is_violation=True),
    Stream("bitflip", "given", make_bitflip, check_bitflip,
           budget={"quick": 3, "thorough": 30}, timeout=300.0, rule=RULE_BF, hang_is_violation=True),
    Stream("corrupt", "given", make_corrupt, check_corrupt,
           budget={"quick": 30, "thorough": 600}, timeout=120.0, rule=RULE_CO, hang_is_violation=True),
    Stream("history", "machine", lambda tier: Machine, history_check(Session),
           budget={"quick": 8, "thorough": 160}, timeout=120.0, rule=RULE_HI, hang_is_violation=True,
           steps={"quick": 10, "thorough": 10}),
]

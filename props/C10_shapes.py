"""C10 -- lists and tables keep their shape.

Two streams, both `given`:

  lists   a generated itemize/enumerate/description tree (depth <= 4; items with
          several paragraphs, nested quote/center/flushleft environments, lists inside
          those, small tables, text after a nested list, empty items, terms)
  tables  a generated tabular/array/tabular* (1-5 columns, 1-6 non-empty rows plus
          empty rows; column specifications with | l c r p{} @{} *{n}{}; \\multicolumn;
          \\hline/\\cline placement; empty cells; groups, math, nested tables, font
          declarations and a \\def/probe pair that detects formatting leaking from one
          cell into the next)

A case is the document AST (JSON); models/shapemodel.py renders it and predicts the
shape from the AST alone; this module extracts the observed shape from the plasTeX
tree (rows/cells, `colspan`, `style` borders; list items, `term`) and compares.
"""
import logging

from hypothesis import strategies as st

from vlib import Stream, ok, fail, skip, call_real, known_keys
from models import shapemodel as sm

logging.disable(logging.CRITICAL)

PROPERTY = "C10"
LEVEL = "exploration"
ASSUMPTIONS = [
    "models/shapemodel.py is a faithful reading of the C10 statement and of LaTeX's tabular/list rules "
    "(a `|` belongs to the column on its left, the first column also owns a leading `|`; \\multicolumn replaces "
    "the bars of the columns it covers; rules stand only at row starts; every cell is a group)",
    "borders are judged per boundary: a rule between two rows may be recorded as bottom of the upper or top of "
    "the lower cell (DESIGN.md C10); a \\cline that covers a spanning cell only partly leaves its columns undetermined",
    "a row is empty iff all its cells are blank; rules written around empty rows belong to the boundary between "
    "the neighbouring non-empty rows",
    "a cell's border is read from its `style` (any key starting with border-<side>); the span from attributes['colspan']",
    "generated sources stay inside LaTeX's own rules: \\hline/\\cline only after \\\\ or at the start, \\multicolumn first "
    "in its cell, no over-long rows, nesting depth <= 4",
]

KNOWN = known_keys(PROPERTY)

# Known-finding keys -> constructs that are excluded by construction when listed.
K_LEAD_AT = "table:vborder-wrong:at-before-first-column"
K_CLINE_SPAN = "table:hborder-wrong:cline-after-span"
K_SHORT_ROW = "table:hborder-missing:neighbour-row-is-shorter"

EXCL_LEAD_AT = K_LEAD_AT in KNOWN
EXCL_CLINE_SPAN = K_CLINE_SPAN in KNOWN
EXCL_SHORT_RULED = K_SHORT_ROW in KNOWN
K_DECL_ITEM = "list:declaration-in-item-swallows-following-items"
# An ungrouped font declaration inside an item (`\\item \\bfseries a \\item b`) is valid LaTeX but
# not named in the quantifier's list of constructs; set to False to keep it out of the domain.
GENERATE_UNGROUPED_DECL = True
EXCL_DECL_ITEM = (K_DECL_ITEM in KNOWN) or not GENERATE_UNGROUPED_DECL


# --------------------------------------------------------------------------
# generators.  Hypothesis draws one fixed-length byte string (the choice tape);
# the generators below read their choices from it, option 0 always being the
# simplest one, so that Hypothesis' shrinking of the bytes towards zero shrinks
# the document.  (Drawing every choice through its own strategy cost 80 ms per
# list case against 10 ms for the check itself.)
# --------------------------------------------------------------------------
class Tape(object):
    def __init__(self, data):
        self.data = data
        self.pos = 0

    def byte(self):
        if self.pos < len(self.data):
            b = self.data[self.pos]
            self.pos += 1
            return b
        return 0

    def int(self, lo, hi):
        if hi <= lo:
            return lo
        return lo + self.byte() % (hi - lo + 1)

    def choice(self, options):
        return options[self.byte() % len(options)]

    def chance(self, num, den):
        """True with probability num/den; False when the tape is exhausted."""
        return (self.byte() % den) >= den - num


def word(t=None):
    return {"k": "w", "m": None}


def text_piece(t, depth):
    """A marker-bearing inline piece of text mode."""
    c = t.int(0, 9) if depth > 0 else 0
    if c < 5:
        return word()
    if c < 7:
        return {"k": "g", "body": [text_piece(t, depth - 1) for _ in range(t.int(1, 2))]}
    if c < 9:
        return {"k": "cmd", "cmd": t.choice(["textbf", "emph", "textit", "mbox", "textsf"]),
                "body": [text_piece(t, depth - 1) for _ in range(t.int(1, 2))]}
    return {"k": "math", "d": t.int(0, 1), "body": [math_piece(t, 0) for _ in range(t.int(1, 2))]}


def math_piece(t, depth):
    c = t.int(0, 9) if depth > 0 else t.int(0, 5)
    if c < 4:
        return word()
    if c < 6:
        return {"k": "sub", "d": t.int(0, 1), "m": None}
    if c < 8:
        return {"k": "g", "body": [math_piece(t, depth - 1) for _ in range(t.int(1, 2))]}
    return {"k": "cmd", "cmd": t.choice(["mathbf", "mathrm", "mbox", "mathit"]),
            "body": [word() for _ in range(t.int(1, 2))]}


# ---- column specifications --------------------------------------------------
AT_BODIES = ["", "", "--", "\\ ", ".", ":", "\\hspace{1em}", "~"]
P_WIDTHS = ["2cm", "1.5in", "30pt", "0.3\\linewidth"]


def col_item(t):
    c = t.int(0, 8)
    if c < 6:
        return {"t": "col", "c": "lcr"[c % 3]}
    return {"t": "p", "w": t.choice(P_WIDTHS)}


def deco(t):
    c = t.int(0, 9)
    if c < 5:
        return []
    out = []
    for _ in range(1 if c < 8 else 2):
        if t.int(0, 2) < 2:
            out.append({"t": "bar"})
        else:
            out.append({"t": "at", "body": t.choice(AT_BODIES)})
    return out


def strip_lead_at(items):
    """Remove @-expressions standing before the first column (used when the
    construct is excluded for a listed finding)."""
    out = []
    seen_col = False
    for it in items:
        if seen_col:
            out.append(it)
            continue
        if it["t"] == "at":
            continue
        if it["t"] == "star":
            body = strip_lead_at(it["body"])
            out.append({"t": "star", "n": it["n"], "body": body})
            seen_col = True
            continue
        if it["t"] in ("col", "p"):
            seen_col = True
        out.append(it)
    return out


def colspec(t, ncols):
    items = []
    remaining = ncols
    while remaining > 0:
        if t.int(0, 5) == 5:
            k = t.int(1, min(2, remaining))
            n = t.int(1, min(3, remaining // k))
            body = []
            for _ in range(k):
                body += deco(t) + [col_item(t)]
            if t.int(0, 1):
                body += deco(t)
            items.append({"t": "star", "n": n, "body": body})
            remaining -= n * k
        else:
            items += deco(t) + [col_item(t)]
            remaining -= 1
    items += deco(t)
    if EXCL_LEAD_AT:
        items = strip_lead_at(items)
    return items


def mc_spec(t):
    items = deco(t) + [col_item(t)] + deco(t)
    if EXCL_LEAD_AT:
        items = strip_lead_at(items)
    return items


# ---- tables ---------------------------------------------------------------------
DECL_CMDS = ["bfseries", "itshape", "small", "em", "sffamily"]


def cell_body(t, math, depth, must_mark=False):
    """Piece list of one cell (may be empty unless must_mark)."""
    kind = t.int(0, 19)
    if kind < 9:
        return [word()]
    if kind < 12:
        return [word()] if must_mark else []
    pieces = []
    for _ in range(t.int(1, 3)):
        c = t.int(0, 11)
        if c <= 3:
            pieces.append(math_piece(t, 1) if math else text_piece(t, 1))
        elif c == 4:
            pieces.append({"k": "def"})
        elif c <= 6:
            pieces.append({"k": "probe", "m": None})
        elif c == 7 and not math:
            pieces.append({"k": "decl", "cmd": t.choice(DECL_CMDS)})
        elif c == 8:
            # a group holding a local definition and a probe
            pieces.append({"k": "g", "body": [{"k": "def"}, {"k": "probe", "m": None}]})
        elif c == 9 and depth > 0:
            pieces.append({"k": "tab", "t": table(t, depth - 1, nested=True)})
        else:
            pieces.append(word())
    if must_mark and not sm.has_marker(pieces):
        pieces.append(word())
    return pieces


def chain_probe(t, body):
    """Make the class the leak check lives on frequent: after a cell that made a
    local definition, every second cell starts with a probe use."""
    if getattr(t, "prev_def", False) and t.int(0, 1) == 1:
        body = [{"k": "probe", "m": None}] + body
    t.prev_def = any(p["k"] == "def" for p in body)
    return body


def row_cells(t, ncols, math, depth, short_ok):
    """Cells of a non-empty row."""
    total = ncols
    if short_ok and ncols > 1 and t.int(0, 11) == 11:
        total = t.int(1, ncols - 1)
    spans = []
    left = total
    want_mc = t.int(0, 2) == 2
    while left > 0:
        s = 1
        if want_mc and left > 1 and t.int(0, 2) > 0:
            s = t.int(2, left)
        spans.append(s)
        left -= s
    cells = []
    marked = t.int(0, len(spans) - 1)
    for i, s in enumerate(spans):
        mc = None
        if s > 1 or (want_mc and t.int(0, 3) == 3):
            mc = {"n": s, "spec": mc_spec(t)}
        body = cell_body(t, math, depth, must_mark=(i == marked))
        if mc is not None:
            # the argument of \multicolumn is a group of its own in LaTeX and
            # an argument in plasTeX: keep scope-sensitive pieces out of it
            body = [p for p in body if p["k"] not in ("def", "decl")]
            if i == marked and not sm.has_marker(body):
                body.append(word())
        body = chain_probe(t, body)
        cells.append({"mc": mc, "body": body})
    return cells


def nonempty_neighbours(rows, i):
    upper = None
    for k in range(i - 1, -1, -1):
        if not sm.row_is_empty(rows[k]):
            upper = rows[k]
            break
    lower = None
    for k in range(i, len(rows)):
        if not sm.row_is_empty(rows[k]):
            lower = rows[k]
            break
    return upper, lower


def row_width(row):
    return sum((c["mc"]["n"] if c["mc"] else 1) for c in row["cells"])


def has_span(row):
    return row is not None and any(c["mc"] and c["mc"]["n"] > 1 for c in row["cells"])


def rules_for(t, ncols, upper, lower):
    """Rule commands for one row start (or the table end when lower is None)."""
    c = t.int(0, 19)
    if c < 10:
        return []
    hline_ok = True
    cline_hi = ncols
    if EXCL_SHORT_RULED and upper is not None and lower is not None \
            and row_width(lower) != row_width(upper):
        # listed finding: a rule between two rows of different length
        hline_ok = False
        cline_hi = min(row_width(lower), row_width(upper))
    cline_ok = not (EXCL_CLINE_SPAN and (has_span(upper) or has_span(lower)))
    if c < 15 or not cline_ok:
        return [{"r": "hline"}] * (2 if c == 14 else 1) if hline_ok else []
    out = []
    a = t.int(1, cline_hi)
    b = t.int(a, cline_hi)
    out.append({"r": "cline", "a": a, "b": b})
    if b + 1 < cline_hi and t.int(0, 1):
        a2 = t.int(b + 2, cline_hi)
        out.append({"r": "cline", "a": a2, "b": t.int(a2, cline_hi)})
    return out


ROW_ENDS = ["\\\\"] * 6 + ["\\\\[2pt]", "\\\\*", "\\tabularnewline", "\\\\ "]


def table(t, depth=1, nested=False):
    env = t.choice(["tabular"] * 6 + ["array"] * 3 + ["tabular*"])
    math = env == "array"
    ncols = t.int(1, 3 if nested else 5)
    nrows = t.int(1, 2 if nested else 6)
    tab = {"env": env, "ws": t.int(0, 250), "spec": colspec(t, ncols),
           "pos": t.choice([None, None, None, "t", "b"])}
    rows = []
    for _ in range(nrows):
        if not nested and t.int(0, 11) == 11:
            # one or two empty rows: one or more blank cells each
            for _e in range(1 if t.int(0, 3) < 3 else 2):
                ne = 1 if t.int(0, 1) == 0 else t.int(1, ncols)
                rows.append({"rules": [], "cells": [{"mc": None, "body": []} for _ in range(ne)],
                             "end": "\\\\"})
        rows.append({"rules": [], "cells": row_cells(t, ncols, math, depth, short_ok=not nested),
                     "end": t.choice(ROW_ENDS)})
    tab["last_end"] = bool(t.int(0, 1))
    if not nested and t.int(0, 9) == 9:
        # a spacer row at the very end; a closing rule behind it can only show at the bottom of the
        # last non-empty row (the output has no other row)
        rows.append({"rules": [], "cells": [{"mc": None, "body": []} for _ in range(t.int(1, ncols))], "end": "\\\\"})
        tab["last_end"] = True
    for i, r in enumerate(rows):
        # a rule is written only where it touches a non-empty row: in front of a
        # non-empty row, or directly after one (in front of the empty row that
        # follows it).  Which cells a rule between two empty rows (or above a
        # leading empty row) should mark is not said by the statement.
        if sm.row_is_empty(r) and (i == 0 or sm.row_is_empty(rows[i - 1])):
            continue
        upper, lower = nonempty_neighbours(rows, i)
        r["rules"] = rules_for(t, ncols, upper, lower)
    tab["tail"] = []
    if tab["last_end"]:
        upper, _ = nonempty_neighbours(rows, len(rows))
        tab["tail"] = rules_for(t, ncols, upper, None)
    tab["rows"] = rows
    return tab


def build_table_case(data):
    t = Tape(data)
    wrap = t.choice(["frag"] * 4 + ["article"])
    glue = t.int(0, 3)
    return sm.assign_marks({"kind": "table", "wrap": wrap, "glue": glue,
                            "pre": {"m": None}, "root": table(t, 1), "post": {"m": None}})


def table_case():
    return st.binary(min_size=320, max_size=320).map(build_table_case)


# ---- lists -----------------------------------------------------------------------
FIRST_SEPS = [" ", "", "\n"]
SEPS = [" ", "\n"] + list(sm.PAR_SEPS)
ENVS = ["quote", "center", "flushleft", "quotation", "flushright"]


def par_block(t, first, after_par, in_env=False):
    body = [text_piece(t, 1) for _ in range(t.int(1, 3))]
    if t.int(0, 11) == 11 and not EXCL_DECL_ITEM and not in_env:
        body.insert(t.int(0, 1), {"k": "decl", "cmd": t.choice(DECL_CMDS)})
    if t.int(0, 7) == 7:
        # a grouped declaration: formatting that ends with its group
        body.append({"k": "g", "body": [{"k": "decl", "cmd": t.choice(DECL_CMDS[:3])},
                                        {"k": "w", "m": None}]})
    if first:
        sep = t.choice(FIRST_SEPS)
    elif after_par:
        sep = t.choice(list(sm.PAR_SEPS) * 2 + [" ", "\n"])
    else:
        sep = t.choice(SEPS)
    return {"k": "p", "sep": sep, "body": body}


def blocks(t, depth, maxdepth, in_env=False, lo=0):
    n = t.int(lo, 4 if not in_env else 3)
    out = []
    for i in range(n):
        c = t.int(0, 19)
        first = i == 0
        sep = t.choice(FIRST_SEPS if first else SEPS)
        if c < 10 or (in_env and first):
            out.append(par_block(t, first, bool(out) and out[-1]["k"] == "p", in_env))
        elif c < 15 and depth < maxdepth:
            out.append({"k": "list", "sep": sep, "l": list_ast(t, depth + 1, maxdepth)})
        elif c < 18 and not in_env:
            out.append({"k": "env", "sep": sep, "name": t.choice(ENVS),
                        "blocks": blocks(t, depth, maxdepth, in_env=True, lo=1)})
        elif c == 18 and not in_env:
            out.append({"k": "tab", "sep": sep, "t": small_table(t)})
        else:
            out.append(par_block(t, first, bool(out) and out[-1]["k"] == "p", in_env))
    return out


def small_table(t):
    ncols = t.int(1, 3)
    rows = []
    for _ in range(t.int(1, 2)):
        rows.append({"rules": t.choice([[], [], [{"r": "hline"}]]),
                     "cells": [{"mc": None, "body": [{"k": "w", "m": None}]} for _ in range(ncols)],
                     "end": "\\\\"})
    return {"env": "tabular", "ws": t.int(0, 99), "pos": None,
            "spec": [{"t": "col", "c": "l"} for _ in range(ncols)], "rows": rows,
            "last_end": bool(t.int(0, 1)), "tail": []}


def term(t):
    return [text_piece(t, 1) for _ in range(t.int(0, 2))]


def list_ast(t, depth=1, maxdepth=4):
    env = t.choice(["itemize", "enumerate", "description"])
    items = []
    for _ in range(t.int(1, 4 if depth < 3 else 2)):
        tm = None
        c = t.int(0, 9)
        if (env == "description" and c < 8) or c == 9:
            tm = term(t)
        items.append({"term": tm, "blocks": blocks(t, depth, maxdepth)})
    return {"env": env, "ws": t.int(0, 250), "items": items}


def build_list_case(data):
    t = Tape(data)
    wrap = t.choice(["frag"] * 4 + ["article"])
    glue = t.int(0, 3)
    return sm.assign_marks({"kind": "list", "wrap": wrap, "glue": glue,
                            "pre": {"m": None}, "root": list_ast(t, 1, 4), "post": {"m": None}})


def list_case():
    return st.binary(min_size=400, max_size=400).map(build_list_case)


# --------------------------------------------------------------------------
# source of a case
# --------------------------------------------------------------------------
GLUE = [("\n\n", "\n\n"), (" ", " "), ("\n", "\n\n"), ("\n\n", " ")]


def case_source(case):
    if case["kind"] == "table":
        body, exp = sm.table_source(case["root"])
        if case["root"]["env"] == "array":
            body = "$" + body + "$"
        body = "\\def\\PQ#1{zo#1}" + body
    else:
        body, exp = sm.list_source(case["root"])
    g = GLUE[case.get("glue", 0) % len(GLUE)]
    text = "zq" + case["pre"]["m"] + g[0] + body + g[1] + "zq" + case["post"]["m"] + "\n"
    if case.get("wrap") == "article":
        text = "\\documentclass{article}\n\\begin{document}\n" + text + "\\end{document}\n"
    return text, exp


# --------------------------------------------------------------------------
# observation (the only part that touches plasTeX)
# --------------------------------------------------------------------------
DECLS = set(["bfseries", "itshape", "small", "em", "sffamily", "mdseries", "rmfamily", "ttfamily",
             "slshape", "scshape", "upshape"])


def _classes():
    from plasTeX.Base.LaTeX.Arrays import Array
    from plasTeX.Base.LaTeX.Lists import List
    return Array, List


def first_level(node, cls, out=None):
    """Descendants of `node` that are instances of cls, not looking inside them."""
    if out is None:
        out = []
    for ch in node.childNodes:
        if isinstance(ch, cls):
            out.append(ch)
        else:
            first_level(ch, cls, out)
    return out


def own_segments(node, stop, decl, out):
    from plasTeX.DOM import Node
    for ch in node.childNodes:
        if ch.nodeType == Node.TEXT_NODE or ch.nodeType == Node.CDATA_SECTION_NODE:
            out.append((str(ch), decl))
        elif isinstance(ch, stop):
            out.append((" ", decl))
        else:
            own_segments(ch, stop, decl or ch.nodeName in DECLS, out)
    return out


def own_marks(node, stop):
    segs = own_segments(node, stop, False, [])
    text = "".join(s for s, _ in segs)
    flags = []
    for s, d in segs:
        flags.extend([d] * len(s))
    marks, declared = [], []
    for m in sm.MARK_RE.finditer(text):
        marks.append(m.group(0))
        if flags[m.start()]:
            declared.append(m.group(0))
    return marks, declared


def border(cell, side):
    return any(k.startswith("border-" + side) for k in cell.style.keys())


def observe_table(node):
    Array, List = _classes()
    rows = []
    strays = []
    for r in node.childNodes:
        if not isinstance(r, Array.ArrayRow):
            strays.append(r.nodeName)
            continue
        cells = []
        for c in r.childNodes:
            if not isinstance(c, Array.ArrayCell):
                strays.append(c.nodeName)
                continue
            marks, declared = own_marks(c, Array)
            span = c.attributes.get("colspan", 1) if c.attributes else 1
            cells.append({"span": span if span is not None else 1, "markers": marks, "decl": declared,
                          "nested": [observe_table(n) for n in first_level(c, Array)],
                          "top": border(c, "top"), "bottom": border(c, "bottom"),
                          "left": border(c, "left"), "right": border(c, "right")})
        rows.append(cells)
    return {"rows": rows, "strays": strays}


def observe_list(node):
    Array, List = _classes()
    items = []
    strays = []
    for it in node.childNodes:
        if isinstance(it, List.item):
            own, _ = own_marks(it, List)
            t = it.attributes.get("term") if it.attributes else None
            if t is None:
                term = None
            elif hasattr(t, "textContent"):
                term = sm.markers(t.textContent)
            else:
                term = sm.markers(str(t))
            items.append({"term": term, "own": own,
                          "subs": [observe_list(n) for n in first_level(it, List)]})
        else:
            txt = it.textContent if hasattr(it, "textContent") else str(it)
            if txt.strip() or it.nodeType == 1:
                strays.append(it.nodeName)
    return {"env": node.nodeName, "items": items, "strays": strays}


def parse(src):
    from plasTeX.TeX import TeX
    tex = TeX()
    tex.input(src)
    return tex.parse()


# --------------------------------------------------------------------------
# checks
# --------------------------------------------------------------------------
def _outside(doc, cls):
    """Markers of the document that stand outside every shape of class cls."""
    marks, _ = own_marks(doc, cls)
    return marks


def check_table(case):
    Array, List = _classes()
    src, exp = case_source(case)
    feats = sm.table_features(exp, case["root"])
    doc, err = call_real(parse, src)
    if err is not None:
        return fail(err.key, dict(err.detail(), source=src), feats)
    roots = first_level(doc, Array)
    if len(roots) != 1:
        return fail("table:root-count", {"observed": len(roots), "source": src}, feats)
    outside = _outside(doc, Array)
    want_out = ["zq" + case["pre"]["m"], "zq" + case["post"]["m"]]
    if outside != want_out:
        return fail("table:text-crosses-table-boundary", {"expected_outside": want_out,
                                                         "observed_outside": outside, "source": src}, feats)
    obs = observe_table(roots[0])
    r = sm.compare_table(exp, obs)
    if r is not None:
        return fail(r[0], dict(r[1], source=src), sorted(feats))
    nrows = len(exp["rows"])
    ruled = bool(feats & set(["table:hline", "table:cline"]))
    nontrivial = nrows >= 2 and (ruled or "table:multicolumn" in feats)
    return ok(sorted(feats), nontrivial)


def check_list(case):
    Array, List = _classes()
    src, exp = case_source(case)
    feats = sm.list_features(case["root"], exp)
    doc, err = call_real(parse, src)
    if err is not None:
        return fail(err.key, dict(err.detail(), source=src), feats)
    roots = first_level(doc, List)
    if len(roots) != 1:
        return fail("list:root-count", {"observed": len(roots), "source": src}, feats)
    outside = _outside(doc, List)
    want_out = ["zq" + case["pre"]["m"], "zq" + case["post"]["m"]]
    if outside != want_out:
        return fail("list:text-crosses-list-boundary", {"expected_outside": want_out,
                                                       "observed_outside": outside, "source": src}, feats)
    obs = observe_list(roots[0])
    r = sm.compare_list(exp, obs)
    if r is not None:
        return fail(r[0], dict(r[1], source=src), sorted(feats))
    nontrivial = sm.list_depth(exp) >= 2 and "list:multi-paragraph-item" in feats
    return ok(sorted(feats), nontrivial)


RULE_LISTS = ("one itemize/enumerate/description tree per case: 1-4 items per list, nesting <= 4 (also through "
              "quote/center/flushleft/quotation/flushright), 0-4 blocks per item (paragraphs of marker words, groups, "
              "\\textbf.., math; nested lists; environments; small tabulars), paragraph breaks by blank line or \\par, "
              "empty items, optional terms (always tried on description), text before and after the list; fragment "
              "or article wrapper. Oracle: per list the item sequence with term markers, own-content markers (not "
              "looking into nested lists) and nested lists, compared recursively. Non-trivial: depth >= 2 and an "
              "item with >= 2 paragraphs.")
RULE_TABLES = ("one tabular/array/tabular* per case: 1-5 columns, 1-6 non-empty rows, empty rows, short rows, column "
               "spec from | l c r p{} @{} *{n}{}, \\multicolumn{n}{spec} with own bars, \\hline (single/double) and "
               "1-2 \\cline{a-b} per row start and after the last \\\\, row ends \\\\ \\\\[2pt] \\\\* \\tabularnewline, cells: "
               "empty / words / groups / \\textbf.. / math / nested tables / font declarations / \\def\\PQ + probe "
               "uses (expected expansion computed by cell scoping). Oracle: rows x cells (colspan, own markers, "
               "nested tables), span sums, vertical and horizontal boundaries (tri-state model), no leaked "
               "definition/declaration. Non-trivial: >= 2 rows and a \\multicolumn or a rule command.")

STREAMS = [
    Stream("lists", "given", lambda tier: list_case(), check_list,
           budget={"quick": 600, "thorough": 15000}, timeout=60.0, rule=RULE_LISTS),
    Stream("tables", "given", lambda tier: table_case(), check_table,
           budget={"quick": 900, "thorough": 20000}, timeout=60.0, rule=RULE_TABLES),
]

"""C12 -- rendered HTML never turns document text into markup.

Generator: models/renderdoc.py documents whose text leaves come from a
markup-hostile alphabet (each leaf TeX-escaped by the generator), in every
text-bearing position of the grammar; x renderer/theme x split level x
escape-high-chars.
Oracle (metamorphic): render the document and its *benign twin* (same structure,
every leaf replaced by a unique marker word).  Parse both outputs with
html.parser.  The twin's event stream with every marker replaced by the decoded
hostile leaf must equal the hostile run's event stream: same tags, same attribute
names, attribute values / text nodes / comments equal after substitution.  With
escape-high-chars the bytes are pure ASCII and the parsed events equal those of
the run without it.
"""
import re

from hypothesis import strategies as st

from vlib import Stream, ok, fail, known_keys
from models import renderdoc as rd
from models import renderrun as rr

PROPERTY = "C12"
LEVEL = "exploration"
ASSUMPTIONS = [
    "the benign twin (same document, every leaf a unique alphanumeric word) shows what the templates put into the "
    "output; generated ids are equal in both runs because the structure is equal and every case starts from a "
    "freshly forked interpreter",
    "character substitutions of the TeX side (quote/dash ligatures) are disabled through document/disable-charsub "
    "so that the leaf text is what LaTeX is asked to print (charsub is C07's business)",
    "index entries are written sortkey@leaf with a fixed benign sort key, so that the order of the index does not "
    "depend on the leaf; file names use the default template (labels only), so they do not depend on the leaf",
    "TeX collapses blanks: leaves have no leading/trailing/double blanks",
    "html.parser with convert_charrefs=True is the reference HTML reader",
]
KNOWN = known_keys(PROPERTY)

ALL_CHARSUBS = ["``", "''", '"`', "\"'", "`", "'", "---", "--"]

# hostile leaves (decoded text the reader must see)
HOSTILE = ["<", ">", "&", '"', "'", "<b>", "</p>", "<script>alert(1)</script>", "&amp;", "&lt;",
           "&#60;", "<!--", "]]>", "\u00e9 \u00fc \u4e2d", "a<b", 'say "x" & <i>y</i>', "x > y", "AT&T",
           "-->", "<a href=\"u\">", "1 < 2", "&nbsp;", "caf\u00e9", "'q'",
           # characters beyond the basic multilingual plane (escape-high-chars must cover them too)
           "\U0001d538 < \U0001f600", "\U0001f600",
           # letters the source writes with accent commands (\'a \'o \"o \`a \~n \c{c}): the same command with
           # different base letters, next to a literal accented letter
           "\u00e1 \u00f3 < \u00f6", "d\u00e9j\u00e0 \u00f1 & \u00e7\u00e1"]
# shapes the image post-processor's placeholder regex can match
MAGIC = ["&x-width;", "&lt-width;", "&x-depth;&pt;", "&a-height;"]
PLAIN = ["plain", "word"]

K_MAGIC = "text-rewritten:image-placeholder"      # known finding key for MAGIC leaves
MAGIC_RE = re.compile(r"&\S+-(width|height|depth);")
# known-finding keys of the HTML5 attribute sinks that repeat unit/document titles
K_LAYOUT_SINKS = ["unescaped-attr:HTML5:link@title", "unescaped-attr:HTML5:a@title"]
K_INDEX_SINK = "unescaped-attr:HTML5:a.index-page@title"
K_ENCODE = "escape-high-raise:non-utf8-output-encoding"
ATTR_SAFE = ["'", "\u00e9 \u00fc \u4e2d", "caf\u00e9", "'q'", "plain", "word", "x y", "]]", "\U0001f600"]

COMBOS = [("HTML5", "default"), ("XHTML", "default"), ("HTML5", "minimal")]


def leaf_strategy():
    alpha = list(HOSTILE)
    if K_MAGIC not in KNOWN:
        alpha += MAGIC
    pool = alpha * 3 + PLAIN
    return st.builds(dict, s=st.sampled_from(pool))


@st.composite
def config(draw):
    rend, theme = draw(st.sampled_from(COMBOS))
    return {"renderer": rend, "theme": theme,
            "split": draw(st.sampled_from([1, 0, 2, -10, 3, -1])),
            "escape": draw(st.sampled_from([None, "utf-8", "ascii", None, "utf-8", "latin-1"])),
            "disable_charsub": ALL_CHARSUBS,
            "jobname": "job"}


def uniquify(doc):
    """plasTeX compares nodes structurally (Node.__eq__): two units with equal
    titles and equal bodies are 'the same' for the toc's active-entry test.  The
    twin's titles are distinct, so the hostile document's must be too: every unit
    title gets a distinct benign suffix word."""
    for i, u in enumerate(doc["units"]):
        u["title"]["s"] += " u%d" % i
    # optional arguments: plasTeX closes [..] at the first ']' even inside a brace
    # group (argument parsing is C05's subject), so ']' stays out of these slots
    for leaf, kind, ui, slot in rd.walk_leaves(doc):
        if slot in ("toctitle", "thmtitle", "term") and "]" in leaf["s"]:
            leaf["s"] = leaf["s"].replace("]", ")")
    return doc


def exclude_known(case):
    """By-construction exclusion of listed findings.

    * HTML5 default-theme layout copies the titles of file-producing units and of
      the document into title="..." unescaped (<link rel=..>, navigation <a>);
    * the HTML5 index template does the same with the title of the section that
      holds an \\index entry.
    While such a sink is listed, exactly those titles keep to characters that are
    harmless inside an attribute value; all other titles stay hostile.
    * escape-high-chars with a non-UTF output encoding raises before escaping:
      while listed, the escaped run uses utf-8 only."""
    doc, cfg = case["doc"], case["cfg"]
    hit = []
    if cfg["renderer"] == "HTML5":
        safe_units = set()
        doctitle = False
        if cfg["theme"] == "default" and any(k in KNOWN for k in K_LAYOUT_SINKS):
            P = rd.Placement(doc, cfg["split"])
            safe_units |= set(i for i in range(len(doc["units"])) if P.opens[i])
            doctitle = True
        if K_INDEX_SINK in KNOWN and doc.get("index"):
            for leaf, kind, ui, slot in rd.walk_leaves(doc):
                if kind == "k" and ui >= 0:
                    safe_units.add(ui)
                elif kind == "k":
                    doctitle = True      # an entry before the first unit belongs to the document
        n = 0
        for leaf, kind, ui, slot in rd.walk_leaves(doc):
            if ((slot == "title" and ui in safe_units) or (slot == "doctitle" and doctitle)) \
                    and re.search(r'[<>&"]', leaf["s"]):
                suffix = re.search(r"( u\d+)?$", leaf["s"]).group(0)
                leaf["s"] = ATTR_SAFE[(n + len(leaf["s"])) % len(ATTR_SAFE)] + suffix
                n += 1
        if n:
            hit.append("html5-title-attr")
    if K_ENCODE in KNOWN and cfg.get("escape") not in (None, "utf-8"):
        cfg["escape"] = "utf-8"
        hit.append("escape-non-utf8")
    if hit:
        case["excluded_known"] = " ".join(hit)
    return case


def cases(tier):
    docs = rd.doc_strategy(leaf=leaf_strategy, title_leaf=leaf_strategy, max_units=6, max_blocks=3,
                           sorted_index=True).map(uniquify)
    return st.fixed_dictionaries({"doc": docs, "cfg": config()}).map(exclude_known)


# ---------------------------------------------------------------------------

def subst(text, leaf_of):
    return rd.MARK_RE.sub(lambda m: leaf_of.get(m.group(0), m.group(0)), text)


def where(events, i):
    """Short path description of event i: enclosing open elements."""
    stack = []
    for e in events[:i]:
        if e[0] == "start" and e[1] not in rd.VOID:
            stack.append(e[1] + ("." + dict(e[2])["class"].split()[0] if dict(e[2]).get("class") else ""))
        elif e[0] == "end" and stack:
            # pop to the matching tag
            for j in range(len(stack) - 1, -1, -1):
                if stack[j].split(".")[0] == e[1]:
                    del stack[j:]
                    break
    return "/".join(stack[-3:])


def attr_sink(ev, j):
    """'tag@attr' of the first attribute of start event j that shows a leaf."""
    cls = dict(ev[j][2]).get("class", "").split()
    tag = ev[j][1]
    if cls and not rd.MARK_RE.search(cls[0]):
        tag += "." + re.sub(r"-last$", "", cls[0])
    for k, v in ev[j][2]:
        if rd.MARK_RE.search(v):
            return "%s@%s" % (tag, k)
    return None


def compare(ev_b, ev_h, leaf_of, slot_of, rend):
    """Compare twin events (after substitution) with hostile events.
    -> None or (key, detail).  Keys name the sink: 'unescaped-attr:<renderer>:
    <tag>@<attr>' for a leaf inside an attribute value, '<kind>-mismatch:<slot>'
    / 'markup-from-text:<slot>' for a leaf in a text position."""
    n = min(len(ev_b), len(ev_h))
    for i in range(n):
        b, h = ev_b[i], ev_h[i]
        if b[0] != h[0] or (b[0] in ("start", "end") and b[1] != h[1]):
            # structural difference: an attribute that broke out of its quotes a
            # few events back, else text that became markup
            for j in range(i, max(-1, i - 6), -1):
                if ev_b[j][0] == "start" and attr_sink(ev_b, j):
                    return ("unescaped-attr:%s:%s" % (rend, attr_sink(ev_b, j)),
                            {"twin": repr(ev_b[j])[:400], "hostile": repr(ev_h[j])[:400],
                             "path": where(ev_b, j)})
            slot = "?"
            for j in range(i, -1, -1):
                if ev_b[j][0] == "text" and rd.MARK_RE.search(ev_b[j][1]):
                    slot = slot_of.get(rd.MARK_RE.findall(ev_b[j][1])[-1], "?")
                    break
            return ("markup-from-text:" + slot, {"twin": repr(b)[:300], "hostile": repr(h)[:300],
                                                 "path": where(ev_b, i)})
        if b[0] == "start":
            names_b, names_h = [k for k, v in b[2]], [k for k, v in h[2]]
            bad = names_b != names_h or any(subst(vb, leaf_of) != vh
                                            for (k, vb), (_, vh) in zip(b[2], h[2]))
            if bad:
                sink = attr_sink(ev_b, i)
                if sink:
                    return ("unescaped-attr:%s:%s" % (rend, sink),
                            {"twin": repr(b)[:400], "hostile": repr(h)[:400], "path": where(ev_b, i)})
                return ("attr-differs:%s" % b[1], {"twin": repr(b)[:400], "hostile": repr(h)[:400],
                                                   "path": where(ev_b, i)})
        elif b[0] in ("text", "comment", "decl", "pi"):
            if subst(b[1], leaf_of) != h[1]:
                ms = rd.MARK_RE.findall(b[1])
                slot = "?"
                exp = subst(b[1], leaf_of)
                for m in ms:
                    if leaf_of[m] not in h[1]:
                        slot = slot_of.get(m, "?")
                        break
                else:
                    if ms:
                        slot = slot_of.get(ms[0], "?")
                leaves = [leaf_of[m] for m in ms]
                if any(MAGIC_RE.search(l) for l in leaves):
                    return (K_MAGIC, {"expected": exp[:300], "got": h[1][:300], "path": where(ev_b, i)})
                return ("%s-mismatch:%s" % (b[0], slot),
                        {"expected": exp[:300], "got": h[1][:300], "path": where(ev_b, i)})
    if len(ev_b) != len(ev_h):
        return ("markup-from-text:tail", {"twin_events": len(ev_b), "hostile_events": len(ev_h)})
    return None


def check(case):
    doc, cfg = case["doc"], case["cfg"]
    feats = set()
    feats.add("%s-%s" % (cfg["renderer"], cfg["theme"]))
    feats.add("split=%d" % cfg["split"])
    if case.get("excluded_known"):
        feats.add("excluded-known:" + case["excluded_known"])
    twin = rd.benign_twin(doc)
    leaf_of, slot_of = {}, {}
    hot = 0
    for (lh, kind, ui, slot), (lb, _, _, _) in zip(rd.walk_leaves(doc), rd.walk_leaves(twin)):
        leaf_of[lb["s"]] = lh["s"]
        slot_of[lb["s"]] = slot
        if re.search(r'[<>&"]', lh["s"]):
            hot += 1
            feats.add("hot:" + slot)
        if MAGIC_RE.search(lh["s"]):
            feats.add("magic-shape")
        if any(ord(c) > 127 for c in lh["s"]):
            feats.add("non-ascii")
    src_h, src_b = rd.to_latex(doc), rd.to_latex(twin)
    rcfg = dict((k, v) for k, v in cfg.items() if k != "escape")
    rcfg["escape_high"] = False
    res_h = rr.render(src_h, rcfg)
    res_b = rr.render(src_b, rcfg)
    ctx = {"source": src_h}
    if res_b["error"] is not None:
        return fail("twin-" + res_b["error"]["key"], dict(res_b["error"]["detail"], source=src_b), feats)
    if res_h["error"] is not None:
        return fail(res_h["error"]["key"], dict(res_h["error"]["detail"], **ctx), feats)
    if res_h["created"] != res_b["created"] or sorted(res_h["files"]) != sorted(res_b["files"]):
        return fail("file-set-differs", dict(ctx, hostile=res_h["created"], twin=res_b["created"]), feats)
    fh, fb = rd.decode_files(res_h), rd.decode_files(res_b)
    for name in res_b["created"]:
        ev_b, ev_h = rd.Scan(fb[name]).events, rd.Scan(fh[name]).events
        r = compare(ev_b, ev_h, leaf_of, slot_of, cfg["renderer"])
        if r is not None:
            key, detail = r
            return fail(key, dict(ctx, file=name, **detail), feats)
    if cfg.get("escape"):
        enc = cfg["escape"]
        rcfg["escape_high"] = True
        rcfg["encoding"] = enc
        res_e = rr.render(src_h, rcfg)
        if res_e["error"] is not None:
            ek = res_e["error"]["key"]
            if enc != "utf-8" and ("UnicodeEncodeError" in ek or "ContextContentException" in ek):
                # the file is written in the output encoding *before* the escaping pass
                # (simpleTAL re-raises the UnicodeError of a nested file write under its own name)
                return fail(K_ENCODE, dict(res_e["error"]["detail"], encoding=enc, **ctx), feats)
            return fail("escape-high-" + ek,
                        dict(res_e["error"]["detail"], encoding=enc, **ctx), feats)
        if sorted(res_e["files"]) != sorted(res_h["files"]):
            return fail("escape-high-file-set", dict(ctx), feats)
        for name in res_b["created"]:
            raw = res_e["files"][name]
            hi = [b for b in raw if b > 127]
            if hi:
                return fail("escape-high-not-ascii", dict(ctx, file=name, bytes=len(hi), encoding=enc), feats)
            ev_e = rd.Scan(raw.decode("ascii")).events
            if enc != "utf-8":
                # the declared charset is the only admissible difference
                ev_e = [(e[0], e[1], [(k, v.replace(enc, "utf-8")) for k, v in e[2]])
                        if e[0] == "start" and e[1] == "meta" else e for e in ev_e]
            if ev_e != rd.Scan(fh[name]).events:
                return fail("escape-high-changes-text", dict(ctx, file=name, encoding=enc), feats)
        feats.add("escape-high-checked:" + enc)
    return ok(sorted(feats), hot >= 3)


RULE = ("documents of models/renderdoc.doc_strategy (0-6 units, as C13) whose leaves -- paragraph words, \\textbf/"
        "\\emph/\\texttt, \\verb, verbatim, footnotes, index entries, list items/terms, cells, captions, theorem "
        "notes and bodies, section/toc/document titles, bibitems -- are drawn from a hostile alphabet (< > & \" ' "
        "tag-, entity-, comment-, CDATA-like strings, image-placeholder shapes, non-ASCII) x {HTML5 default, XHTML "
        "default, HTML5 minimal} x split {-10,-1,0,1,2,3} x escape-high-chars. Non-trivial: >=3 positions carry "
        "a leaf containing one of < > & \".")

STREAMS = [
    Stream("twin", "given", cases, check, budget={"quick": 40, "thorough": 1000},
           timeout=90.0, rule=RULE),
]

rr.preload()

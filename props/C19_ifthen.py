"""C19 -- ifthen tests evaluate as the boolean expression they spell.

Generator: recursive Hypothesis strategy over boolean expression trees (paren depth
<= 4) placed in small programs of \\ifthenelse / \\whiledo statements whose branches
carry a marker word and side effects (counters, booleans, macro definitions) that
later tests read.  Oracle: models/ifthenmodel.py interprets the same program (the
generator knows the value by construction) and predicts the exact sequence of
`;`-terminated marker words of the document body.
"""
import functools
import logging
import signal

from hypothesis import strategies as st

from vlib import Stream, ok, fail, skip, call_real, known_keys
from models import ifthenmodel as M

logging.disable(logging.CRITICAL)

PROPERTY = "C19"
LEVEL = "exploration"
ASSUMPTIONS = [
    "models/ifthenmodel.py reads the statement literally: \\and/\\or equal precedence folded left to right, "
    "\\not negates the operand (atom or parenthesised group) that follows it, \\( \\) group",
    "integer atoms follow TeX (\\ifodd: -3 is odd; leading zeros and signs allowed in literals)",
    "lengths are compared as exact rationals with TeX's unit ratios; the two sides are spelled identically or "
    "differ by >= 4 sp, so TeX's own 1-2 sp rounding cannot change the answer; em/ex are not generated",
    "\\equal compares the fully expanded strings; strings avoid leading/trailing/multiple blanks and TeX specials",
    "boolean, counter, macro names come from a pool that collides with no LaTeX/plasTeX command "
    "(\\newboolean{bf} vs \\bf is a name-space question the statement does not cover)",
    "side effects inside a \\whiledo body are limited to counters and booleans (plasTeX expands the body in a "
    "sub-process whose local \\def is dropped; the statement does not speak about scoping)",
]

KNOWN = known_keys(PROPERTY)
K_NOT = {"raise:IndexError@plasTeX/Packages/ifthen.py:evaluate:not-after-operator",
         "wrong-branch:not-after-operator", "loop-count:not-after-operator"}
K_WPAREN = {"loop-count:paren-in-whiledo",
            "raise:IndexError@plasTeX/Packages/ifthen.py:evaluate:paren-in-whiledo"}
EXCLUDE_NOT = bool(KNOWN & K_NOT)
EXCLUDE_WPAREN = bool(KNOWN & K_WPAREN)

COUNTERS = ["cqa", "cqb", "cqc"]
LOOPCTRS = ["lqa", "lqb"]
IMACS = ["nqa", "nqb"]
SMACS = ["sqa", "sqb"]
BOOLS = ["vqa", "vqb", "vqc"]
PROBES = ["pqa", "pqb", "pqc"]
NEVER = ["zqundefa", "zqundefb"]

# --------------------------------------------------------------------------
# operands
# --------------------------------------------------------------------------
small = st.integers(-3, 8)


def _spell(n, style):
    s = str(abs(n))
    if style == 1:
        s = "0" + s
    elif style == 2:
        s = "00" + s
    if n < 0:
        return "-" + s
    if style == 3:
        return "+" + s
    return s


literal = st.tuples(st.one_of(small, small, st.integers(-40, 120)),
                    st.sampled_from([0, 0, 0, 0, 1, 2, 3])).map(lambda t: ["lit", _spell(*t)])


@functools.lru_cache(maxsize=None)
def int_operand(in_loop):
    ctrs = COUNTERS + (LOOPCTRS if in_loop else [])
    plain = st.one_of(
        literal, literal,
        st.sampled_from(ctrs).map(lambda c: ["value", c]),
        st.sampled_from(ctrs).map(lambda c: ["arabic", c]),
        st.sampled_from(IMACS).map(lambda n: ["mac", n]))
    # a minus sign in front of any operand (the operand's own value may be negative: a sign run)
    return st.one_of(plain, plain, plain, plain, plain.map(lambda I: ["neg", I]))


REL = st.sampled_from(["<", "=", ">"])

WORDS = ["", "a", "foo", "Foo", "foo bar", "a b c", "x1", "12", "bar", "a,b.c!"]
POSTS = ["", "", "1", ".x", "!", "2b", ",y z"]
SVALS = ["foo", "a", "", "foo bar", "12"]


@st.composite
def str_operand(draw):
    mac = draw(st.sampled_from([None, None, None] + SMACS))
    pre = draw(st.sampled_from(WORDS))
    if mac is None:
        return [pre, None, ""]
    if pre.endswith(" ") or draw(st.booleans()):
        pre = ""
    return [pre, mac, draw(st.sampled_from(POSTS))]


UNIT = st.sampled_from(sorted(M.UNITS))


@st.composite
def length(draw):
    unit = draw(UNIT)
    if unit == "sp":
        return [str(draw(st.integers(0, 200000))), unit]
    n = draw(st.integers(0, 60))
    if unit in ("in", "cm", "cc", "pc"):
        n = draw(st.integers(0, 9))
    dec = draw(st.sampled_from(["", "", ".5", ".25", ".0", ".125", ".3", ".01", ".999"]))
    sign = draw(st.sampled_from(["", "", "", "", "-"]))
    # unit keywords may be written in any mix of cases (1CM, 2Pt, 3mM)
    unit = draw(st.sampled_from([unit, unit, unit, unit.upper(), unit.capitalize(), unit[0] + unit[1:].upper()]))
    return [sign + str(n) + dec, unit]


# a few near pairs that are NOT knife edges (>= 4 sp apart), and identical pairs
@st.composite
def length_pair(draw):
    d1 = draw(length())
    mode = draw(st.integers(0, 5))
    if mode == 0:
        d2 = list(d1)
    else:
        d2 = draw(length())
    if not M.length_pair_ok(d1, d2):
        d2 = list(d1)
    return d1, d2


@functools.lru_cache(maxsize=None)
def atom(in_loop):
    io = int_operand(in_loop)
    cmp_ = st.tuples(io, REL, io, st.booleans()).map(lambda t: ["cmp", t[0], t[1], t[2], t[3]])
    len_ = st.tuples(length_pair(), REL, st.booleans()).map(
        lambda t: ["len", t[0][0], t[1], t[0][1], t[2]])
    equal = st.tuples(str_operand(), str_operand()).map(lambda t: ["equal", t[0], t[1]])
    isodd = io.map(lambda i: ["isodd", i])
    undef = st.sampled_from(PROBES + PROBES + NEVER + list(M.ALWAYS_DEFINED[:3])).map(lambda n: ["undef", n])
    boolean = st.sampled_from(BOOLS).map(lambda b: ["bool", b])
    return st.one_of(cmp_, cmp_, cmp_, len_, equal, isodd, undef, boolean, boolean)


NOTS = st.sampled_from([[], [], [], [], [], [], ["not"], ["not"], ["NOT"], ["not"],
                        ["not", "not"], ["NOT", "not"]])
CONN = st.sampled_from(["and", "or", "and", "or", "AND", "OR"])
NOPDS = st.sampled_from([1, 1, 1, 2, 2, 2, 2, 3, 3, 4])


@functools.lru_cache(maxsize=None)
def expr(depth, in_loop=False, pparen=38):
    """Recursive strategy: chain of operands; an operand is \\not* (atom | \\( expr \\)).
    (Explicit weights: st.one_of flattens nested one_of and would make parentheses rare.)"""
    a = atom(in_loop)

    @st.composite
    def chain(draw):
        n = draw(NOPDS)
        opds = []
        for _ in range(n):
            nots = list(draw(NOTS))
            if depth > 0 and draw(st.integers(0, 99)) < pparen:
                prim = ["paren", draw(expr(depth - 1, in_loop, pparen))]
            else:
                prim = draw(a)
            opds.append(["opd", nots, prim])
        conns = [draw(CONN) for _ in range(n - 1)]
        return ["chain", opds, conns]
    return chain()


def _known_filter(E, in_while):
    """Exclude, by construction, what a listed known finding is about."""
    changed = []
    if EXCLUDE_NOT and M.has_not_after_operator(E):
        E = M.strip_not_after_operator(E)
        changed.append("excluded-known:not-after-operator")
    if in_while and EXCLUDE_WPAREN and M.has_paren(E):
        E = M.strip_parens(E)
        if EXCLUDE_NOT and M.has_not_after_operator(E):
            E = M.strip_not_after_operator(E)
        changed.append("excluded-known:paren-in-whiledo")
    return E, changed


# --------------------------------------------------------------------------
# statements
# --------------------------------------------------------------------------
@functools.lru_cache(maxsize=None)
def effect(in_loop):
    c = st.sampled_from(COUNTERS)
    alts = [
        c.map(lambda x: ["step", x]),
        st.tuples(c, st.integers(-3, 3)).map(lambda t: ["add", t[0], t[1]]),
        st.tuples(c, small).map(lambda t: ["set", t[0], t[1]]),
        st.tuples(st.sampled_from(BOOLS), st.sampled_from(["true", "false", "true", "false", "True", "FALSE"])
                  ).map(lambda t: ["setbool", t[0], t[1]]),
        st.sampled_from(BOOLS).map(lambda b: ["provide", b]),
        st.just(["math"]),
    ]
    if not in_loop:
        alts.append(st.tuples(st.sampled_from(IMACS), small, st.just("def")
                              ).map(lambda t: ["defint", t[0], str(t[1]), t[2]]))
        alts.append(st.sampled_from(PROBES).map(lambda p: ["defprobe", p]))
    return st.one_of(*alts)


@st.composite
def if_stmt(draw, nest, in_loop, edepth):
    E = draw(expr(edepth, in_loop))
    notes = []
    E, ch = _known_filter(E, False)
    notes += ch
    def block():
        out = []
        for _ in range(draw(st.sampled_from([0, 1, 1, 2]))):
            if nest > 0 and draw(st.integers(0, 2)) == 0:
                out.append(draw(_if_stmt(nest - 1, in_loop, min(edepth, 2))))
            else:
                out.append(draw(effect(in_loop)))
        return out
    then = block()
    els = block()
    # sometimes one branch is the empty group (no marker either)
    e = draw(st.integers(0, 9))
    if e == 0:
        then = [["empty"]]
    elif e == 1:
        els = [["empty"]]
    if notes:       # optional 5th element: what was chosen away for listed known findings (not interpreted)
        return ["if", E, then, els, notes]
    return ["if", E, then, els]


@st.composite
def while_stmt(draw, level, edepth):
    ctr = LOOPCTRS[level]
    i0 = draw(st.integers(-2, 5))
    iters = draw(st.sampled_from([0, 1, 2, 3, 4, 5, 6, -2, 2, 3, 1]))
    n = i0 + iters
    gform = draw(st.integers(0, 3))
    V = ["value", ctr]
    if gform == 0:
        g = ["opd", [], ["cmp", V, "<", ["lit", str(n)], draw(st.booleans())]]
    elif gform == 1:
        g = ["opd", [], ["cmp", ["lit", str(n)], ">", V, draw(st.booleans())]]
    elif gform == 2:
        g = ["opd", [draw(st.sampled_from(["not", "NOT"]))], ["cmp", V, ">", ["lit", str(n - 1)], False]]
    else:
        g = ["opd", [], ["paren", ["chain", [["opd", [], ["cmp", V, "<", ["lit", str(n)], False]]], []]]]
    form = draw(st.sampled_from([0, 1, 2, 3, 4, 4, 5, 5]))
    # constructs excluded for listed known findings: chosen away here, by construction
    notes = []
    if EXCLUDE_WPAREN:
        if gform == 3 or form in (2, 3):
            notes.append("excluded-known:paren-in-whiledo")
        if gform == 3:
            g = ["opd", [], ["cmp", V, "<", ["lit", str(n)], False]]
        if form in (2, 3):
            form = 1
    if EXCLUDE_NOT:
        if form == 3 or (form in (1, 4, 5) and gform == 2):
            notes.append("excluded-known:not-after-operator")
        if form == 3:
            form = 2
        if form in (1, 4, 5) and gform == 2:
            g = ["opd", [], ["cmp", V, "<", ["lit", str(n)], False]]
    if form == 0:
        E = ["chain", [g], []]
    else:
        X, ch = _known_filter(draw(expr(edepth, True)), True)
        notes += ch
        a = draw(st.sampled_from(["and", "and", "AND"]))
        if form == 1:        # X \and G : left to right = (X) and G
            E = ["chain", X[1] + [g], X[2] + [a]]
        elif form == 2:      # G \and \( X \)
            E = ["chain", [g, ["opd", [], ["paren", X]]], [a]]
        elif form == 3:      # G \and \not \( X \)
            E = ["chain", [g, ["opd", ["not"], ["paren", X]]], [a]]
        elif form == 4:      # X \or <true> \and G : left to right = ((X or true) and G) = G
            t = draw(st.sampled_from(T_ATOMS[:3]))
            E = ["chain", X[1] + [["opd", [], t], g], X[2] + [draw(st.sampled_from(["or", "OR"])), a]]
        else:                # X \and <false> \or G = ((X and false) or G) = G
            f = draw(st.sampled_from(F_ATOMS[:3]))
            E = ["chain", X[1] + [["opd", [], f], g], X[2] + [a, draw(st.sampled_from(["or", "OR"]))]]
    keep = []
    for _ in range(draw(st.sampled_from([0, 1, 1, 2, 3]))):
        w = draw(st.integers(0, 3))
        keep.append(draw(_if_stmt(0, True, 2)) if w == 0 else draw(effect(True)))
    if level == 0 and draw(st.integers(0, 2)) == 0:      # nested once
        keep.insert(draw(st.integers(0, len(keep))), draw(_while_stmt(1, 1)))
    if notes:
        return ["while", ctr, i0, E, keep, sorted(set(notes))]
    return ["while", ctr, i0, E, keep]


@functools.lru_cache(maxsize=None)
def _if_stmt(nest, in_loop, edepth):
    return if_stmt(nest, in_loop, edepth)


@functools.lru_cache(maxsize=None)
def _while_stmt(level, edepth):
    return while_stmt(level, edepth)


@st.composite
def prologue(draw):
    bools = {}
    for b in BOOLS:
        bools[b] = draw(st.sampled_from([None, True, False, True]))
    return {
        "counters": dict((c, draw(small)) for c in COUNTERS),
        "loopctrs": list(LOOPCTRS),
        "imacs": dict((n, _spell(draw(small), draw(st.sampled_from([0, 0, 0, 1])))) for n in IMACS),
        "smacs": dict((s, draw(st.sampled_from(SVALS))) for s in SMACS),
        "bools": bools,
        "provided": draw(st.lists(st.sampled_from(BOOLS), max_size=1)),
        "probes": list(PROBES),
        "tight": draw(st.sampled_from([False, False, False, True])),
    }


@st.composite
def if_program(draw):
    case = draw(prologue())
    stmts = []
    for _ in range(draw(st.sampled_from([1, 1, 2, 3, 4]))):
        if draw(st.integers(0, 3)) == 0:
            stmts.append(draw(effect(False)))
        stmts.append(draw(_if_stmt(2, False, 4)))
    case["stmts"] = stmts
    return case


@st.composite
def while_program(draw):
    case = draw(prologue())
    stmts = []
    for _ in range(draw(st.sampled_from([1, 1, 2]))):
        if draw(st.integers(0, 2)) == 0:
            stmts.append(draw(effect(False)))
        stmts.append(draw(_while_stmt(0, 2)))
        if draw(st.integers(0, 3)) == 0:
            stmts.append(draw(_if_stmt(0, False, 2)))
    case["stmts"] = stmts
    return case


# --------------------------------------------------------------------------
# exhaustive grid: every placement of \not over chains of <= 3 (4) operands
# --------------------------------------------------------------------------
T_ATOMS = [["cmp", ["lit", "1"], "<", ["lit", "2"], True], ["isodd", ["lit", "3"]],
           ["equal", ["a", None, ""], ["a", None, ""]], ["bool", "vqa"]]
F_ATOMS = [["cmp", ["lit", "2"], "<", ["lit", "1"], True], ["isodd", ["lit", "4"]],
           ["equal", ["a", None, ""], ["b", None, ""]], ["bool", "vqb"]]
NOTSETS = [[], ["not"], ["not", "NOT"]]


def _shapes(n):
    """Parenthesisations: list of (start, end, group_nots) groups, one group at most."""
    out = [None]
    spans = [(0, n)]
    if n == 3:
        spans += [(0, 2), (1, 3)]
    if n == 4:
        spans += [(0, 2), (1, 3), (2, 4), (0, 3), (1, 4)]
    if n >= 2:
        spans += [(n - 1, n)]
    for s in spans:
        out.append((s[0], s[1], 0))
        out.append((s[0], s[1], 1))
    return out


def _grid_sizes(maxn):
    sizes = []
    for n in range(1, maxn + 1):
        sizes.append((n, (2 ** n) * (3 ** n) * (2 ** (n - 1)) * len(_shapes(n))))
    return sizes


def grid_case(i, maxn):
    for n, size in _grid_sizes(maxn):
        if i < size:
            break
        i -= size
    else:
        raise IndexError(i)
    shapes = _shapes(n)
    i, sh = divmod(i, len(shapes))
    shape = shapes[sh]
    opds = []
    for k in range(n):
        i, tv = divmod(i, 2)
        i, nn = divmod(i, 3)
        a = (T_ATOMS if tv else F_ATOMS)[(k + n) % 4]
        opds.append(["opd", list(NOTSETS[nn]), a])
    conns = []
    for k in range(n - 1):
        i, c = divmod(i, 2)
        conns.append(["and", "or"][c] if k % 2 == 0 else ["AND", "OR"][c])
    if shape is not None:
        s, e, gn = shape
        inner = ["chain", opds[s:e], conns[s:e - 1]]
        grp = ["opd", ["not"] if gn else [], ["paren", inner]]
        opds = opds[:s] + [grp] + opds[e:]
        conns = conns[:s] + conns[e - 1:]
    E = ["chain", opds, conns]
    return {"counters": {}, "loopctrs": [], "imacs": {}, "smacs": {},
            "bools": {"vqa": True, "vqb": False}, "provided": [], "probes": [], "tight": False,
            "stmts": [["if", E, [], []]]}


def make_grid(tier):
    maxn = 3 if tier == "quick" else 4
    total = sum(s for _, s in _grid_sizes(maxn))
    return total, (lambda i: grid_case(i, maxn))


# --------------------------------------------------------------------------
# the check
# --------------------------------------------------------------------------
def _parse(src):
    from plasTeX.TeX import TeX
    tex = TeX()
    tex.ownerDocument.config["general"]["load-tex-packages"] = False
    tex.input(src)
    return tex.parse()


def _reset_class_state():
    from plasTeX.Base.LaTeX.Math import BeginMath, EndMath
    BeginMath.disableMath = False
    EndMath.disableMath = False


def _class_state():
    from plasTeX.Base.LaTeX.Math import BeginMath, EndMath
    return {"BeginMath.disableMath": BeginMath.disableMath, "EndMath.disableMath": EndMath.disableMath}


def _stmt_has(stmts, pred):
    for s in stmts:
        if s[0] == "if":
            if pred(s[1], False) or _stmt_has(s[2], pred) or _stmt_has(s[3], pred):
                return True
        elif s[0] == "while":
            if pred(s[3], True) or _stmt_has(s[4], pred):
                return True
    return False


def _notes(stmts, out):
    for s in stmts:
        if s[0] == "if":
            out.update(s[4] if len(s) > 4 else ())
            _notes(s[2], out)
            _notes(s[3], out)
        elif s[0] == "while":
            out.update(s[5] if len(s) > 5 else ())
            _notes(s[4], out)
    return out


WATCHDOG = 10.0


def _rearm_watchdog():
    """vlib arms a one-shot SIGALRM.  When it lands inside Hypothesis' GC callback the HarnessTimeout is
    swallowed ("Exception ignored in gc_callback") and a non-terminating \\whiledo would then run for ever
    (seen with a mutant).  Re-arm with an interval: the alarm keeps firing until the runner clears it."""
    try:
        # the runner raises Stream.timeout tenfold to confirm a hang: follow it
        signal.setitimer(signal.ITIMER_REAL, max(x.timeout for x in STREAMS), 1.0)
    except (ValueError, OSError):       # not in the main thread / no handler: leave the runner's timer alone
        pass


def check(case):
    _rearm_watchdog()
    _reset_class_state()
    prog = M.Program(case)
    try:
        src = prog.source()
        expected = prog.run()
    except M.ModelError as e:
        return skip("model-domain:" + str(e)[:40])
    feats = sorted(prog.features | _notes(case["stmts"], set()))
    doc, err = call_real(_parse, src)
    state = _class_state()
    _reset_class_state()
    if err is not None:
        # the exception does not say which statement raised: attribute it to the most specific
        # suspicious construct the program contains (deterministic, seed independent)
        key = err.key
        if _stmt_has(case["stmts"], lambda E, w: M.has_not_after_operator(E)):
            key += ":not-after-operator"
        elif _stmt_has(case["stmts"], lambda E, w: w and M.has_paren(E)):
            key += ":paren-in-whiledo"
        return fail(key, dict(err.detail(), source=src, expected=expected), feats)
    body = doc.getElementsByTagName("document")
    text = (body[0] if body else doc).textContent
    words = "".join(text.split()).split(";")
    if words and words[-1] == "":
        words.pop()
    if words != expected:
        p = 0
        while p < len(words) and p < len(expected) and words[p] == expected[p]:
            p += 1
        exp = expected[p] if p < len(expected) else None
        obs = words[p] if p < len(words) else None
        key = _mismatch_key(prog, p, exp, obs)
        return fail(key, {"source": src, "expected": expected, "observed": words[:len(expected) + 20],
                          "first_difference": p}, feats)
    if state["BeginMath.disableMath"] or state["EndMath.disableMath"]:
        return fail("class-state:disableMath-left-set", {"source": src, "state": state}, feats)
    nmath = len(doc.getElementsByTagName("math"))
    if nmath != prog.math:
        return fail("math-probe:count", {"source": src, "expected": prog.math, "observed": nmath}, feats)
    return ok(feats, prog.nontrivial)


def check_grid(case):
    """The enumeration cannot choose a construct away: cells that contain the construct of a listed
    known finding are counted as excluded instead of being judged."""
    if EXCLUDE_NOT and _stmt_has(case["stmts"], lambda E, w: M.has_not_after_operator(E)):
        return skip("known:not-after-operator")
    return check(case)


def _mismatch_key(prog, p, exp, obs):
    # a loop marker where something else was expected: that loop ran too long
    if obs and obs[0] == "L" and obs[1:].isdigit() and exp != obs:
        return "loop-count:" + prog.loops.get(int(obs[1:]), "unknown")
    if exp is None:
        return "extra-output"
    kind, cls = prog.origin[p]
    if exp[0] in "TF" and exp[1:].isdigit():
        return "wrong-branch:" + prog.ifs.get(int(exp[1:]), cls)
    if exp[0] in "LE" and exp[1:].isdigit():
        return "loop-count:" + prog.loops.get(int(exp[1:]), cls)
    if kind in ("show", "final"):
        return "side-effect:" + cls
    if kind == "math":
        return "math-probe:text"
    return "text-mismatch:" + kind


# --------------------------------------------------------------------------
# survey (never asserted): classes the statement does not decide
# --------------------------------------------------------------------------
KNIFE = [(["1", "cm"], ["10", "mm"]), (["1", "in"], ["72.27", "pt"]), (["1", "in"], ["2.54", "cm"]),
         (["1", "pc"], ["12", "pt"]), (["1", "bp"], ["1.00375", "pt"]), (["1", "cc"], ["12", "dd"]),
         (["1.0", "pt"], ["1", "pt"]), (["65536", "sp"], ["1", "pt"])]
BOOLNAMES = ["bf", "it", "em", "par", "relax", "fi", "if", "value", "vqa"]


def _survey_cases():
    out = []
    for d1, d2 in KNIFE:
        for r in "<=>":
            out.append({"survey": "knife-edge", "d1": d1, "rel": r, "d2": d2})
    for n in BOOLNAMES:
        out.append({"survey": "boolean-name", "name": n})
    out.append({"survey": "def-in-whiledo-body"})
    out.append({"survey": "provideboolean-existing"})
    return out


def make_survey(tier):
    cases = _survey_cases()
    return len(cases), (lambda i: cases[i])


def _body_text(body):
    src = M.PROLOGUE + "\\newcounter{lqa}" + body + "\n" + M.EPILOGUE
    doc, err = call_real(_parse, src)
    if err is not None:
        return "raises-" + err.type
    el = doc.getElementsByTagName("document")
    return "".join((el[0] if el else doc).textContent.split())


def check_survey(case):
    """Observations only: the result is recorded under `excluded`, nothing is asserted."""
    _reset_class_state()
    k = case["survey"]
    try:
        if k == "knife-edge":
            a, b = M.length_sp(case["d1"]), M.length_sp(case["d2"])
            rational = M.rel(a, case["rel"], b)
            t = _body_text("\\ifthenelse{\\lengthtest{%s%s %s %s%s}}{T}{F}" % (
                case["d1"][0], case["d1"][1], case["rel"], case["d2"][0], case["d2"][1]))
            out = "agrees-with-rationals" if t == ("T" if rational else "F") else \
                  ("differs-from-rationals" if t in ("T", "F") else t)
            return skip("survey:knife-edge-length:%s:%s" % (case["rel"], out))
        if k == "boolean-name":
            n = case["name"]
            t = _body_text("\\newboolean{%s}\\setboolean{%s}{true}\\ifthenelse{\\boolean{%s}}{T}{F}" % (n, n, n))
            return skip("survey:boolean-named-%s:%s" % (n, {"T": "works"}.get(t, "fails(%s)" % t[:24])))
        if k == "def-in-whiledo-body":
            t = _body_text("\\whiledo{\\value{lqa}<1}{\\def\\pqa{x}\\stepcounter{lqa}}"
                           "\\ifthenelse{\\isundefined{\\pqa}}{U}{D}")
            return skip("survey:def-in-whiledo-body:%s" % {"D": "kept", "U": "lost-after-loop"}.get(t, t[:24]))
        if k == "provideboolean-existing":
            t = _body_text("\\newboolean{vqa}\\setboolean{vqa}{true}\\provideboolean{vqa}"
                           "\\ifthenelse{\\boolean{vqa}}{T}{F}")
            return skip("survey:provideboolean-existing:%s" % {"T": "value-kept", "F": "value-reset"}.get(t, t[:24]))
    finally:
        _reset_class_state()
    return skip("survey:unknown")


RULE_IF = ("programs of 1-4 \\ifthenelse statements (branches: marker word + counter/boolean/macro side effects, "
           "nested <= 2) whose tests are expression trees of paren depth <= 4: chains of 1-4 operands joined by "
           "\\and/\\or/\\AND/\\OR, each operand \\not* (atom | \\( expr \\)); atoms: integer comparisons over literals/"
           "\\value/\\arabic/macros, \\lengthtest in mixed units (identical or >= 4sp apart), \\equal, \\isodd, "
           "\\isundefined, \\boolean.  The whole event sequence and the final state are compared with the "
           "interpreter in models/ifthenmodel.py.  Non-trivial: some test has >= 2 connectives and a \\not not in "
           "first position, or parentheses whose removal changes the value.")
RULE_WHILE = ("programs of 1-2 \\whiledo loops (0-6 iterations, nested once, guard \\value{i}<n in four spellings, "
              "optionally combined with a depth<=2 expression that may read the loop counter); the body marker "
              "must appear exactly as often as the model iterates and the final counters must agree.  Non-trivial "
              "as for ifthenelse (evaluated at any iteration).")
RULE_GRID = ("complete enumeration: chains of 1-3 (thorough: 4) operands x truth value of each operand x 0/1/2 "
             "\\not on each operand x \\and/\\or per connective x every single parenthesised sub-chain with and "
             "without a \\not in front")

STREAMS = [
    Stream("ifthenelse", "given", lambda tier: if_program(), check,
           budget={"quick": 300, "thorough": 9000}, timeout=WATCHDOG, rule=RULE_IF, hang_is_violation=True),
    Stream("whiledo", "given", lambda tier: while_program(), check,
           budget={"quick": 160, "thorough": 5000}, timeout=WATCHDOG, rule=RULE_WHILE, hang_is_violation=True),
    Stream("survey", "enum", make_survey, check_survey, timeout=10.0,
           rule="survey only, nothing asserted: knife-edge lengths (equal as rationals, spelled differently), boolean "
                "names that collide with commands, \\def inside a \\whiledo body, \\provideboolean of an existing "
                "boolean; outcomes are counted under `excluded`"),
    Stream("notgrid", "enum", make_grid, check_grid, timeout=WATCHDOG, rule=RULE_GRID, hang_is_violation=True),
]

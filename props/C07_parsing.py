"""C07 -- parsing loses, duplicates or reorders no text; the tree is well formed.

Generator: models/latexdoc.py document grammar (every text leaf a unique marker
word  w<i>x ).  Oracle (DESIGN.md C07):
 (1) depth-first walk of the parsed TeXDocument, attributes (declared order) before
     children: the marker sequence is w0x w1x ... w(N-1)x, each exactly once;
 (2) every node is met once; every node's parentNode is its actual container (or a
     fragment held in the container's attributes whose parentNode is the container);
 (3) sectioning nodes nest exactly as the heading levels prescribe, contain only
     paragraphs and strictly deeper units, every marker lies in the unit the model
     predicts; no paragraph inside a paragraph without an environment/argument
     boundary in between;
 (4) quotes/dashes written around a marker are substituted in running text and
     untouched in verbatim / \\verb / mathematics.

This module also exports the real-side helpers used by C08 and C09:
parse_document(), Walk.
"""
import bisect
import logging
import re

from vlib import Stream, ok, fail, skip, call_real, known_keys
from models import latexdoc as L

logging.disable(logging.CRITICAL)

PROPERTY = "C07"
LEVEL = "exploration"
ASSUMPTIONS = [
    "models/latexdoc.py renders the AST to well-formed LaTeX and predicts marker order, section nesting "
    "(nearest preceding heading of smaller level) and the typographic substitutions from the LaTeX rules",
    "sec-num-depth and the default charsubs are taken from the configuration as data",
    "markers are never placed in nox/str/id arguments; \\verb only outside command arguments; "
    "no \\par inside brace groups (stated normal form)",
    "text of a node = concatenation of its Text nodes in DFS order (text outside paragraphs is one node per character)",
]

KNOWN = known_keys(PROPERTY)
K_MATHGROUP = "charsub:applied@math-group"
K_EQNARRAY = "charsub:applied@math-eqnarray"

SEC_MIN, SEC_MAX = -2, 99          # sectioning levels (part -1 ... subsubparagraph 6)
PAR_LEVEL = 101
ENV_LEVEL = 201


# --------------------------------------------------------------------------
# real side: parse + walk  (shared with C08 / C09)
# --------------------------------------------------------------------------
def _reset_class_state():
    """plasTeX keeps some parser state on classes (C17's subject); a case that
    raised mid-document must not poison the following cases of this worker."""
    try:
        from plasTeX.Base.LaTeX.Lists import List
        if isinstance(vars(List).get("depth"), int):
            List.depth = 0
    except Exception:
        pass
    try:
        from plasTeX.Base.TeX.Primitives import MathShift
        if isinstance(vars(MathShift).get("inEnv"), list):
            del MathShift.inEnv[:]
    except Exception:
        pass


def _parse(src, secnumdepth):
    from plasTeX.TeX import TeX
    tex = TeX()
    doc = tex.ownerDocument
    if secnumdepth is not None:
        doc.config["document"]["sec-num-depth"] = secnumdepth
    tex.input(src)
    out = tex.parse()
    return out


def parse_document(src, secnumdepth=None):
    """-> (TeXDocument, None) or (None, RealError)"""
    _reset_class_state()
    return call_real(_parse, src, secnumdepth)


class Problem(Exception):
    def __init__(self, key, detail):
        Exception.__init__(self, key)
        self.key = key
        self.detail = detail


class Walk(object):
    """Depth-first walk (attributes in declared order, then children).

    text        concatenated text
    elements    [(node, start, end, parent_index)] for element nodes, DFS pre-order
    markers     [(index, start, end)] marker words found in text, in text order
    problems    [(key, detail)] reachability / parent-chain violations
    """

    def __init__(self, doc, check_tree=True):
        self.doc = doc
        self.parts = []
        self.length = 0
        self.elements = []
        self.problems = []
        self.seen = set()
        self.check_tree = check_tree
        self.par_in_par = []
        self.sec_segments = []      # (text offset, element index of innermost section or -1)
        self._secstack = [-1]
        self._visit(doc, None, -1, False)
        self.text = "".join(self.parts)
        self.markers = [(int(m.group(1)), m.start(), m.end()) for m in L.MARKER_RE.finditer(self.text)]
        self._starts = [e[1] for e in self.elements]

    # -- helpers -----------------------------------------------------------
    def _problem(self, key, **detail):
        if len(self.problems) < 20:
            self.problems.append((key, detail))

    @staticmethod
    def _name(n):
        return getattr(n, "nodeName", type(n).__name__)

    def _visit(self, n, container, parent_idx, in_par):
        nt = getattr(n, "nodeType", None)
        if nt == 3 or nt == 4:              # text / cdata
            if self.check_tree:
                if id(n) in self.seen:
                    self._problem("tree:node-met-twice@#text", text=str(n)[:20])
                self.seen.add(id(n))
            s = str(n)
            self.parts.append(s)
            self.length += len(s)
            return
        if nt is None:
            return
        if self.check_tree:
            if id(n) in self.seen:
                self._problem("tree:node-met-twice@" + self._name(n))
                return
            self.seen.add(id(n))
        idx = -1
        level = getattr(n, "level", None)
        is_elem = nt == 1
        if is_elem:
            idx = len(self.elements)
            self.elements.append([n, self.length, None, parent_idx])
        is_sec = is_elem and isinstance(level, int) and SEC_MIN <= level <= SEC_MAX
        if is_sec:
            self._secstack.append(idx)
            self.sec_segments.append((self.length, idx))
        # paragraph nesting
        if is_elem and level == PAR_LEVEL:
            if in_par:
                self.par_in_par.append(idx)
            in_par = True
        elif is_elem and level == ENV_LEVEL:
            in_par = False
        kids = n.childNodes
        attrs = getattr(n, "attributes", None) if is_elem else None
        selfarg = None
        if attrs:
            for k, v in attrs.items():
                if v is kids:
                    selfarg = v
                    continue
                vt = getattr(v, "nodeType", None)
                if vt is None or isinstance(v, (list, dict)) and vt is None:
                    continue
                if vt in (3, 4):
                    # a text value: belongs to n directly
                    self._visit(v, n, idx, False)
                    continue
                if self.check_tree and getattr(v, "parentNode", None) is not n:
                    self._problem("tree:argument-parent@%s.%s" % (self._name(n), k),
                                  got=self._name(getattr(v, "parentNode", None)))
                if vt == 11:
                    self._frag(v, n, idx)
                else:
                    self._visit(v, n, idx, False)
        if selfarg is not None:
            if self.check_tree and getattr(selfarg, "parentNode", None) is not n:
                self._problem("tree:argument-parent@%s.self" % self._name(n),
                              got=self._name(getattr(selfarg, "parentNode", None)))
            self._frag(selfarg, n, idx)
        else:
            for c in kids:
                if self.check_tree and getattr(c, "parentNode", None) is not n:
                    self._problem("tree:child-parent@%s>%s" % (self._name(n), self._name(c)),
                                  got=self._name(getattr(c, "parentNode", None)))
                self._visit(c, n, idx, in_par)
        if is_sec:
            self._secstack.pop()
            self.sec_segments.append((self.length, self._secstack[-1]))
        if is_elem:
            self.elements[idx][2] = self.length

    def _frag(self, frag, owner, owner_idx):
        if self.check_tree:
            if id(frag) in self.seen:
                self._problem("tree:node-met-twice@#fragment-of-" + self._name(owner))
                return
            self.seen.add(id(frag))
        for c in frag:
            cp = getattr(c, "parentNode", None)
            if self.check_tree and cp is not frag and cp is not owner:
                self._problem("tree:fragment-child-parent@%s>%s" % (self._name(owner), self._name(c)),
                              got=self._name(getattr(c, "parentNode", None)))
            self._visit(c, frag, owner_idx, False)

    # -- queries -----------------------------------------------------------
    def first_marker(self, idx):
        """Index of the first marker inside element idx (None if none)."""
        n, a, b, _ = self.elements[idx]
        if not hasattr(self, "_mstarts"):
            self._mstarts = [m[1] for m in self.markers]
        j = bisect.bisect_left(self._mstarts, a)
        if j < len(self.markers) and self.markers[j][1] < b:
            return self.markers[j][0]
        return None

    def section_at(self, pos):
        """Element index of the innermost sectioning node containing text offset pos."""
        if not hasattr(self, "_segstarts"):
            self._segstarts = [s[0] for s in self.sec_segments]
        j = bisect.bisect_right(self._segstarts, pos) - 1
        if j < 0:
            return -1
        return self.sec_segments[j][1]

    def parent_section(self, idx):
        p = self.elements[idx][3]
        while p >= 0:
            lv = getattr(self.elements[p][0], "level", None)
            if isinstance(lv, int) and SEC_MIN <= lv <= SEC_MAX:
                return p
            p = self.elements[p][3]
        return -1

    def chain_ok(self, limit=200):
        """Walk parentNode from every element up to the document."""
        for n, a, b, p in self.elements:
            x, hops = n, 0
            while x is not None and x is not self.doc and hops < limit:
                x = getattr(x, "parentNode", None)
                hops += 1
            if x is not self.doc:
                return self._name(n)
        return None


# --------------------------------------------------------------------------
# oracle
# --------------------------------------------------------------------------
def judge(case):
    a = L.analyze(case)
    feats = set(a.features)
    feats.add("cls-" + case["cls"])
    doc, err = parse_document(a.source, case["secnumdepth"])
    if err is not None:
        return fail(err.key, dict(err.detail(), source=a.source), sorted(feats))
    w = Walk(doc)
    N = len(a.markers)
    # ---- non-triviality ------------------------------------------------------
    levels = set(s.level for s in a.sections)
    argtext = any(m.owner in ("sec-title", "sec-toc", "caption", "footnote", "term", "thm-title",
                              "doc-title", "caption-toc", "mbox", "fontcmd") for m in a.markers)
    nontrivial = (len(levels) >= 3 or "nested-list" in feats or "table-in-list" in feats) and argtext
    if len(levels) >= 3:
        feats.add("sec-levels>=3")
    if argtext:
        feats.add("argument-text")
    fl = sorted(feats)

    # ---- (1) order and multiplicity ---------------------------------------------
    got = [m[0] for m in w.markers]
    if got != list(range(N)):
        seen = {}
        for g in got:
            seen[g] = seen.get(g, 0) + 1
        lost = [i for i in range(N) if i not in seen]
        dup = sorted(i for i, c in seen.items() if c > 1)
        alien = sorted(i for i in seen if i >= N)
        if lost:
            m = a.markers[lost[0]]
            key = "markers:lost@%s" % m.owner
        elif dup:
            m = a.markers[dup[0]]
            key = "markers:duplicated@%s" % m.owner
        elif alien:
            key = "markers:alien"
        else:
            j = next(i for i, g in enumerate(got) if g != i)
            key = "markers:reordered@%s" % a.markers[min(got[j], j)].owner
        return fail(key, {"lost": lost[:10], "duplicated": dup[:10], "got_head": got[:40],
                          "expected": N, "source": a.source}, fl)

    # ---- (2) reachability and parent chains ---------------------------------------
    if w.problems:
        key, detail = w.problems[0]
        return fail(key, dict(detail, n_problems=len(w.problems), source=a.source), fl)
    bad = w.chain_ok()
    if bad is not None:
        return fail("tree:chain-does-not-reach-document@" + bad, {"source": a.source}, fl)

    # ---- (3) sectioning -----------------------------------------------------------
    mpos = dict((m[0], m[1]) for m in w.markers)
    secnodes = {}
    for idx, (n, s, e, p) in enumerate(w.elements):
        lv = getattr(n, "level", None)
        if isinstance(lv, int) and SEC_MIN <= lv <= SEC_MAX:
            fm = w.first_marker(idx)
            if fm in secnodes or fm is None:
                return fail("section:unidentified-unit@" + w._name(n),
                            {"first_marker": fm, "source": a.source}, fl)
            secnodes[fm] = idx
            # children: paragraphs and strictly deeper units only
            for c in n.childNodes:
                cl = getattr(c, "level", None)
                if cl == PAR_LEVEL:
                    continue
                if isinstance(cl, int) and SEC_MIN <= cl <= SEC_MAX and getattr(c, "nodeType", 0) == 1:
                    if cl > lv:
                        continue
                    return fail("section:child-not-deeper@%s>%s" % (w._name(n), w._name(c)),
                                {"source": a.source}, fl)
                return fail("section:bad-child@%s>%s" % (w._name(n), w._name(c)),
                            {"child": str(getattr(c, "source", c))[:60], "source": a.source}, fl)
    model_first = dict((s.first, s) for s in a.sections)
    if sorted(secnodes) != sorted(model_first):
        return fail("section:unit-set-differs", {"parsed": sorted(secnodes), "model": sorted(model_first),
                                                 "source": a.source}, fl)
    for fm, idx in secnodes.items():
        s = model_first[fm]
        n = w.elements[idx][0]
        if n.level != s.level or w._name(n) != s.name:
            return fail("section:level@" + s.name, {"got": [w._name(n), n.level], "source": a.source}, fl)
        pidx = w.parent_section(idx)
        pf = w.first_marker(pidx) if pidx >= 0 else None
        mf = a.sections[s.parent].first if s.parent >= 0 else None
        if pf != mf:
            return fail("section:wrong-parent@%s-in-%s" % (
                s.name, a.sections[s.parent].name if s.parent >= 0 else "document"),
                {"unit": fm, "parsed_parent": pf, "model_parent": mf, "source": a.source}, fl)
    for m in a.markers:
        sidx = w.section_at(mpos[m.i])
        got_first = w.first_marker(sidx) if sidx >= 0 else None
        want = a.sections[m.sec].first if m.sec >= 0 else None
        if got_first != want:
            return fail("section:marker-in-wrong-unit@" + m.owner,
                        {"marker": m.i, "parsed_unit": got_first, "model_unit": want, "source": a.source}, fl)
    if w.par_in_par:
        n = w.elements[w.par_in_par[0]][0]
        return fail("par-in-par@" + w._name(getattr(n, "parentNode", None)),
                    {"first_marker": w.first_marker(w.par_in_par[0]), "source": a.source}, fl)

    # ---- (4) typographic substitutions ----------------------------------------------
    T = w.text
    for m in a.markers:
        if not (m.pre or m.post):
            continue
        s = mpos[m.i]
        e = s + len("w%dx" % m.i)
        gp = T[max(0, s - len(m.pre)):s] if m.pre else ""
        ga = T[e:e + len(m.post)] if m.post else ""
        if gp != m.pre or ga != m.post:
            if m.ctx == "text":
                key = "charsub:missing@" + m.owner
            elif m.ctx == "math":
                key = ("charsub:applied@math-eqnarray" if m.mathenv == "eqnarray" else
                       "charsub:applied@math-group" if m.mathgroup else "charsub:applied@math")
            else:
                key = "charsub:applied@" + m.ctx
            return fail(key, {"marker": m.i, "expected": [m.pre, m.post], "got": [T[max(0, s - 3):s], T[e:e + 3]],
                              "source": a.source}, fl)
    # ---- (1b) nothing but the words: braces are grouping, never running text -----------------
    # (the grammar writes no literal brace in running text; a brace next to a word there means a
    # group was not processed as a group)
    for m in a.markers:
        if m.ctx != "text":
            continue
        s = mpos[m.i]
        e = s + len("w%dx" % m.i)
        around = T[max(0, s - 1):s] + T[e:e + 1]
        if "{" in around or "}" in around:
            return fail("text:brace-character-next-to-word@" + m.owner,
                        {"marker": m.i, "context": T[max(0, s - 6):e + 6], "source": a.source}, fl)
    # ---- (5) the tree stays what it is when it is read --------------------------------------------
    # (the documented read-only accessors a renderer or a table of contents uses)
    for n, s_, e_, p_ in w.elements:
        for acc in READ_ACCESSORS:
            _, err = call_real(getattr, n, acc, None)
            if err is not None and err.type not in ("AttributeError",):
                return fail("read-accessor-raise:%s@%s" % (acc, w._name(n)), dict(err.detail(), source=a.source), fl)
    w2 = Walk(doc)
    if w2.problems:
        key, detail = w2.problems[0]
        return fail("after-reading-accessors:" + key, dict(detail, n_problems=len(w2.problems), source=a.source), fl)
    bad = w2.chain_ok()
    if bad is not None:
        return fail("after-reading-accessors:tree:chain-does-not-reach-document@" + bad, {"source": a.source}, fl)
    if [m[0] for m in w2.markers] != got:
        return fail("after-reading-accessors:markers-changed", {"source": a.source}, fl)
    return ok(fl, nontrivial)


READ_ACCESSORS = ("title", "tocEntry", "fullTitle", "fullTocEntry", "ref", "id", "captionName", "textContent")


def check(case):
    return judge(case)


def make(tier):
    excl = []
    if K_MATHGROUP in KNOWN:
        excl.append("math-group-charsub")
    if K_EQNARRAY in KNOWN:
        excl.append("math-eqnarray-charsub")
    excl.append("enum-optional-label")    # numbering detail, C08's subject
    feats = L.ALL_FEATURES
    return L.documents(features=feats, exclude=excl)


RULE = ("documents of the latexdoc grammar: class article/book/report, flat heading sequence "
        "(part..subparagraph, starred, [toc]), paragraphs with font commands/declarations/mbox/footnote/"
        "inline math/\\verb/labels/refs/cites/quotes+dashes, lists nested <=4 with multi-block items, tabulars, "
        "quote/center/flushleft, floats with captions, equation/eqnarray/displaymath, verbatim, theorem-likes, "
        "thebibliography; every leaf a unique marker word. Non-trivial: (>=3 heading levels or a list/table "
        "nested in a list) and >=1 marker inside a command argument. Distinct by sha1 of the AST.")

STREAMS = [
    Stream("docs", "given", make, check, budget={"quick": 250, "thorough": 5000}, timeout=20.0, rule=RULE),
]

"""C13 -- splitting into files loses and repeats nothing.

Generator: models/renderdoc.py documents (article/book/report; sectioning tree
with part..subparagraph, paragraphs with inline markup, lists, tabulars, floats,
equations, theorems, verbatim, footnotes, labels/refs, index, bibliography) in
which every text-bearing position holds a unique marker word; x split level
-10..6 x file-name template of the documented grammar (always ending in a $num
alternative, or the single-file form) x bad-chars variants x renderer/theme.
Oracle: the exact placement model of DESIGN.md C13 (models/renderdoc.Placement)
plus models/fnmodel.py for the names, plus a second run in a fresh interpreter
with another PYTHONHASHSEED for a subset.
"""
import re

from hypothesis import strategies as st

from vlib import Stream, ok, fail, skip, known_keys
from models import renderdoc as rd
from models import renderrun as rr
from models import fnmodel

PROPERTY = "C13"
LEVEL = "exploration"
ASSUMPTIONS = [
    "sectioning units are \\part..\\subparagraph plus \\printindex (chapter level in book/report, section level in "
    "article); the thebibliography environment is a list and opens no file (DESIGN.md C13)",
    "a unit's own file is recognised in the output by its title marker inside an h1..h6 element; the document's "
    "file is the one remaining",
    "configured bad-chars always contain the path separator '/' (titles go into names; a user who does that "
    "forbids '/'), template literals contain no bad character except the extension dot",
    "names are predicted exactly by models/fnmodel.py when the template does not use $ref or every file-producing "
    "node has a number the counter model defines; bindings per node: id = label, title = title text, name = macro "
    "name, ref = number; the first request (the document) fixes the reset namespace as the docstring says",
    "every case is rendered in a freshly forked child (interpreter-wide state is C17's subject)",
]
KNOWN = known_keys(PROPERTY)

DEFAULT_BAD = ': #$%^&*!~`"\'=?/{}[]()|<>;\\,.'

COMBOS = [("HTML5", "default"), ("HTML5", "minimal"), ("XHTML", "default")]

# ---------------------------------------------------------------------------
# configuration strategy
# ---------------------------------------------------------------------------

FINAL_ALTS = ["sect$num(4)", "s$num", "f$num(3)", "$num", "$name-$num(2)", "n${num}"]
VAR_ALTS = ["$id", "${id}", "$title(2)", "$title", "$title(1)", "$ref-$id", "$name-$id",
            "$ref", "s-$title(3)", "$id-$title(1)"]
STATICS = ["index", "top", "front", "main.html", "$jobname", "toc"]
SINGLE = ["only", "single.html", "$jobname", "all.htm"]


@st.composite
def template(draw):
    kind = draw(st.sampled_from([2] * 9 + [0, 0, 1]))
    if kind == 0:
        return None                                  # plasTeX default
    if kind == 1:
        return draw(st.sampled_from(SINGLE))         # single-file form
    statics = draw(st.lists(st.sampled_from(STATICS), max_size=2, unique=True))
    alts = draw(st.lists(st.sampled_from(VAR_ALTS), max_size=2, unique=True))
    alts.append(draw(st.sampled_from(FINAL_ALTS)))
    sp = draw(st.sampled_from(["", " "]))
    wild = (draw(st.sampled_from(["", "", "p-", "$jobname-"])) + "[" +
            ("," + sp).join(alts) + sp + "]" + draw(st.sampled_from(["", "", ".html", ".htm"])))
    return " ".join(statics + [wild])


BAD_VARIANTS = [None, None, [" /:", "-"], [DEFAULT_BAD, "_"], [" /:?()", ""], ["/", "-"]]


@st.composite
def config(draw):
    rend, theme = draw(st.sampled_from(COMBOS))
    bad = draw(st.sampled_from(BAD_VARIANTS))
    return {"renderer": rend, "theme": theme,
            "split": draw(st.sampled_from([1, 0, 2, 1, 0, 2, -1, 3, 1, 0, 2, -1, 3, 4, 5, 6, -2, -5, -10])),
            "filename": draw(template()),
            "bad_chars": bad[0] if bad else None, "bad_sub": bad[1] if bad else None,
            "jobname": draw(st.sampled_from(["job", "job", "my doc"])),
            "rerun": draw(st.sampled_from([False] * 7 + [True])),
            "hashseed": draw(st.integers(1, 1000))}


def cases(tier):
    # (fnc: footnotes with one constant text, so that several footnotes of a document are equal)
    return st.fixed_dictionaries({"doc": rd.doc_strategy(inline_kinds=rd.INLINE_KINDS + ["fnc"]).map(rd.fill_benign),
                                  "cfg": config()}).map(exclude_known)


# ---------------------------------------------------------------------------
# oracle
# ---------------------------------------------------------------------------

BODY_KINDS = "bcmir"         # body, caption, theorem title, bibliography item, ref/cite tag word


# known finding: the XHTML renderer has no template for \\newtheorem environments,
# the optional note of a theorem is not shown at all
K_XHTML_THM = "marker-lost:thmtitle"


def exclude_known(case):
    """While the finding is listed, theorem notes are not generated for XHTML."""
    if K_XHTML_THM in KNOWN and case["cfg"]["renderer"] == "XHTML":
        doc = case["doc"]
        blocks = list(doc["pre"])
        for u in doc["units"]:
            blocks += u["blocks"]
        hit = False
        for b in blocks:
            if b["k"] == "thm" and b.get("title") is not None:
                b["title"] = None
                hit = True
        if hit:
            rd.fill_benign(doc)
            case["excluded_known"] = "xhtml-thm-note"
    return case


def expected_layout(doc, P, BODY_KINDS=BODY_KINDS):
    """file-producing node -> expected marker sequence of its file:
    [(marker, kind)] body/title markers in document order, footnotes last."""
    per = dict((n, []) for n in P.order)
    foot = dict((n, []) for n in P.order)
    for leaf, kind, ui, slot in rd.walk_leaves(doc):
        node = P.file_of[ui]
        m = rd.MARK_RE.match(leaf["s"]).group(0)
        if kind in BODY_KINDS or kind == "t":
            per[node].append((m, kind))
        elif kind == "f":
            foot[node].append((m, kind))
    return per, foot


def observe(res, encoding="utf-8"):
    files = rd.decode_files(res, encoding)
    streams = {}
    for name, text in files.items():
        streams[name] = rd.marker_stream(rd.Scan(text))
    return files, streams


def name_bindings(doc, P, secnumdepth):
    """Per file-producing node, the variables plasTeX's documented interface
    binds before requesting a name; None when a value is outside the model."""
    nums = rd.unit_numbers(doc, secnumdepth)
    out = []
    for n in P.order:
        if n == -1:
            b = {"name": "document",
                 "title": doc["title"]["s"] if doc.get("title") is not None else ""}
        elif n == rd.INDEX_UNIT:
            b = {"name": "printindex", "title": "Index", "ref": rd.UNKNOWN}
        else:
            u = doc["units"][n]
            b = {"name": rd.LEVEL_NAMES[u["lv"]], "title": u["title"]["s"]}
            if u.get("label"):
                b["id"] = u["label"]
            if nums[n] is not None:
                b["ref"] = nums[n]
        out.append(b)
    return out


def check(case):
    doc, cfg = case["doc"], case["cfg"]
    feats = set()
    src = rd.to_latex(doc)
    rcfg = dict((k, v) for k, v in cfg.items() if k not in ("rerun", "hashseed"))
    res = rr.render(src, rcfg)
    template = res["config"]["filename"]
    bad, sub = res["config"]["bad_chars"], res["config"]["bad_sub"]
    split = rd.effective_split(template, cfg["split"])
    P = rd.Placement(doc, split)
    feats.add("%s-%s" % (cfg["renderer"], cfg["theme"]))
    feats.add("cls-" + doc["cls"])
    feats.add("single-file-template" if split == -10 and cfg["split"] != -10 else "split=%d" % split)
    feats.add("files=%s" % (len(P.order) if len(P.order) < 5 else "5+"))
    if cfg["filename"] is None:
        feats.add("template-default")
    ctx = {"source": src, "template": template, "split": split}
    if res["error"] is not None:
        return fail(res["error"]["key"], dict(res["error"]["detail"], **ctx), feats)

    files, streams = observe(res)
    names = sorted(files)
    # ---- number of files -----------------------------------------------------
    if len(names) != len(P.order):
        return fail("file-count", dict(ctx, expected=len(P.order), got=names,
                                       created=res["created"]), feats)
    created = res["created"]
    if len(set(created)) != len(created):
        return fail("duplicate-name", dict(ctx, created=created), feats)
    if sorted(created) != names:
        return fail("created-vs-written", dict(ctx, created=created, written=names), feats)

    # ---- which file belongs to which node: title marker inside a heading -------
    total = {}
    for name in names:
        for m, inh in streams[name]:
            if m[-1] != "t":
                total.setdefault(m, []).append(name)
    node_file, err = rd.assign_files(doc, P, streams, created)
    if err is not None:
        return fail(err[0], dict(ctx, **err[1]), feats)

    # ---- placement, multiplicity, order -----------------------------------------
    BK = BODY_KINDS
    slot_of = dict((rd.MARK_RE.match(l["s"]).group(0), sl) for l, k, ui, sl in rd.walk_leaves(doc))
    if case.get("excluded_known"):
        feats.add("excluded-known:" + case["excluded_known"])
    per, foot = expected_layout(doc, P, BK)
    for n in P.order:
        fname = node_file[n]
        exp_body = [m for m, k in per[n]]
        exp_foot = [m for m, k in foot[n]]
        got = []
        for m, inh in streams[fname]:
            k = m[-1]
            if k == "t":
                if inh:
                    got.append(m)
            elif k in BK or k == "f":
                got.append(m)
        if got != exp_body + exp_foot:
            gs, es = set(got), set(exp_body + exp_foot)
            missing = [m for m in exp_body + exp_foot if m not in gs]
            extra = [m for m in got if m not in es]
            dup = sorted(set(m for m in got if got.count(m) > 1))
            if dup:
                key = "marker-duplicated"
            elif missing and any(m in total for m in missing):
                key = "marker-in-wrong-file"
            elif missing:
                key = "marker-lost:" + slot_of.get(missing[0], "?")
            elif extra:
                key = "marker-in-wrong-file"
            elif [m for m in got if m[-1] == "f"] != exp_foot or \
                    any(m[-1] == "f" for m in got[:len(exp_body)]):
                key = "footnote-order"
            else:
                key = "marker-order"
            return fail(key, dict(ctx, file=fname, node=str(n), expected=exp_body + exp_foot,
                                  got=got, missing=missing, extra=extra,
                                  elsewhere=dict((m, total.get(m)) for m in missing)), feats)
    # every body marker exactly once over all files (catches copies in files
    # that are not its own, e.g. navigation)
    for leaf, kind, ui, slot in rd.walk_leaves(doc):
        if kind in BK or kind == "f":
            m = rd.MARK_RE.match(leaf["s"]).group(0)
            if len(total.get(m, [])) != 1:
                return fail("marker-duplicated" if total.get(m) else "marker-lost:" + slot,
                            dict(ctx, marker=m, files=total.get(m, [])), feats)
    # footnotes with equal text are still one footnote each: the constant text is listed as often
    # as it was written, in the file of its unit
    want_c = {}
    for ui, c in rd.count_inlines(doc, "fnc").items():
        want_c[P.file_of[ui]] = want_c.get(P.file_of[ui], 0) + c
    if any(want_c.values()):
        feats.add("equal-footnotes" if sum(want_c.values()) > 1 else "constant-footnote")
        for n in P.order:
            have = sum(ev[1].count("Ibid.") for ev in rd.Scan(files[node_file[n]]).events if ev[0] == "text")
            if have != want_c.get(n, 0):
                return fail("footnote-text-count:equal-footnotes",
                            dict(ctx, file=node_file[n], node=str(n), expected=want_c.get(n, 0), got=have), feats)
    # index keys: shown in the file of the index unit only
    if doc.get("index"):
        idx_file = node_file[P.file_of[rd.INDEX_UNIT]]
        for leaf, kind, ui, slot in rd.walk_leaves(doc):
            if kind == "k":
                m = rd.MARK_RE.match(leaf["s"]).group(0)
                fs = total.get(m, [])
                if not fs or set(fs) != set([idx_file]):
                    return fail("index-key-misplaced", dict(ctx, marker=m, files=fs,
                                                            expected=idx_file), feats)
        feats.add("index-own-file" if rd.INDEX_UNIT in P.order else "index-inline")
    if any(foot[n] for n in P.order):
        feats.add("footnotes")
    if any(foot[n] for n in P.order if n != -1):
        feats.add("footnotes-in-unit-file")

    # ---- names ------------------------------------------------------------------
    badset = set(bad)
    # characters the template itself spells out are the user's own choice
    literal = set(".")
    for item in sum(fnmodel.parse_spec(template), []):
        for part in item:
            if part[0] == "lit":
                literal.update(part[1])
    for nm in names:
        stem = nm
        mm = re.match(r"^(.*)(\.[A-Za-z0-9]+)$", nm)
        if mm:
            stem = mm.group(1)
        if any(ch in badset and ch not in (literal - set(".")) for ch in stem) and \
                not (stem.startswith(".") and not stem.strip(".html")):
            return fail("bad-char-in-name", dict(ctx, name=nm, bad=bad), feats)
    binds = name_bindings(doc, P, res["config"]["sec_num_depth"])
    uses_ref = "ref" in re.findall(r"\$\{?(\w+)", template)
    exact = not (uses_ref and any(b.get("ref") == rd.UNKNOWN for b in binds))
    needs_sub = False
    if exact:
        model = fnmodel.FnModel(template, [bad, sub] if bad else None, {"jobname": cfg["jobname"]},
                                ".html", [])
        for i, (n, b) in enumerate(zip(P.order, binds)):
            b = dict((k, v) for k, v in b.items() if v != rd.UNKNOWN)
            outcomes = model.predict(b)
            got = node_file[n]
            if "collision" in model.last_features:
                feats.add("name-collision")
            if got not in outcomes:
                return fail("wrong-name", dict(ctx, node=str(n), got=got, expected=sorted(outcomes),
                                               bind=b, created=created), feats)
            model.commit(got, outcomes)
            for var in ("title", "id"):
                if var in b and any(ch in badset for ch in b[var]) and \
                        re.search(r"\$\{?%s\b" % var, template) and i > 0:
                    needs_sub = True
        feats.add("names-exact")
    else:
        feats.add("names-generic")
    if needs_sub:
        feats.add("name-needs-charsub")

    # ---- same on every run --------------------------------------------------------
    if cfg.get("rerun"):
        res2 = rr.render_fresh_interpreter(src, rcfg, cfg["hashseed"])
        if res2["error"] is not None:
            return fail("rerun-" + res2["error"]["key"], dict(ctx, **res2["error"]["detail"]), feats)
        if res2["created"] != created:
            return fail("names-differ-between-runs", dict(ctx, first=created, second=res2["created"],
                                                          hashseed=cfg["hashseed"]), feats)
        files2, streams2 = observe(res2)
        if streams2 != streams:
            return fail("placement-differs-between-runs", dict(ctx, hashseed=cfg["hashseed"]), feats)
        # beyond the statement (names and placement), only counted:
        feats.add("rerun-bytes-identical" if res2["files"] == res["files"] else "rerun-bytes-differ")
        feats.add("rerun-other-hashseed")

    inner = P.has_inner_unit_with_text(doc)
    if inner:
        feats.add("unit-below-split-with-text")
    if any(P.opens[i] and doc["units"][i]["blocks"] for i in range(len(doc["units"]))):
        feats.add("unit-at-split-with-text")
    nontrivial = len(P.order) >= 3 and (inner or needs_sub)
    return ok(sorted(feats), nontrivial)


RULE = ("documents of models/renderdoc.doc_strategy (0-8 sectioning units part..subparagraph incl. level skips, "
        "starred units, short toc titles, labels whose substitutions collide; 0-3 body blocks per unit: paragraphs "
        "with inline markup/\\verb/footnotes/index entries/refs/cites, lists, tabulars, floats, equations, theorems, "
        "verbatim, quote; optional \\maketitle, thebibliography, \\printindex), every text leaf a unique marker word; "
        "x split-level -10..6 x template (default | single-file | 0-2 statics + wildcard of 0-2 variable alternatives "
        "and a final $num alternative, optional prefix/suffix) x bad-chars (default, ' /:'->'-', default->'_', "
        "' /:?()'->'', '/'->'-') x {HTML5 default, HTML5 minimal, XHTML default}; 1/8 of the cases re-rendered in a "
        "fresh interpreter under another PYTHONHASHSEED. Non-trivial: >=3 files produced and (>=1 unit below the "
        "split level with body text or a title/id-derived name needing character substitution).")

STREAMS = [
    Stream("placement", "given", cases, check, budget={"quick": 110, "thorough": 2500},
           timeout=60.0, rule=RULE),
]

rr.preload()

"""C17 -- a document's result does not depend on what was processed before it.

Differential: B processed alone in a fresh interpreter (fork of a process that has
imported plasTeX but processed nothing) versus B processed after A1..Ak in one
interpreter; plus a monitor that snapshots every class attribute of every class
defined in a plasTeX module before the first and after every document.
"""
import importlib
import json
import logging
import os
import pickle
import re
import sys

from hypothesis import strategies as st

from vlib import Stream, ok, fail, skip, known_keys, RealError

logging.disable(logging.CRITICAL)

PROPERTY = "C17"
LEVEL = "exploration"
KNOWN = known_keys(PROPERTY)
ASSUMPTIONS = [
    "the reference run is a fork of a worker that has imported plasTeX (and the bundled packages the generator uses) but processed no document",
    "generated identifiers (a0000000NNN) and object addresses are canonicalised before comparison, as the statement allows",
    "memoisation caches of compiled argument signatures (class attributes starting with '@') are not parsing state and are ignored by the monitor",
    "Node._mixed_ (book-keeping dict of the renderer mix-in, left non-empty by unmix()) is ignored; the mixed-in members themselves are monitored by name",
    "documents A_i that raise are not 'processed to completion': such sequences are counted, not asserted",
]

# Import everything the generated documents can load, so that the import-time state
# of those modules is part of the initial snapshot (importing has no per-document effect).
import plasTeX  # noqa
from plasTeX import Macro  # noqa
from plasTeX.TeX import TeX  # noqa
import plasTeX.Base.LaTeX  # noqa
import plasTeX.Base.TeX  # noqa

PACKAGES = ["article", "book", "report", "ifthen", "makeidx", "amsmath", "amsthm", "graphicx",
            "color", "xcolor", "hyperref", "longtable", "natbib", "cleveref", "alltt", "url",
            "fancyvrb", "float", "subfig", "babel", "inputenc", "fontenc", "geometry", "verbatim",
            "amssymb", "amsfonts", "textcomp", "multicol", "calc", "listings", "tabularx", "booktabs"]
for _p in list(PACKAGES):
    try:
        importlib.import_module("plasTeX.Packages." + _p)
    except Exception:
        PACKAGES.remove(_p)
# ... and every core module (several are imported lazily by plasTeX, e.g. plasTeX.Context)
import pkgutil  # noqa
for _m in pkgutil.walk_packages(plasTeX.__path__, "plasTeX."):
    if _m.name.startswith(("plasTeX.Packages.", "plasTeX.Imagers.")) or ".Renderers." in _m.name and \
            not _m.name.startswith(("plasTeX.Renderers.HTML5", "plasTeX.Renderers.PageTemplate")):
        continue
    try:
        importlib.import_module(_m.name)
    except Exception:
        pass

# --------------------------------------------------------------------------
# monitor
# --------------------------------------------------------------------------

def _simple(v, depth=0):
    if isinstance(v, (str, int, float, bool, type(None))):
        return repr(v)
    if isinstance(v, (list, tuple)) and depth < 2:
        return "[" + ",".join(_simple(x, depth + 1) for x in v) + "]"
    if isinstance(v, dict) and depth < 2:
        items = sorted(((_simple(k, depth + 1), _simple(x, depth + 1)) for k, x in v.items()))
        return "{" + ",".join("%s:%s" % kv for kv in items) + "}"
    if isinstance(v, (set, frozenset)) and depth < 2:
        return "set(" + ",".join(sorted(_simple(x, depth + 1) for x in v)) + ")"
    if isinstance(v, type):
        return "class:%s.%s" % (v.__module__, v.__qualname__)
    return "obj:" + type(v).__name__


def _classes():
    seen = {}
    for modname, mod in sorted(sys.modules.items()):
        if mod is None or not (modname == "plasTeX" or modname.startswith("plasTeX.")):
            continue
        for name, obj in sorted(vars(mod).items()):
            if isinstance(obj, type) and obj.__module__ == modname:
                stack = [obj]
                while stack:
                    c = stack.pop()
                    key = "%s.%s" % (c.__module__, c.__qualname__)
                    if key in seen:
                        continue
                    seen[key] = c
                    for n2, o2 in vars(c).items():
                        if isinstance(o2, type) and o2.__module__ == modname:
                            stack.append(o2)
    return seen


def _module_globals():
    out = {}
    for modname, mod in sorted(sys.modules.items()):
        if mod is None or not (modname == "plasTeX" or modname.startswith("plasTeX.")):
            continue
        if modname == "plasTeX.Logging":      # logger registry: not parsing state
            continue
        d = {}
        for name, obj in vars(mod).items():
            if name.startswith("__"):
                continue
            if isinstance(obj, (list, dict, set, frozenset, tuple, str, int, float, bool, type(None))):
                d[name] = _simple(obj)
        out["<module %s>" % modname] = d
    return out


def _process_state():
    """State that lives in the interpreter rather than in a plasTeX class or module but is written
    by plasTeX while it processes a document (file lookups go through $TEXINPUTS)."""
    return {"os.environ": _simple(dict(os.environ)), "os.getcwd": os.getcwd()}


def snapshot():
    snap = _module_globals()
    snap["<process>"] = _process_state()
    for key, cls in _classes().items():
        d = {}
        members = []
        for k, v in vars(cls).items():
            if k in ("__dict__", "__weakref__", "__doc__", "__module__", "__annotations__") or \
                    k.startswith("@") or k.startswith("_abc") or k == "_mixed_":
                continue
            if isinstance(v, (property, classmethod, staticmethod)) or (callable(v) and not isinstance(v, type)):
                members.append(k)       # methods/properties: compare their presence, not their value
                continue
            if k.startswith("__"):
                continue
            d[k] = _simple(v)
        d["<methods and properties>"] = ",".join(sorted(members))
        snap[key] = d
    return snap


def snapshot_diff(a, b):
    out = []
    for k in sorted(a):
        if k in b and a[k] != b[k]:
            for kk in sorted(set(a[k]) | set(b[k])):
                if a[k].get(kk) != b[k].get(kk):
                    out.append({"attr": "%s.%s" % (k, kk), "before": a[k].get(kk), "after": b[k].get(kk)})
    return out


# --------------------------------------------------------------------------
# processing in forked children
# --------------------------------------------------------------------------
_ID = re.compile(r"a\d{10}")
_ADDR = re.compile(r"0x[0-9a-fA-F]{6,}")


_DOCDIR = re.compile(r"[^\s\"'<>]*filedoc-\d+-\d+")


def canon(x):
    ids = {}
    x = _DOCDIR.sub("DOCDIR", x)       # the directory of a file-based document (named after the pid)
    x = _ID.sub(lambda m: ids.setdefault(m.group(0), "ID%d" % len(ids)), x)
    return _ADDR.sub("0xADDR", x)


def process(doc, render=False):
    if isinstance(doc, dict):
        src, overrides = doc["src"], doc.get("cfg") or {}
    else:
        src, overrides = doc, {}
    if render or overrides:
        from plasTeX import TeXDocument
        from plasTeX.Config import defaultConfig
        cfg = defaultConfig()
        if render:
            import plasTeX.Renderers.HTML5.Config as H5
            H5.addConfig(cfg)
            cfg["images"]["imager"] = "none"
            cfg["images"]["vector-imager"] = "none"
            cfg["general"]["copy-theme-extras"] = False
            cfg["files"]["split-level"] = 1
        for sect, opts in overrides.items():
            for k, v in opts.items():
                cfg[sect][k] = v
        tdoc = TeXDocument(config=cfg)
    else:
        tdoc = None
    if isinstance(doc, dict) and doc.get("asfile"):
        # the document is a file in a directory of its own (with or without a sibling chapter file)
        _file_n[0] += 1
        d = os.path.abspath("filedoc-%d-%d" % (os.getpid(), _file_n[0]))
        os.makedirs(d)
        _file_dirs.append(d)
        with open(os.path.join(d, "main.tex"), "w", encoding="utf-8") as f:
            f.write(src)
        if doc.get("sibling"):
            with open(os.path.join(d, "chapzq.tex"), "w", encoding="utf-8") as f:
                f.write("Chapter file text mCS.\n")
        if tdoc is None:
            from plasTeX import TeXDocument
            tdoc = TeXDocument()
        tex = TeX(tdoc, file=os.path.join(d, "main.tex"))
        tex.disableLogging()
    else:
        d = None
        tex = TeX(tdoc) if tdoc is not None else TeX()
        tex.disableLogging()
        tex.input(src)
    doc = tex.parse()
    out = {"xml": canon(doc.toXML() + _derived(doc))}
    if render:
        out["files"] = render_doc(doc)
    return out


def _derived(doc):
    """What a renderer reads beyond the tree: the printed form of every citation and the number behind every
    reference (toXML shows the keys only)."""
    out = ["\n<!-- derived -->"]
    for n in doc.getElementsByTagName("cite"):
        try:
            out.append("cite %s -> %s" % (n.attributes.get("bibkeys"), n.citation().textContent))
        except Exception as exc:        # noqa
            out.append("cite %s raises %s" % (n.attributes.get("bibkeys"), type(exc).__name__))
    for tag in ("ref", "pageref"):
        for n in doc.getElementsByTagName(tag):
            t = n.idref.get("label") if getattr(n, "idref", None) else None
            r = getattr(t, "ref", None)
            out.append("%s %s -> %s %s" % (tag, n.attributes.get("label"), getattr(t, "nodeName", None),
                                           getattr(r, "textContent", r)))
    return "\n".join(out)


_render_n = [0]
_file_n = [0]
_file_dirs = []       # directories of file-based documents; kept until the sequence is over


def render_doc(doc):
    import shutil
    from plasTeX.Renderers.HTML5 import Renderer
    _render_n[0] += 1
    d = os.path.abspath("render-%d-%d" % (os.getpid(), _render_n[0]))
    os.makedirs(d)
    cwd = os.getcwd()
    os.chdir(d)
    try:
        doc.userdata["jobname"] = "job"
        doc.userdata["working-dir"] = d
        Renderer().render(doc)
        files = {}
        for root, _dirs, fns in os.walk(d):
            for fn in sorted(fns):
                if fn.endswith(".html"):
                    p = os.path.join(root, fn)
                    with open(p, encoding="utf-8", errors="replace") as f:
                        files[os.path.relpath(p, d)] = canon(f.read())
        return files
    finally:
        os.chdir(cwd)
        shutil.rmtree(d, ignore_errors=True)


def in_child(fn):
    """Run fn() in a forked child, return its (picklable) result."""
    r, w = os.pipe()
    pid = os.fork()
    if pid == 0:
        os.close(r)
        try:
            try:
                res = ("ok", fn())
            except BaseException as exc:  # noqa
                e = RealError(exc, sys.exc_info()[2])
                res = ("raise", {"key": e.key, "detail": e.detail()})
            with os.fdopen(w, "wb") as f:
                pickle.dump(res, f)
        finally:
            os._exit(0)
    os.close(w)
    with os.fdopen(r, "rb") as f:
        data = f.read()
    os.waitpid(pid, 0)
    if not data:
        return ("died", None)
    return pickle.loads(data)


def run_sequence(docs, render):
    """Process docs in order in this process; returns per-doc outcome and leaks."""
    import shutil
    s0 = snapshot()
    outs = []
    try:
        for src in docs:
            try:
                o = process(src, render)
                o["raised"] = None
            except BaseException as exc:  # noqa
                e = RealError(exc, sys.exc_info()[2])
                o = {"xml": None, "raised": e.key}
            o["leaks"] = snapshot_diff(s0, snapshot())
            outs.append(o)
    finally:
        while _file_dirs:
            shutil.rmtree(_file_dirs.pop(), ignore_errors=True)
    return outs


# --------------------------------------------------------------------------
# generator: documents assembled from fragments
# --------------------------------------------------------------------------
# (tags touched, tags observed, preamble needs, source)
def F(src, touch=(), observe=(), pkgs=(), pre=""):
    return {"src": src, "touch": list(touch), "observe": list(observe), "pkgs": list(pkgs), "pre": pre}


BODY = [
    F("Plain words mA and more words mB.\n\n"),
    F("Some \\textbf{bold mC} and \\emph{emph mD} text.\n\n"),
    F("Inline math $a+b^2$ and $x_i$ here mE.\n\n", observe=["math"]),
    F("\\[ x = \\frac{1}{2} \\]\n", observe=["math"]),
    F("\\begin{equation} e = mc^2 \\label{eq:K} \\end{equation} see \\ref{eq:K}.\n", observe=["math", "labels"]),
    F("$$ y = z $$ after mF.\n", observe=["math"]),
    F("\\mbox{box $q$ mG} tail.\n\n", observe=["math"]),
    F("\\begin{itemize}\\item one mH \\item two \\begin{enumerate}\\item deep mI\\end{enumerate}\\end{itemize}\n",
      observe=["list"]),
    F("\\begin{enumerate}\\item first mJ \\item second mK\\end{enumerate}\n", observe=["list"]),
    F("\\begin{description}\\item[term mL] body mM\\end{description}\n", observe=["list"]),
    F("\\begin{tabular}{l|c}a mN & b \\\\ \\hline c & d mO\\end{tabular}\n", observe=["table"]),
    F("\\parindent=12pt\\relax after mP.\n\n", touch=["register"]),
    F("\\parskip=3pt plus 1pt\\relax\n", touch=["register"]),
    F("\\setlength{\\parindent}{7pt} mQ\n\n", touch=["register"]),
    F("\\setlength{\\textwidth}{300pt}\\addtolength{\\textwidth}{10pt}\n", touch=["register"]),
    F("\\tolerance=500\\relax \\hbadness=77\\relax\n", touch=["register"]),
    F("value \\the\\parindent{} and \\the\\tolerance{} and \\the\\textwidth{} mR.\n\n", observe=["register"]),
    F("skip \\the\\parskip{} bad \\the\\hbadness{} mS.\n\n", observe=["register"]),
    F("\\newcount\\cntA \\cntA=7\\relax \\the\\cntA{} mT\n\n"),
    F("\\newdimen\\dimA \\dimA=2.5pt\\relax \\the\\dimA{} mU\n\n"),
    F("\\newcounter{foo}\\stepcounter{foo}\\stepcounter{foo}\\arabic{foo} \\roman{foo} mV\n\n"),
    F("\\newif\\ifzed \\zedtrue \\ifzed yes mW\\else no mX\\fi\n\n"),
    F("\\def\\mac#1{<#1>}\\mac{mY}\n\n"),
    F("\\newcommand{\\cmdA}[2][dflt]{(#1:#2)}\\cmdA{mZ} \\cmdA[o]{p}\n\n"),
    F("\\makeatletter\\def\\x@y{at mAA}\\x@y\\makeatother\n\n"),
    F("\\catcode`\\|=13\\relax text mAB\n\n"),
    F("{\\catcode`\\!=11\\relax inner mAC} outer!\n\n"),
    F("\\ifthenelse{\\equal{a}{a}}{T mAD}{F mAE} \\ifthenelse{3<2 \\or \\isodd{3}}{T2}{F2}\n\n",
      touch=["ifthen"], pkgs=["ifthen"]),
    F("\\newcounter{wc}\\whiledo{\\value{wc}<3}{w\\stepcounter{wc}} mAF\n\n", touch=["ifthen"], pkgs=["ifthen"]),
    F("\\ifthenelse{\\lengthtest{1pt<2pt}}{$m$ T}{F} mAG\n\n", touch=["ifthen"], observe=["math"], pkgs=["ifthen"]),
    F("\\begin{thm} statement mAH \\end{thm}\n", pre="\\newtheorem{thm}{Theorem}\n"),
    F("\\begin{lem} lemma mAI \\end{lem}\n", pre="\\newtheorem{thm}{Theorem}\n\\newtheorem{lem}[thm]{Lemma}\n"),
    F("\\label{lab:A} see \\ref{lab:A} and \\ref{lab:missing} mAJ\n\n", observe=["labels"]),
    F("\\section{Labelled mBE}\\label{only:1} text\n\n", touch=["labels"]),
    F("\\begin{equation} z \\label{only:2} \\end{equation}\n", touch=["labels"], observe=["math"]),
    F("forward \\ref{only:1} and \\pageref{only:2} and \\cite{only:3} mBF\n\n", observe=["labels", "bib"]),
    F("\\begin{thebibliography}{9}\\bibitem{only:3} Other mBG\\end{thebibliography}\n", touch=["labels"]),
    F("word\\index{alpha} more\\index{beta!gamma} mAK\n\n", touch=["index"], pkgs=["makeidx"]),
    F("\\printindex\n", touch=["index"], observe=["index"], pkgs=["makeidx"], pre="\\makeindex\n"),
    F("cite \\cite{k1} mAL\n\\begin{thebibliography}{9}\\bibitem{k1} Author mAM\\end{thebibliography}\n",
      touch=["bib"], observe=["bib"]),
    F("cite \\cite{k1} and \\cite{k2} mCK\n\\begin{thebibliography}{9}\\bibitem{k2} Zed mCL\\bibitem{k1} Author mCM"
      "\\end{thebibliography}\n", touch=["bib"], observe=["bib"]),
    F("\\begin{thebibliography}{9}\\bibitem{k0} Nul mCN\\bibitem{k2} Zed mCL\\bibitem{only:3} Other mBG"
      "\\end{thebibliography} cites \\cite{k2,only:3} mCO\n", touch=["bib", "labels"], observe=["bib"]),
    # file lookups (relative to the document's own directory when it is a file)
    F("\\IfFileExists{no-such-file-zq.tex}{found mCP}{missing mCQ}\n\n", touch=["lookup"], observe=["lookup"]),
    F("\\IfFileExists{chapzq.tex}{chap found mCR}{chap missing mCT}\n\n", touch=["lookup"], observe=["lookup"]),
    F("\\InputIfFileExists{chapzq}{yes mCU}{no mCV} \\InputIfFileExists{chapzq.tex}{yes mCW}{no mCX}\n\n",
      touch=["lookup"], observe=["lookup"]),
    F("\\input{chapzq} after mCY\n\n", touch=["lookup"], observe=["lookup"]),
    F("\\appendix\n", touch=["appendix"]),
    F("text\\footnote{note mAN} more\n\n"),
    F("\\begin{verbatim}\nraw $ % \\x mAO\n\\end{verbatim}\n"),
    F("\\verb|v$%| mAP\n\n"),
    F("\\begin{figure}\\caption{cap mAQ}\\label{fig:A}\\end{figure}\n", observe=["labels"]),
    F("\\begin{table}\\caption{tcap mAR}\\begin{tabular}{cc}1&2\\end{tabular}\\end{table}\n", observe=["table"]),
    F("\\newwrite\\outf \\immediate\\openout\\outf=aux.txt \\immediate\\write\\outf{hello} mAS\n\n",
      touch=["openout"]),
    F("\\openout\\outg=name mAT\n\n", touch=["openout"]),
    F("\\href{http://example.org/x}{link mAU} \\url{http://example.org}\n\n", pkgs=["hyperref"]),
    F("\\textcolor{red}{col mAV} \\definecolor{mine}{rgb}{0.1,0.2,0.3}\\textcolor{mine}{x}\n\n", pkgs=["xcolor"]),
    F("\\begin{align} a &= b \\\\ c &= d \\end{align}\n", observe=["math"], pkgs=["amsmath"]),
    F("\\begin{proof} trivial mAW \\end{proof}\n", pkgs=["amsthm"]),
    F("\\setcounter{secnumdepth}{1}\n", touch=["counters"]),
    F("\\setcounter{equation}{5}\\begin{equation}u\\end{equation}\n", observe=["math"], touch=["counters"]),
    F("\\renewcommand{\\thesection}{\\Roman{section}}\n", touch=["counters"]),
    F("\\numberwithin{section}{part}\n", touch=["counters"], pkgs=["amsmath"]),
    F("\\numberwithin{equation}{section}\\begin{equation}n=w\\label{eq:nw}\\end{equation} see \\ref{eq:nw} mCZ\n",
      touch=["counters"], observe=["math", "labels"], pkgs=["amsmath"]),
    F("\\numberwithin{figure}{section}\\begin{figure}\\caption{fig mDA}\\label{fig:nw}\\end{figure} \\ref{fig:nw}\n",
      touch=["counters"], observe=["labels"], pkgs=["amsmath"]),
    F("\\begin{quote} quoted mAX \\end{quote}\\begin{center} centred mAY \\end{center}\n"),
    F("``quoted'' text --- dash -- range mAZ\n\n", observe=["text"]),
    F("\\begin{eqnarray} a &=& b \\\\ c &=& d \\nonumber \\end{eqnarray}\n", observe=["math"]),
    F("\\bgroup\\bfseries bold mBA\\egroup\\begingroup\\itshape it mBB\\endgroup\n\n"),
    F("\\let\\oldpar\\par \\let\\zz=\\textbf \\zz{let mBC}\n\n"),
    F("\\begin{longtable}{ll} a & b \\\\ c & d mBD \\\\ \\end{longtable}\n", observe=["table"], pkgs=["longtable"]),    # starred / unstarred relatives and base classes used before their subclasses (per-class caches)
    F("\\begin{eqnarray*} a &=& b \\\\ c &=& d \\end{eqnarray*}\n", observe=["math"], touch=["relatives"]),
    F("\\begin{eqnarray} p &=& q \\\\ r &=& s \\\\ t &=& u \\end{eqnarray}\n", observe=["math", "relatives"]),
    F("\\begin{align*} a &= b \\\\ c &= d \\end{align*}\n", observe=["math"], touch=["relatives"], pkgs=["amsmath"]),
    F("\\begin{gather} a = b \\\\ c = d \\end{gather}\\begin{multline} x \\\\ y \\end{multline}\n",
      observe=["math", "relatives"], pkgs=["amsmath"]),
    F("\\begin{equation*} e^* \\end{equation*}\\begin{displaymath} d \\end{displaymath}\n", observe=["math"],
      touch=["relatives"], pkgs=["amsmath"]),
    F("\\begin{figure*}\\caption{wide mBH}\\end{figure*}\\begin{table*}\\caption{widet mBI}\\end{table*}\n",
      touch=["relatives"]),
    F("\\begin{tabular*}{10cm}{lr} a & b mBJ\\end{tabular*}\\begin{array}{c}q\\end{array}\n", observe=["table"],
      touch=["relatives"]),
    F("\\section*{Starred mBK}\\subsection*{Starred sub mBL}\n", touch=["relatives"]),
    F("\\begin{enumerate}\\item[x] lab mBM \\item plain mBN\\end{enumerate}\n", observe=["list", "relatives"]),
    # TeX-level conditionals and expansion primitives
    F("\\def\\first{abc}\\def\\second{abc}\\ifx\\first\\second same mBO\\else diff mBP\\fi\n\n", touch=["ifx"]),
    F("\\def\\nothing{}\\ifx\\nothing\\empty empty mBQ\\else full mBR\\fi \\ifx ab eq\\else ne mBS\\fi\n\n",
      touch=["ifx"]),
    F("\\ifnum 3<5 lt mBT\\else ge\\fi \\ifdim 1pt>2pt gt\\else le mBU\\fi \\ifodd 3 odd mBV\\fi\n\n", touch=["ifx"]),
    F("\\ifcase 2 zero\\or one\\or two mBW\\else other\\fi \\ifdefined\\undefinedmacro def\\else undef mBX\\fi\n\n",
      touch=["ifx"]),
    F("\\def\\xa{A}\\expandafter\\def\\csname made\\xa\\endcsname{built mBY}\\csname madeA\\endcsname\n\n", touch=["ifx"]),
    F("\\newcount\\rc \\rc=4\\relax \\advance\\rc by 3 \\multiply\\rc by 2 \\the\\rc{} mBZ \\number\\rc\n\n",
      touch=["register"], observe=["register"]),
    F("\\parindent=1.5\\parindent \\the\\parindent{} \\hsize=0.5\\textwidth \\the\\hsize{} mCA\n\n",
      touch=["register"], observe=["register"]),
    F("\\chardef\\cd=65 \\mathchardef\\mcd=66 \\number\\cd{} \\char\\cd{} mCB\n\n", touch=["ifx"]),
    F("\\romannumeral 14 \\uppercase{up mcc} \\lowercase{LOW MCD} \\string\\foo{} mCE\n\n", touch=["ifx"]),
    F("\\hspace{1cm}\\vspace{2pt}\\hskip 3pt plus 1fil \\kern 2pt\\rule{1pt}{2pt} mCF\n\n", touch=["register"]),
]
# packages loaded without being used: their ProcessOptions may change shared state
for _p in PACKAGES:
    if _p not in ("article", "book", "report"):
        BODY.append(F("loaded mCG\n\n", touch=["package:" + _p], pkgs=[_p]))
SECTIONS = {
    "article": ["\\section{Sec mS1}\n", "\\subsection{Sub mS2}\n", "\\section*{Star mS3}\n",
                "\\subsubsection{SubSub mS4}\n", "\\paragraph{Par mS5}\n"],
    "book": ["\\chapter{Chap mS6}\n", "\\section{Sec mS1}\n", "\\subsection{Sub mS2}\n", "\\chapter*{StarC mS7}\n",
             "\\part{Part mS8}\n"],
    "report": ["\\chapter{Chap mS6}\n", "\\section{Sec mS1}\n", "\\subsection{Sub mS2}\n"],
}
# ways a document may end: closed normally, or with math / a list / a group left open (see quantifier)
ENDINGS = [
    ("closed", "\\end{document}\n", []),
    ("closed", "\\end{document}\n", []),
    ("closed", "\\end{document}\n", []),
    ("open-math-eof", "tail $x + y", ["math-open"]),
    ("open-math-enddoc", "tail $x + y \\end{document}\n", ["math-open"]),
    ("open-display-eof", "tail \\[ x + y", ["math-open"]),
    ("open-list-eof", "\\begin{itemize}\\item dangling", ["list-open"]),
    ("open-list-enddoc", "\\begin{enumerate}\\item dangling \\begin{itemize}\\item deeper \\end{document}\n",
     ["list-open"]),
    ("open-group-eof", "{\\bfseries never closed", ["group-open"]),
    ("open-env-eof", "\\begin{center} never closed", ["group-open"]),
    ("open-mbox-eof", "\\mbox{never $closed", ["math-open"]),
]
OBSERVED_BY = {"register": "register", "math-open": "math", "list-open": "list", "index": "index",
               "class:article": "index", "class:book": "index", "class:report": "index",
               "ifthen": "math", "openout": "register", "counters": "labels", "appendix": "labels",
               "labels": "labels", "config": "text", "bib": "bib", "lookup": "lookup", "relatives": "relatives", "ifx": "register"}


@st.composite
def document(draw, well_formed=False):
    cls = draw(st.sampled_from(["article", "article", "book", "report"]))
    n = draw(st.integers(1, 7))
    frs = [BODY[i] for i in draw(st.lists(st.integers(0, len(BODY) - 1), min_size=n, max_size=n))]
    body = []
    secs = SECTIONS[cls]
    for fr in frs:
        if draw(st.integers(0, 3)) == 0:
            body.append(draw(st.sampled_from(secs)))
        body.append(fr["src"])
    end = ENDINGS[0] if well_formed else draw(st.sampled_from(ENDINGS))
    pkgs = []
    pre = []
    for fr in frs:
        for p in fr["pkgs"]:
            if p not in pkgs and p in PACKAGES:
                pkgs.append(p)
        if fr["pre"]:
            for line in fr["pre"].splitlines(True):
                if line not in pre:
                    pre.append(line)
    if any(p not in PACKAGES for fr in frs for p in fr["pkgs"]):
        frs = [fr for fr in frs if all(p in PACKAGES for p in fr["pkgs"])]
    opts = draw(st.sampled_from(["", "", "[12pt]", "[twocolumn]"]))
    src = ("\\documentclass%s{%s}\n" % (opts, cls) + "".join("\\usepackage{%s}\n" % p for p in pkgs) +
           "".join(pre) + "\\title{Title mT0}\n\\begin{document}\n" + "".join(body) + end[1])
    touch = sorted(set(["class:" + cls] + [t for fr in frs for t in fr["touch"]] + end[2]))
    observe = sorted(set([o for fr in frs for o in fr["observe"]]))
    mode = draw(st.sampled_from(["string", "string", "file", "file+sibling"]))
    return {"src": src, "touch": touch, "observe": observe, "ending": end[0],
            "asfile": mode != "string", "sibling": mode == "file+sibling"}


CONFIGS = [
    {}, {}, {}, {},
    {"document": {"disable-charsub": ["''", "``"]}},
    {"document": {"disable-charsub": ["---", "--", "'", "`"]}},
    {"document": {"sec-num-depth": 0}},
    {"document": {"sec-num-depth": 5, "toc-depth": 1}},
    {"document": {"base-url": "http://example.org/base/"}},
    {"general": {"load-tex-packages": True}},
    {"document": {"title": "Configured mCT"}},
]


@st.composite
def sequence(draw):
    B = draw(document(well_formed=draw(st.integers(0, 4)) > 0))
    k = draw(st.integers(0, 4))
    mode = draw(st.integers(0, 9))
    if mode == 0:
        A = [B] * max(1, min(k, 2))             # idempotence: B;B
    else:
        A = [draw(document()) for _ in range(k)]
    cfgs = [draw(st.sampled_from(CONFIGS)) for _ in A]
    if mode == 0:
        cfgs = [{} for _ in A]
    bcfg = draw(st.sampled_from(CONFIGS[:6]))
    if mode == 0:
        bcfg = {}
    pick = lambda d: dict((k, d[k]) for k in ("src", "asfile", "sibling"))     # noqa: E731
    return {"A": [dict(pick(a), cfg=c) for a, c in zip(A, cfgs)], "B": dict(pick(B), cfg=bcfg),
            "meta": {"touch": sorted(set([t for a in A for t in a["touch"]] + (["config"] if any(cfgs) else []))),
                     "observe": B["observe"],
                     "endings": [a["ending"] for a in A], "b_ending": B["ending"], "idempotence": mode == 0}}


# --------------------------------------------------------------------------
# oracle
# --------------------------------------------------------------------------
def make_check(render):
    def check(case):
        A, B = case["A"], case["B"]
        meta = case.get("meta", {})
        feats = ["k=%d" % len(A)] + ["A-touches:" + t for t in meta.get("touch", [])] + \
                ["B-observes:" + o for o in meta.get("observe", [])] + \
                ["A-ending:" + e for e in sorted(set(meta.get("endings", []))) if e != "closed"]
        if meta.get("idempotence"):
            feats.append("B;B")
        if any(isinstance(a, dict) and a.get("asfile") for a in A):
            feats.append("A-is-a-file")
        if isinstance(B, dict) and B.get("asfile"):
            feats.append("B-is-a-file")
        status, ref = in_child(lambda: run_sequence([B], render))
        if status != "ok":
            return fail("harness:reference-child-" + status, {"info": ref})
        ref = ref[0]
        if ref["raised"]:
            return skip("B-raises-alone", feats)
        status, got = in_child(lambda: run_sequence(A + [B], render))
        if status != "ok":
            return fail("harness:sequence-child-" + status, {"info": got})
        # leaks after each document that completed
        leaks = {}
        if ref["leaks"]:
            for l in ref["leaks"]:
                leaks.setdefault(l["attr"], dict(l, after_document="B alone"))
        for i, o in enumerate(got[:-1]):
            if o["raised"]:
                return skip("A-raised", feats + ["A-raised"])
            for l in o["leaks"]:
                leaks.setdefault(l["attr"], dict(l, after_document="A%d" % (i + 1)))
        for l in got[-1]["leaks"]:
            if not got[-1]["raised"]:
                leaks.setdefault(l["attr"], dict(l, after_document="B"))
        touched = set(meta.get("touch", []))
        observed = set(meta.get("observe", []))
        nontrivial = bool(A) and any(OBSERVED_BY.get(t) in observed for t in touched)
        new_leaks = sorted(a for a in leaks if ("leak:" + a) not in KNOWN)
        known_leaks = sorted(a for a in leaks if ("leak:" + a) in KNOWN)
        b = got[-1]
        differs = None
        if b["raised"]:
            differs = "B raises after A: " + b["raised"]
        elif b["xml"] != ref["xml"]:
            differs = "tree of B differs"
        elif render and b.get("files") != ref.get("files"):
            differs = "rendered files of B differ"
        if new_leaks:
            return fail("leak:" + new_leaks[0],
                        {"leaks": [leaks[a] for a in new_leaks], "B_result": differs or "identical"}, feats)
        if differs:
            # a difference is attributed to a listed leak only when B can observe that leak
            attributable = [a for a in known_leaks if _observes(B["src"] if isinstance(B, dict) else B, a)]
            if attributable:
                return fail("leak:" + attributable[0], {"leaks": [leaks[a] for a in attributable],
                                                        "B_result": differs}, feats)
            detail = {"B_result": differs}
            if not b["raised"]:
                detail["first_difference"] = _first_diff(ref["xml"], b["xml"]) if b["xml"] != ref["xml"] else \
                    _files_diff(ref.get("files"), b.get("files"))
            return fail("differs-without-monitored-leak", detail, feats)
        if known_leaks:
            feats.append("listed-known-leak-present(not observed by B)")
        return ok(feats, nontrivial)
    return check


def _observes(B, attr):
    """Can document B observe the (listed) leaked class attribute?  Only used to attribute a
    difference to a known finding; the class patching done by the article class concerns the
    index and bibliography units of a later book/report."""
    if ".printindex." in attr or ".theindex." in attr or ".bibliography." in attr:
        return ("{article}" not in B.split("\\begin{document}")[0] and
                any(w in B for w in ("\\printindex", "{theindex}", "\\bibliography{")))
    return True


def _first_diff(a, b):
    i = 0
    n = min(len(a), len(b))
    while i < n and a[i] == b[i]:
        i += 1
    return {"at": i, "alone": a[max(0, i - 80):i + 120], "after_A": b[max(0, i - 80):i + 120]}


def _files_diff(a, b):
    a = a or {}
    b = b or {}
    if sorted(a) != sorted(b):
        return {"files_alone": sorted(a), "files_after_A": sorted(b)}
    for k in sorted(a):
        if a[k] != b[k]:
            return dict(_first_diff(a[k], b[k]), file=k)
    return None


def _single(fr, cls):
    pk = "".join("\\usepackage{%s}\n" % q for q in fr["pkgs"] if q in PACKAGES)
    head = {"article": "", "book": "\\chapter{Chap mS6}\n", "report": "\\chapter{Chap mS6}\n"}[cls]
    return ("\\documentclass{%s}\n%s%s\\begin{document}\n%s%s\\end{document}\n" %
            (cls, pk, fr["pre"], head, fr["src"]))


def pairs(tier):
    """Every ordered pair (A uses fragment i) ; (B uses fragment j): quick = touching x observing
    fragments, thorough = all x all; classes alternate deterministically."""
    if tier == "quick":
        ai = [i for i, f in enumerate(BODY) if f["touch"]]
        bj = [j for j, f in enumerate(BODY) if f["observe"]]
    else:
        ai = list(range(len(BODY)))
        bj = list(range(len(BODY)))
    classes = ["article", "book", "report"]

    def fn(n):
        i, j = ai[n // len(bj)], bj[n % len(bj)]
        ca, cb = classes[(i + j) % 3], classes[(i + 2 * j + 1) % 3]
        # documents that look files up are files themselves: A next to a chapter file, B without one
        fa, fb = "lookup" in BODY[i]["touch"], "lookup" in BODY[j]["observe"]
        return {"A": [{"src": _single(BODY[i], ca), "cfg": {}, "asfile": fa, "sibling": fa}],
                "B": {"src": _single(BODY[j], cb), "cfg": {}, "asfile": fb, "sibling": False},
                "meta": {"touch": BODY[i]["touch"] + ["class:" + ca], "observe": BODY[j]["observe"],
                         "endings": ["closed"], "b_ending": "closed", "idempotence": False, "pair": [i, j]}}
    return len(ai) * len(bj), fn


RULE = ("sequences A1..Ak;B (k<=4) of documents assembled from a fragment library (classes article/book/report, "
        "registers, \\setlength, math in all forms, lists, tables, ifthen, index, bibliography, theorems, \\openout, "
        "catcodes, counters, packages, file lookups; documents are strings or files in a directory of their own, with or "
        "without a sibling chapter file; A_i may end with math/list/group left open); B alone in a fresh fork vs B "
        "after A*, canonicalised toXML compared, monitor of class attributes, module containers, os.environ and cwd after every document. Non-trivial: k>=1 "
        "and some A_i touches a state holder that B observes. Distinct by sha1 of the sources.")

STREAMS = [
    Stream("sequence", "given", lambda tier: sequence(), make_check(False),
           budget={"quick": 70, "thorough": 2500}, timeout=120.0, rule=RULE),
    Stream("pairs", "enum", pairs, make_check(False), timeout=120.0,
           rule=("complete enumeration of ordered fragment pairs: A = one document using fragment i, B = one document "
                 "using fragment j (quick: state-touching i x state-observing j; thorough: all i x all j), same oracle. "
                 "Non-trivial: i touches a holder j observes.")),
    Stream("rendered", "given", lambda tier: sequence(), make_check(True),
           budget={"quick": 12, "thorough": 300}, timeout=240.0,
           rule=RULE + " This stream also renders every document with HTML5 (split-level 1) and compares B's files."),
]

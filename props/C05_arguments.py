"""C05 -- arguments are delimited, typed and bound as the macro's signature declares;
numbers, dimensions and glue denote TeX's values.

Stream `signatures`: a signature (1-6 argument specs) is generated, rendered to plasTeX's
`args` mini-language and registered as a fresh Command subclass; the call is rendered from
generated Python *values*, so the expected binding is known by construction.
Stream `literals`: numeric literals generated structurally, scanned by
TeX.readInteger/readDimen/readGlue and by models/texnum.py (tex.web sections 440-462).
"""
import logging
import re
from fractions import Fraction

from hypothesis import strategies as st

from vlib import Stream, ok, fail, skip, call_real, known_keys
from models import texnum

logging.disable(logging.CRITICAL)

PROPERTY = "C05"
LEVEL = "exploration"
ASSUMPTIONS = [
    "models/texnum.py is a faithful transcription of tex.web sections 100-107, 404-462 (scan_int, "
    "scan_dimen, scan_glue, scan_keyword) for default category codes and \\mag=1000",
    "a dimension agrees with TeX when it is within 2 sp of TeX's integer result OR within 2 sp of the "
    "exact rational value of the literal (plasTeX keeps an unrounded float; TeX itself rounds the "
    "fraction to 2^-16 of the *unit* first, which for `in' is up to 36 sp away from the exact value)",
    "the em/ex estimates (11pt/5pt) and the default register values are read from plasTeX as data",
    "nested same-kind brackets in an optional argument are matched (property statement; LaTeX's own "
    "\\@ifnextchar-based parsing would stop at the first closer) and a bracket hidden inside braces "
    "does not count (TeX's delimited-parameter rule)",
    "an absent trailing optional argument lets the blanks that were skipped while looking for it "
    "disappear (LaTeX's \\@ifnextchar does the same); everything else of the continuation is exact",
    "text values are compared through textContent; the tex-ligature character substitutions of the "
    "document are avoided by the value alphabet",
]

KNOWN = known_keys(PROPERTY)

# bucket keys of root causes seen so far (see notes/C05.md)
K_FIL = "value:fil-unit-multiplier"
K_HEXLC = "value:hex-lowercase-digit-accepted"
K_ALPHASPACE = "rest:alpha-constant-keeps-optional-space"
K_LOOKAHEAD = "rest:number-lookahead-executes-next-token"
K_GLUEREG = "value:glue-register-loses-stretch-shrink"
K_ACTIVE = "raise:TypeError@plasTeX/TeX.py:readInteger"
K_KWEXP = "value:keyword-from-macro-not-recognised"
K_VALUEDIGITS = "rest:value-counter-read-as-digits"
K_INTCOEF = "value:int-register-as-coefficient"
K_GLUEDIMREG = "value:glue-from-dimen-register-ignores-plus-minus"
K_FIL_L = "value:fil-blank-l-not-joined"
K_INTREGMUL = "value:int-constant-multiplied-by-following-register"
K_BRACEHIDE = "bind:bracket-inside-braces-not-hidden"
K_STRGROUP = "bind:str-of-argument-with-brace-group"


_register_defaults = []


def reset_parameter_state():
    """Class-level state of plasTeX that a previous (failing) case may have left behind:
    the enable counter and the register values (both live on classes)."""
    from plasTeX import ParameterCommand
    ParameterCommand._enablelevel = 0
    ParameterCommand.enabled = True
    for cls, val in _register_defaults:
        cls.value = val


def parameter_state():
    from plasTeX import ParameterCommand
    return ParameterCommand._enablelevel, ParameterCommand.enabled


# ==========================================================================
# (b) numeric literals
# ==========================================================================


def fresh_tex():
    """A fresh TeX() whose document context has the macros and the counter the literals use:
    \\def\\zd{7} \\def\\zw{xy} \\def\\zp{plus} \\def\\zu{pt} \\newcounter{zc}\\setcounter{zc}{41}.
    Defined through the Context API: parsing `\\def` from source keeps every document of the
    process alive (reference cycle that is never freed), which makes a long run crawl."""
    from plasTeX.TeX import TeX
    tex = TeX()
    ctx = tex.ownerDocument.context
    for name, body in sorted(MACROS.items()):
        ctx.newdef(name, "", body)
    for name, val in sorted(COUNTERS.items()):
        ctx.newcounter(name, initial=val)
    return tex

MACROS = {"zd": "7", "zw": "xy", "zp": "plus", "zu": "pt"}
COUNTERS = {"zc": 41}
REG_NAMES = ["tolerance", "hbadness", "defaultskewchar", "escapechar",
             "parindent", "maxdepth", "overfullrule", "scriptspace",
             "baselineskip", "parskip", "belowdisplayskip", "parfillskip", "topskip"]

_env_cache = {}


def decode_plastex_dimen(v):
    """plasTeX's documented encoding (dimen.__new__): fil/fill/filll are stored as
    multiplier + 2e9/4e9/6e9 (sign symmetric).  -> (order, magnitude as float)"""
    v = float(v)
    a = abs(v)
    sgn = -1 if v < 0 else 1
    for order, base in ((3, 6e9), (2, 4e9), (1, 2e9)):
        if a >= base:
            return order, sgn * (a - base)
    return 0, v


def model_env():
    """Environment data taken from plasTeX: register defaults, em/ex estimates."""
    if "env" in _env_cache:
        return _env_cache["env"]
    from plasTeX.TeX import TeX
    from plasTeX import dimen, glue, DimenCommand, GlueCommand
    tex = TeX()
    ctx = tex.ownerDocument.context
    regs = {}
    for name in REG_NAMES:
        cls = ctx[name]
        val = cls.value
        _register_defaults.append((cls, val))
        if issubclass(cls, GlueCommand):
            comp = []
            for part in (val.stretch, val.shrink):
                if part is None:
                    comp += [0, 0]
                else:
                    order, mag = decode_plastex_dimen(part)
                    comp += [int(round(mag * 65536)) if order else int(round(mag)), order]
            w = float(dimen(val))
            if w != int(w):
                continue
            regs[name] = ("glue", (int(w), comp[0], comp[1], comp[2], comp[3]))
        elif issubclass(cls, DimenCommand):
            w = float(val)
            if w != int(w):
                continue
            regs[name] = ("dimen", int(w))
        else:
            regs[name] = ("int", int(val))
    env = texnum.Env(registers=regs, counters=dict(COUNTERS),
                     macros=dict((k, texnum.lex(v)) for k, v in MACROS.items()),
                     em=int(dimen("1em")), ex=int(dimen("1ex")), mag=1000)
    _env_cache["env"] = env
    return env


def norm_model_tokens(toks, env):
    out = []
    for t in toks:
        if t[0] == "cs" and t[1] in env.macros:
            out.extend(norm_model_tokens(env.macros[t[1]], env))
        elif t[0] == "cs":
            out.append("\\" + t[1])
        elif t[2] == 10:
            out.append(" ")
        else:
            out.append(t[1])
    return out


def norm_real_tokens(toks, env):
    """plasTeX tokens left in the input -> comparable list (names for control sequences
    and for already-invoked macro objects, characters otherwise)."""
    from plasTeX.Tokenizer import Token
    out = []
    for t in toks:
        if t is None:
            continue
        if getattr(t, "nodeType", None) == Token.ELEMENT_NODE:
            # a macro object that the scanner's look-ahead has already invoked and pushed
            # back; for \relax (no effect, no arguments) this is the same as the token
            if t.nodeName == "relax":
                out.append("\\relax")
            else:
                out.append("<invoked:%s>" % t.nodeName)
        elif t.catcode == Token.CC_ESCAPE:
            name = str(t)
            if name in env.macros:
                out.extend(norm_model_tokens(env.macros[name], env))
            else:
                out.append("\\" + name)
        elif t.catcode == Token.CC_SPACE:
            out.append(" ")
        else:
            out.append(str(t))
    return out


def close_enough(real, d):
    """|real - TeX| < 2 sp or |real - exact| < 2 sp (see ASSUMPTIONS)."""
    return abs(real - d.sp) < 2 or abs(Fraction(real) - d.exact) < 2


def compare_dimen(real, d, what):
    """real: plasTeX dimen (float with encoded order); d: texnum.Dimen.
    Returns None or (symptom, detail)."""
    order, mag = decode_plastex_dimen(real)
    if d.order:
        got = mag * 65536
    else:
        got = mag
    if order != d.order or not close_enough(got, d):
        return {"part": what, "expected": d.as_json(),
                "observed": {"raw": float(real), "order": texnum.ORDER_NAMES[order],
                             "value": got}}
    return None


def literal_features(case, events, dec):
    f = set("ev:" + e for e in events)
    f.add("kind:" + case["kind"])
    return f


def check_literal(case):
    from plasTeX.TeX import TeX
    kind = case["kind"]
    text = case["text"]
    env = model_env()
    # ---- model ----------------------------------------------------------------
    try:
        expected, rest_m, events = texnum.scan(kind, text, env)
    except texnum.TeXError as e:
        return skip("tex-error:" + e.kind, ["kind:" + kind])
    feats = set("ev:" + e for e in events)
    feats.add("kind:" + kind)
    feats.update("gen:" + g for g in case.get("tags", []))
    rest_expected = norm_model_tokens(rest_m, env)
    nontrivial = bool(set(events) & set([
        "sign-run>=2", "octal", "hex", "alpha-char", "alpha-cs", "alpha-active", "fraction",
        "register", "latex-counter"]) or
        any(e.startswith("unit:") and e != "unit:pt" for e in events))

    # ---- real -------------------------------------------------------------------
    reset_parameter_state()
    tex = fresh_tex()
    depth0 = tex.ownerDocument.context.depth
    tex.input(text)
    reader = {"int": tex.readInteger, "dimen": tex.readDimen, "glue": tex.readGlue}[kind]
    got, err = call_real(reader)
    detail = {"text": text, "kind": kind, "rest_expected": rest_expected,
              "expected": expected if kind == "int" else expected.as_json()}
    if err is not None:
        reset_parameter_state()
        return fail(err.key, dict(detail, **err.detail()), feats)
    state = parameter_state()
    rest_real, err = call_real(lambda: norm_real_tokens(list(tex.itertokens()), env))
    reset_parameter_state()
    if err is not None:
        return fail(err.key, dict(detail, **err.detail()), feats)
    detail["rest_observed"] = rest_real
    detail["observed"] = repr(got)

    # ---- value --------------------------------------------------------------------
    bad = None
    if kind == "int":
        if not isinstance(got, int) or int(got) != expected:
            bad = {"part": "int", "expected": expected, "observed": repr(got)}
    elif kind == "dimen":
        bad = compare_dimen(got, expected, "dimen")
    else:
        from plasTeX import dimen
        bad = compare_dimen(dimen(got), expected.width, "width")
        for nm, real_part, part in (("stretch", getattr(got, "stretch", None), expected.stretch),
                                    ("shrink", getattr(got, "shrink", None), expected.shrink)):
            if bad is not None:
                break
            if part is None or (part.sp == 0 and part.exact == 0 and "glue-register-whole" in events):
                if real_part is not None and float(real_part) != 0.0:
                    bad = {"part": nm, "expected": None, "observed": float(real_part)}
            elif real_part is None:
                bad = {"part": nm, "expected": part.as_json(), "observed": None}
            else:
                bad = compare_dimen(real_part, part, nm)
    if bad is not None:
        return fail(root_cause(kind, text, events, expected, bad, rest_expected, rest_real),
                    dict(detail, mismatch=bad), feats)

    # ---- what is left unconsumed -----------------------------------------------------
    if rest_real != rest_expected:
        return fail(root_cause(kind, text, events, expected, None, rest_expected, rest_real),
                    detail, feats)
    if state != (0, True):
        return fail("state:ParameterCommand-enable-counter", dict(detail, state=list(state)), feats)
    if tex.ownerDocument.context.depth != depth0:
        return fail("state:context-depth-changed-by-scan", detail, feats)
    if kind != "int":
        ds = [expected] if kind == "dimen" else [expected.width, expected.stretch, expected.shrink]
        for d in ds:
            if d is not None and d.order == 0 and abs(d.exact - d.sp) >= 2:
                feats.add("tex-rounding>=2sp(accepted-exact)")
    return ok(sorted(feats), nontrivial)


def root_cause(kind, text, events, expected, bad, rest_expected, rest_real):
    """Root-cause bucket from what the literal contains (model events) and the symptom."""
    ev = set(events)
    part = (bad or {}).get("part")
    if rest_real is not None and any(x.startswith("<invoked:") for x in rest_real):
        return K_LOOKAHEAD
    if kind == "int" and "register" not in ev and bad is not None and \
            re.search(r"[0-9A-F][ \n]*\\(tolerance|parindent)", text):
        return K_INTREGMUL
    if "int-register-coefficient" in ev:
        return K_INTCOEF
    if "latex-counter" in ev and kind == "int":
        return K_VALUEDIGITS
    if "glue-register-whole" in ev:
        return K_GLUEREG
    if kind == "glue" and "register-whole" in ev and ("plus" in ev or "minus" in ev) and \
            (bad is None or bad.get("observed") is None):
        return K_GLUEDIMREG
    if "macro-expanded-in-scan" in ev and re.search(r"\\z[pu]", text):
        return K_KWEXP
    if part in ("stretch", "shrink"):
        d = getattr(expected, part)
        if d is not None and d.order and abs(d.exact) != 65536:
            return K_FIL
    if re.search(r"(?i)fil+[ \n]+l", text):
        return K_FIL_L
    if "hex" in ev and re.search(r'"[0-9A-F]+[a-f]', text):
        return K_HEXLC
    if bad is None and rest_real == [" "] + rest_expected and \
            (ev & set(["alpha-char", "alpha-cs", "alpha-active"])):
        return K_ALPHASPACE
    if bad is not None:
        units = sorted(e for e in ev if e.startswith("unit:"))
        if kind == "dimen" and len(units) == 1:
            return "value:dimen:" + units[0][5:]
        return "value:%s:%s" % (kind, part)
    if len(rest_real) > len(rest_expected):
        return "rest:%s:too-little-consumed" % kind
    if len(rest_real) < len(rest_expected):
        return "rest:%s:too-much-consumed" % kind
    return "rest:%s:different" % kind




# --------------------------------------------------------------------------
# literal generator (structural)
# --------------------------------------------------------------------------
# tag -> bucket key of the known finding whose construct the tag marks
TAG_KEYS = {
    "fil-multiplier": K_FIL,
    "hex-then-lowercase-hex-letter": K_HEXLC,
    "alpha-then-space": K_ALPHASPACE,
    "alpha-active-char": K_ACTIVE,
    "number-then-side-effect-token": K_LOOKAHEAD,
    "glue-register-whole": K_GLUEREG,
    "keyword-via-macro": K_KWEXP,
}
TAG_KEYS.update({
    "value-then-space-or-digit": K_VALUEDIGITS,
    "int-register-coefficient": K_INTCOEF,
    "dimen-register-then-plus-minus": K_GLUEDIMREG,
    "fil-then-blank-l": K_FIL_L,
    "int-then-register": K_INTREGMUL,
})


def excluded_tags():
    return set(t for t, k in TAG_KEYS.items() if k in KNOWN)


def mixcase(draw, word):
    mode = draw(st.integers(0, 5))
    if mode <= 2:
        return word
    if mode == 3:
        return word.upper()
    return "".join(c.upper() if draw(st.booleans()) else c for c in word)


def blanks(draw, maxn=2, p0=2):
    """0..maxn blanks, biased to none"""
    n = draw(st.integers(-p0, maxn))
    return " " * max(0, n)


PHYS = {"pt": Fraction(1), "pc": Fraction(12), "in": Fraction(7227, 100),
        "bp": Fraction(7227, 7200), "cm": Fraction(7227, 254), "mm": Fraction(7227, 2540),
        "dd": Fraction(1238, 1157), "cc": Fraction(14856, 1157), "sp": Fraction(1, 65536),
        "em": Fraction(11), "ex": Fraction(5)}
ALPHA_CHARS = list("aZq0 9!?*+-=<>.,;:/()[]@|'\"") + ["{", "}", "$", "&", "#", "_"]
ALPHA_CS = ["\\%", "\\{", "\\}", "\\$", "\\&", "\\#", "\\_", "\\\\", "\\a", "\\Z", "\\ ", "\\~",
            "\\1", "\\."]
INT_REGS = ["tolerance", "hbadness", "defaultskewchar", "escapechar"]
DIM_REGS = ["parindent", "maxdepth", "overfullrule", "scriptspace"]
GLUE_REGS = ["baselineskip", "parskip", "belowdisplayskip", "parfillskip", "topskip"]


def ends_cs(text):
    """text ends with a control word (letters after a backslash)"""
    return re.search(r"\\[A-Za-z]+$", text) is not None


@st.composite
def sign_run(draw):
    n = draw(st.sampled_from([0, 0, 0, 1, 1, 2, 3, 4, 5]))
    s = "".join(draw(st.sampled_from(["+", "-", "-", " "])) for _ in range(n))
    return s


@st.composite
def int_constant(draw, maxval, tags, allow_alpha=True):
    """An integer constant <= maxval; returns (text, form) where form tells what may follow."""
    form = draw(st.sampled_from(["dec", "dec", "dec", "oct", "hex", "alpha", "alphacs"]
                                if allow_alpha and maxval >= 255 else
                                ["dec", "dec", "oct", "hex"]))
    if form in ("dec", "oct", "hex"):
        v = draw(st.one_of(st.integers(0, min(maxval, 20)), st.integers(0, maxval),
                           st.just(maxval)))
        if form == "dec":
            s = str(v)
            if draw(st.integers(0, 5)) == 0:
                s = "0" * draw(st.integers(1, 3)) + s
        elif form == "oct":
            s = "'" + "%o" % v
        else:
            s = '"' + "%X" % v
        return s, form
    ex = excluded_tags()
    if form == "alpha":
        chars = list(ALPHA_CHARS)
        if "alpha-active-char" not in ex:
            chars.append("~")
        c = draw(st.sampled_from(chars))
        if c == "~":
            tags.append("alpha-active-char")
        return "`" + c, "alpha"
    c = draw(st.sampled_from(ALPHA_CS))
    return "`" + c, ("alphaword" if c[1].isalpha() else "alpha")


# what may follow: (text, first-char class)
FOLLOW_WORDS = ["x", "REST", "word", "plu", "minu", "tru", "e", "p", "mi", "fi", "f", "t", "s",
                "i", "pl", "tr", "Em", "l", "L", "a", "b", "c", "d", "E", "F", "A", "h", "H"]
FOLLOW_OTHER = ["", ".", ",5", ";", "=", "-", "+1", "[x]", "(y)", "$x$", "}", "3", "0"]
FOLLOW_CS = ["\\relax", "\\relax 3", "\\relax x", "\\zw", "\\zd", "\\zd x", "\\par", "\\zu",
             "\\tolerance", "\\parindent"]
FOLLOW_SIDE = ["{x}", "{}", "\\bgroup x\\egroup", "\\begingroup x\\endgroup"]


@st.composite
def follow(draw, ctx, tags):
    """ctx: dict(after= 'dec'|'oct'|'hex'|'alpha'|'alphaword'|'register'|'value'|'unit'|'fil'|'glue-nokw',
    scanner= 'int'|'dimen'|'glue')"""
    ex = excluded_tags()
    after = ctx["after"]
    for _ in range(20):
        lead = draw(st.sampled_from(["", "", "", " ", "  ", " \n"]))
        if ctx.get("ends_ctrl_space"):
            lead = lead.replace("\n", "")     # TeX strips blanks at the end of a line: `\<eol>
        kind = draw(st.sampled_from(["w", "w", "w", "o", "o", "c", "c", "s"]))
        body = draw(st.sampled_from({"w": FOLLOW_WORDS, "o": FOLLOW_OTHER, "c": FOLLOW_CS,
                                     "s": FOLLOW_SIDE}[kind]))
        first = body[:1]
        if ctx.get("ends_cs") and not lead and first.isalpha():
            lead = " "                        # blank that ends the control word
        text = lead + body
        t = []
        # ---- what would be part of the literal itself (legal TeX, other literal) ----
        if not lead:
            if after in ("dec",) and first.isdigit():
                continue
            if after == "dec" and body.startswith("\\zd") and ctx["scanner"] != "int":
                continue                      # digit after the integer part changes the literal
            if after == "oct" and first in "01234567":
                continue
            if after == "hex" and (first.isdigit() or first in "ABCDEF"):
                continue
            if after in ("oct", "hex", "dec") and body.startswith("\\zd"):
                if after != "dec":
                    continue
            if after == "alphaword" and first.isalpha():
                continue                      # `\ab is an improper alphabetic constant
        if after == "hex" and not lead and first in "abcdef":
            t.append("hex-then-lowercase-hex-letter")
        if after in ("alpha", "alphaword") and lead and not (after == "alphaword"):
            t.append("alpha-then-space")
        if after == "value" and (lead or first.isdigit() or body.startswith("\\zd") or kind == "s" or
                                 body.startswith("\\par") or first in "{}$&^_~" or
                                 body in ("\\tolerance", "\\parindent")):
            # plasTeX reads \value{c} as its digits: everything that matters after digits
            t.append("value-then-space-or-digit")
        if after in ("dec", "oct", "hex") and ctx["scanner"] == "int" and \
                (kind == "s" or body.startswith("\\par") or first in "{}$&^_~"):
            t.append("number-then-side-effect-token")
        if after in ("dec", "oct", "hex") and ctx["scanner"] == "int" and \
                body in ("\\tolerance", "\\parindent"):
            t.append("int-then-register")
        if after in ("fil",) and first in "lL":
            if lead:
                t.append("fil-then-blank-l")
            else:
                continue                      # would be another literal (fill)
        # keywords that would continue the glue (legal TeX, but another literal)
        if ctx["scanner"] == "glue" and after in ("unit", "fil", "register"):
            low = body.lower()
            if low.startswith("plus") or low.startswith("minus") or body.startswith("\\zp"):
                continue
        if after == "unit-em-ex" and False:
            continue
        if "\\zu" in body and after not in ("unit", "fil", "alpha", "alphaword", "register", "value"):
            continue
        if any(x in ex for x in t):
            continue
        tags.extend(t)
        return text
    return ""


@st.composite
def int_literal(draw, tags):
    """-> (text, after)"""
    ex = excluded_tags()
    s = draw(sign_run())
    form = draw(st.sampled_from(["const"] * 6 + ["intreg", "dimreg", "gluereg", "value"]))
    if form == "const":
        body, after = draw(int_constant(2 ** 31 - 1, tags))
    elif form == "value":
        body, after = "\\value{zc}", "value"
    else:
        regs = {"intreg": INT_REGS, "dimreg": DIM_REGS, "gluereg": GLUE_REGS}[form]
        body, after = "\\" + draw(st.sampled_from(regs)), "register"
    return s + body, after


@st.composite
def dimen_literal(draw, tags, inf=False):
    """-> (text, after)   a <dimen> (with fil units when inf)"""
    ex = excluded_tags()
    s = draw(sign_run())
    form = draw(st.sampled_from(["num"] * 8 + ["reg", "regmult", "regmult", "intcoef"]))
    if form == "intcoef" and "int-register-coefficient" in ex:
        form = "num"
    if form == "reg":
        r = draw(st.sampled_from(DIM_REGS + GLUE_REGS))
        return s + "\\" + r, "register"
    # ---- unit -------------------------------------------------------------------
    fil = inf and draw(st.integers(0, 2)) > 0
    if form == "regmult":
        unit_text = "\\" + draw(st.sampled_from(DIM_REGS + GLUE_REGS))
        factor = Fraction(20)               # bound only: the largest default is 20pt
        after = "register"
        fil = False
    elif fil:
        u = draw(st.sampled_from(["fil", "fill", "filll"]))
        unit_text = mixcase(draw, u)
        factor = Fraction(1)
        after = "fil"
    else:
        u = draw(st.sampled_from(sorted(PHYS)))
        unit_text = mixcase(draw, u)
        if u not in ("em", "ex") and draw(st.integers(0, 4)) == 0:
            unit_text = mixcase(draw, "true") + blanks(draw) + unit_text
        factor = PHYS[u]
        after = "unit"
    if form == "intcoef":
        tags.append("int-register-coefficient")
        sep = blanks(draw)
        if not sep and not unit_text.startswith("\\"):
            sep = " "
        return s + "\\" + draw(st.sampled_from(["tolerance", "escapechar"])) + sep + unit_text, after
    # ---- number ---------------------------------------------------------------------
    maxint = int(Fraction(16383) / factor)
    if factor < Fraction(1, 100):
        maxint = 2 ** 30 - 1
    nform = draw(st.sampled_from(["int", "int.frac", "int.frac", ".frac", "int.", "const"]))
    point = draw(st.sampled_from([".", ".", ","]))
    digits = lambda: "".join(str(draw(st.integers(0, 9))) for _ in range(draw(st.sampled_from([1, 1, 2, 3, 5, 8, 17, 20]))))
    if nform == "const":
        num, _a = draw(int_constant(maxint, tags, allow_alpha=True))
        if num.startswith("`"):
            # the character after `c must not be a letter when c is a control letter
            if _a == "alphaword":
                num = num + " "
            elif "alpha-then-space" not in ex and draw(st.booleans()) and not unit_text.startswith("\\"):
                num = num + " "
                tags.append("alpha-then-space")
        elif num[0] == '"' and unit_text[:1] in "abcdef" and \
                "hex-then-lowercase-hex-letter" not in ex and draw(st.booleans()):
            tags.append("hex-then-lowercase-hex-letter")     # "Ccc = 12cc in TeX
        elif num[0] in "'\"":
            if unit_text[:1] in "abcdefABCDEF":
                num = num + " "
    else:
        ip = str(draw(st.one_of(st.integers(0, min(maxint, 30)), st.integers(0, maxint))))
        if nform == "int":
            num = ip
        elif nform == "int.frac":
            num = ip + point + digits()
        elif nform == ".frac":
            num = point + digits()
        else:
            num = ip + point
    if fil:
        val = num.replace(",", ".")
        try:
            is_unit = float(val) == 1.0
        except ValueError:
            is_unit = False
        if not is_unit:
            if "fil-multiplier" in ex:
                num = draw(st.sampled_from(["1", "1.0", "1,", "01", "1.000"]))
            else:
                tags.append("fil-multiplier")
    sep = blanks(draw)
    if nform == "int" and unit_text.startswith("\\") is False and False:
        pass
    return s + num + sep + unit_text, after


@st.composite
def glue_literal(draw, tags):
    ex = excluded_tags()
    if draw(st.integers(0, 9)) == 0 and "glue-register-whole" not in ex:
        tags.append("glue-register-whole")
        return draw(sign_run()) + "\\" + draw(st.sampled_from(GLUE_REGS)), "register"
    text, after = draw(dimen_literal(tags))
    whole_dimen_reg = after == "register" and "\\" in text and not any(ch.isdigit() for ch in text) \
        and any(("\\" + r) in text for r in DIM_REGS)
    whole_glue_reg = after == "register" and not any(ch.isdigit() for ch in text) \
        and any(("\\" + r) in text for r in GLUE_REGS)
    if whole_glue_reg:
        # a glue register in first position is the whole glue (section 461)
        if "glue-register-whole" in ex:
            text = text.replace("\\", "2\\", 1)
        else:
            tags.append("glue-register-whole")
            return text, "register"
    for kw in ("plus", "minus"):
        if draw(st.integers(0, 2)) == 0:
            continue
        if whole_dimen_reg:
            if "dimen-register-then-plus-minus" in ex:
                continue
            tags.append("dimen-register-then-plus-minus")
        if after == "register" and not whole_dimen_reg and "dimen-register-then-plus-minus" not in ex and False:
            pass
        k = mixcase(draw, kw)
        if "keyword-via-macro" not in ex and kw == "plus" and draw(st.integers(0, 9)) == 0:
            k = "\\zp"
            tags.append("keyword-via-macro")
        lead = blanks(draw, 2, 1)
        if ends_cs(text) and not lead and k[:1].isalpha():
            lead = " "
        part, after = draw(dimen_literal(tags, inf=True))
        gap = blanks(draw, 2, 1)
        if k == "\\zp" and not gap and part[:1].isalpha():
            gap = " "
        text = text + lead + k + gap + part
    return text, after


@st.composite
def literal_case(draw):
    kind = draw(st.sampled_from(["int", "int", "dimen", "dimen", "dimen", "glue", "glue", "glue"]))
    tags = []
    if kind == "int":
        text, after = draw(int_literal(tags))
    elif kind == "dimen":
        text, after = draw(dimen_literal(tags))
    else:
        text, after = draw(glue_literal(tags))
    tail = draw(follow({"after": after, "scanner": kind, "ends_cs": ends_cs(text),
                        "ends_ctrl_space": text.endswith("\\ ")}, tags))
    return {"kind": kind, "text": text + tail, "tags": sorted(set(tags))}


# ==========================================================================
# (a) signatures x calls
# ==========================================================================
DELIMS = {"none": None, "{}": "{}", "[]": "[]", "()": "()", "<>": "<>"}
TEXT_TYPES = ["none", "str", "url"]   # url: # ~ % & are ordinary characters inside the argument only
CAST_NUM_TYPES = ["int", "float", "dimen"]
COLL_TYPES = ["list", "list(;)", "dict", "list:int"]
TOKEN_TYPES = ["Tok", "cs", "nox"]
TEX_TYPES = ["Number", "Dimen", "Glue"]
COMMENT = "% zqz\n"          # the one comment the generator writes (no other text contains it)
WORD_ALPHA = "abcdefghkmnoqrstuwxyzABCDEGHKMNQRTXYZ0123456789"
PUNCT = [".", ":", "!", "?", "/", "+", "@", "|", ";"]

TAG_KEYS.update({
    "bracket-hidden-in-braces": K_BRACEHIDE,
    "str-with-brace-group": K_STRGROUP,
    "Number-then-brace-argument": K_LOOKAHEAD,
    "Number-then-register": K_INTREGMUL,
})


@st.composite
def word(draw, maxlen=4):
    n = draw(st.integers(1, maxlen))
    return "".join(draw(st.sampled_from(WORD_ALPHA)) for _ in range(n))


@st.composite
def text_value(draw, closer=None, forbid="", allow_group=True, tags=None, depth=0, allow_escape=False):
    """-> (source text, expected text).  Words, punctuation, nested brace groups, nested
    same-kind brackets (when closer given) and brackets hidden inside braces."""
    ex = excluded_tags()
    opener = {"]": "[", ")": "(", ">": "<"}.get(closer)
    n = draw(st.integers(1, 4))
    src, exp = [], []
    for i in range(n):
        k = draw(st.integers(0, 11))
        if k <= 5 or depth >= 2:
            w = draw(word())
            src.append(w)
            exp.append(w)
        elif k == 6:
            p = draw(st.sampled_from([c for c in PUNCT if c not in forbid]))
            src.append(p)
            exp.append(p)
        elif k == 11 and allow_escape and closer in ("]", ">"):
            # the control symbol \] (\>, \<) is not the delimiter ] (>, <); it contributes no text
            c = draw(st.sampled_from(["\\]"] if closer == "]" else ["\\>", "\\<"]))
            src.append(c)
            if tags is not None:
                tags.append("escaped-delimiter-inside")
        elif k in (7, 8) and allow_group:
            s2, e2 = draw(text_value(None, "", True, tags, depth + 1))
            src.append("{" + s2 + "}")
            exp.append(e2)
            if tags is not None:
                tags.append("nested-brace-group")
        elif k == 9 and closer:
            s2, e2 = draw(text_value(closer, forbid, allow_group, tags, depth + 1, allow_escape))
            src.append(opener + s2 + closer)
            exp.append(opener + e2 + closer)
            if tags is not None:
                tags.append("nested-same-kind-bracket")
        elif k == 10 and closer and allow_group and "bracket-hidden-in-braces" not in ex:
            c = draw(st.sampled_from([closer, opener, closer + draw(word(2))]))
            src.append("{" + c + "}")
            exp.append(c)
            if tags is not None:
                tags.append("bracket-hidden-in-braces")
        else:
            w = draw(word())
            src.append(w)
            exp.append(w)
        if i < n - 1 and draw(st.integers(0, 2)) == 0:
            src.append(" ")
            exp.append(" ")
    return "".join(src), "".join(exp)


def pad(draw, s):
    """blanks around a value inside its delimiters"""
    return blanks(draw, 1, 2) + s + blanks(draw, 1, 2)


@st.composite
def arg_value(draw, spec, tags):
    """-> (inner source text, expected JSON value, bare_ok)"""
    ex = excluded_tags()
    typ = spec["type"]
    closer = {"[]": "]", "()": ")", "<>": ">"}.get(spec["delim"])
    if typ == "none":
        s, e = draw(text_value(closer, "", True, tags, 0, True))
        k = draw(st.integers(0, 9))
        if k == 0:
            # the tie is an active character (a node of its own, no text) ...
            w = draw(word())
            s, e = s + "~" + w, e + w
            tags.append("tie-in-argument")
        elif k == 1:
            # ... and a comment runs to the end of its line, unless an earlier argument left other
            # category codes behind
            w = draw(word())
            s, e = s + COMMENT + draw(st.sampled_from(["", " ", "  "])) + w, e + w
            tags.append("comment-in-argument")
        return s, {"text": e}, False
    if typ == "str":
        t2 = []
        s, e = draw(text_value(closer, "", "str-with-brace-group" not in ex, t2))
        if "nested-brace-group" in t2 or "bracket-hidden-in-braces" in t2:
            t2.append("str-with-brace-group")
        tags.extend(t2)
        return s, {"str": e}, False
    if typ == "url":
        # word pieces joined by the four characters the type makes ordinary while it is read
        n = draw(st.integers(1, 4))
        s = draw(word())
        for _ in range(n):
            s += draw(st.sampled_from(["#", "~", "%", "&", "/", "."])) + draw(word())
        tags.append("url-special-character")
        return s, {"text": s}, False
    if typ == "int":
        t2 = []
        body, form = draw(int_constant(2 ** 31 - 1, t2, allow_alpha=False))
        s = draw(sign_run()).replace(" ", "") + body
        return pad(draw, s), {"int": s}, False
    if typ == "float":
        ip = str(draw(st.integers(0, 99999)))
        form = draw(st.sampled_from(["int", "frac", "frac", ".frac", "int."]))
        pt = draw(st.sampled_from([".", ".", ","]))
        fr = "".join(str(draw(st.integers(0, 9))) for _ in range(draw(st.integers(1, 6))))
        s = {"int": ip, "frac": ip + pt + fr, ".frac": pt + fr, "int.": ip + pt}[form]
        if draw(st.integers(0, 5)) == 0:
            # an octal / hexadecimal constant is a legal coefficient as well (tex.web 448: scan_int)
            s, _form = draw(int_constant(2 ** 20, [], allow_alpha=False))
            tags.append("float-from-radix-constant")
        sg = draw(sign_run()).replace(" ", "")
        if closer == ")" or closer == ">" or closer == "]":
            pass
        return pad(draw, sg + s), {"float": sg + s}, False
    if typ == "dimen":
        t2 = []
        for _ in range(10):
            t2 = []
            s, after = draw(dimen_literal(t2))
            if not t2 and "`" not in s:
                break
        else:
            s = "1pt"
        return pad(draw, s), {"dimen": s}, False
    if typ in ("list", "list(;)", "list:int"):
        delim = ";" if typ == "list(;)" else ","
        n = draw(st.integers(1, 4))
        src, exp = [], []
        for _ in range(n):
            if typ == "list:int":
                v = draw(st.integers(0, 9999))
                it = ("-" if draw(st.integers(0, 4)) == 0 else "") + str(v)
                src.append(pad(draw, it))
                exp.append(int(it))
                continue
            k = draw(st.integers(0, 4))
            if k == 0:
                # an item that hides the delimiter inside braces
                a, b = draw(word()), draw(word())
                if draw(st.integers(0, 2)) == 0:
                    # ... after an inner group has closed (the brace scan must count depth)
                    c = draw(word())
                    src.append(pad(draw, "{{" + c + "}" + a + delim + b + "}"))
                    exp.append(c + a + delim + b)
                    tags.append("list-item-nested-group-hides-delimiter")
                else:
                    src.append(pad(draw, "{" + a + delim + b + "}"))
                    exp.append(a + delim + b)
                tags.append("list-item-group-hides-delimiter")
            else:
                s, e = draw(text_value(closer, ",;=", False, None))
                src.append(pad(draw, s))
                exp.append(e)
        return delim.join(src), {"list": exp}, False
    if typ == "dict":
        n = draw(st.integers(1, 4))
        src, exp = [], {}
        keys = draw(st.lists(word(), min_size=n, max_size=n, unique=True))
        for key in keys:
            k = draw(st.integers(0, 5))
            if k == 0:
                src.append(pad(draw, key))
                exp[key] = True
            elif k in (1, 2):
                a, b = draw(word()), draw(word())
                if draw(st.integers(0, 2)) == 0:
                    c = draw(word())
                    src.append(pad(draw, key) + "=" + pad(draw, "{{" + c + "}" + a + "," + b + "}"))
                    exp[key] = c + a + "," + b
                else:
                    src.append(pad(draw, key) + "=" + pad(draw, "{" + a + "," + b + "}"))
                    exp[key] = a + "," + b
                tags.append("dict-value-group-hides-delimiter")
            else:
                s, e = draw(text_value(closer, ",;=", False, None))
                src.append(pad(draw, key) + "=" + pad(draw, s))
                exp[key] = e
        return ",".join(src), {"dict": exp}, False
    if typ == "Tok":
        k = draw(st.integers(0, 2))
        if k == 0:
            c = draw(st.sampled_from(list("axZ7.!")))
            return c, {"tok": c}, True
        nm = draw(st.sampled_from(["relax", "zzq", "par", "foo"]))
        return "\\" + nm, {"tok": "\\" + nm}, True
    if typ == "cs":
        nm = draw(st.sampled_from(["relax", "zzq", "foo", "mylen"]))
        return "\\" + nm, {"tok": "\\" + nm}, True
    if typ == "nox":
        parts = []
        for _ in range(draw(st.integers(1, 3))):
            parts.append(draw(st.sampled_from(["\\zzq", "\\foo", "x", "ab", "{y}", "{\\foo z}", "1", "\\zzq "])))
        s = "".join(parts)
        s = re.sub(r"(\\[a-z]+)(?=[a-zA-Z])", r"\1 ", s)
        return s, {"nox": s}, False
    raise ValueError(typ)


CONTINUATIONS = ["REST", " REST", "x y", "[z]w", "(z)w", "<z>w", "3", ".", "\\relax 3", "{g}h",
                 "*s", "=q", " [z]", "\\relax REST", "",
                 # the catcodes in force after the call are the ones before it
                 "a~b% gone\nREST", "x~y", "p%c\n q"]


def plain_text(cont):
    """textContent of a continuation: control words vanish (with the blanks that end
    them), braces vanish, blank runs are one blank"""
    t = re.sub(r"%[^\n]*\n[ ]*", "", cont)      # a comment runs to the end of its line; state N skips blanks
    t = t.replace("~", "")                     # the tie is an active character: a node of its own, no text
    t = re.sub(r"\\relax *", "", t)
    t = t.replace("{", "").replace("}", "")
    t = re.sub(r"[ \n]+", " ", t)
    return t


@st.composite
def signature_case(draw):
    ex = excluded_tags()
    tags = []
    nargs = draw(st.integers(1, 6))
    star = draw(st.sampled_from([None, None, "*", "*"]))
    names = ["a", "b", "c", "d", "e", "f"]
    equals_at = draw(st.sampled_from([None, None, None] + list(range(nargs))))
    specs = []
    for i in range(nargs):
        group = draw(st.sampled_from(["text", "text", "text", "num", "coll", "coll", "token", "tex"]))
        if group == "tex":
            typ = draw(st.sampled_from(TEX_TYPES))
            delim = "none"
        elif group == "token":
            typ = draw(st.sampled_from(TOKEN_TYPES))
            delim = "none"
        else:
            typ = draw(st.sampled_from({"text": TEXT_TYPES, "num": CAST_NUM_TYPES,
                                        "coll": COLL_TYPES}[group]))
            delim = draw(st.sampled_from(["none", "none", "[]", "[]", "()", "<>", "{}"]))
        specs.append({"name": names[i] + draw(st.sampled_from(["", "rg", "1"])),
                      "delim": delim, "type": typ})
    # ---- args string (documented mini-language) -------------------------------------
    parts = []
    if star:
        parts.append("*")
    for i, sp in enumerate(specs):
        if equals_at == i:
            parts.append("=")
        nm = sp["name"] if sp["type"] == "none" else sp["name"] + ":" + sp["type"]
        if sp["delim"] == "none":
            parts.append(nm)
        else:
            sepa = draw(st.sampled_from([" ", " ", ""]))
            parts.append(sp["delim"][0] + sepa + nm + sepa + sp["delim"][1])
    args = " ".join(parts)

    # ---- slots: modifiers and arguments in call order, presence decided first ---------
    slots = []
    if star:
        slots.append({"name": "*modifier*", "kind": "mod", "src": "*", "opener": "*",
                      "present": draw(st.booleans()), "optional": True})
    for i, sp in enumerate(specs):
        if equals_at == i:
            slots.append({"name": "*equals*", "kind": "mod", "src": "=", "opener": "=",
                          "present": draw(st.booleans()), "optional": True})
        optional = sp["delim"] in ("[]", "()", "<>", "{}") and sp["type"] not in TEX_TYPES
        slots.append({"name": sp["name"], "spec": sp, "optional": optional,
                      "opener": sp["delim"][0] if optional else None,
                      "present": (not optional) or draw(st.integers(0, 2)) > 0})
    # ---- values ---------------------------------------------------------------------------
    expect = {}
    for sl in slots:
        if sl.get("kind") == "mod":
            expect[sl["name"]] = {"tok": sl["src"]} if sl["present"] else None
            continue
        sp = sl["spec"]
        if sp["type"] in TEX_TYPES:
            for _ in range(12):
                t2 = []
                if sp["type"] == "Number":
                    src, after = draw(int_literal(t2))
                elif sp["type"] == "Dimen":
                    src, after = draw(dimen_literal(t2))
                else:
                    src, after = draw(glue_literal(t2))
                if not t2 and "`" not in src and "value" not in src:
                    break
            else:
                src, after = {"Number": ("12", "dec"), "Dimen": ("1pt", "unit"),
                              "Glue": ("1pt plus 2pt", "unit")}[sp["type"]]
            sl.update(kind="tex", src=src, after=after)
            expect[sp["name"]] = {sp["type"].lower(): src}
            continue
        atags = []
        src, e, bare_ok = draw(arg_value(sp, atags))
        sl["tags"] = atags
        sl["value"] = e
        if sp["delim"] in ("none", "{}"):
            if sp["type"] == "Tok" or (bare_ok and sp["delim"] == "none" and draw(st.booleans())):
                sl.update(kind="bare", src=src)     # Tok reads one token, never a group
            else:
                sl.update(kind="brace", src="{" + src + "}")
        else:
            sl.update(kind="bracket", src=sp["delim"][0] + src + sp["delim"][1])
    # ---- continuation, then repair presence flags: an absent optional must not be followed
    # ---- by its own opener (the following text would be taken as that argument) --------------
    cont = draw(st.sampled_from(CONTINUATIONS))
    nxt = cont.lstrip(" \n")[:1]
    for sl in reversed(slots):
        if not sl["present"] and sl["opener"] == nxt:
            sl["present"] = True
        if sl["present"]:
            nxt = sl["src"][:1]
    # ---- join with legal blanks -----------------------------------------------------------------
    text = ""
    prev = None
    for sl in slots:
        if not sl["present"]:
            expect[sl["name"]] = None
            if sl.get("kind") != "mod":
                tags.append("optional-absent")
            continue
        if sl.get("kind") == "mod":
            expect[sl["name"]] = {"tok": sl["src"]}
        else:
            expect[sl["name"]] = expect.get(sl["name"], sl.get("value"))
            tags.extend(sl.get("tags", []))
            if sl["optional"]:
                tags.append("optional-present")
        src = sl["src"]
        gap = draw(st.sampled_from(["", "", "", " ", "  ", "\n", " \n "]))
        if prev is not None and prev["kind"] == "tex":
            if sl["kind"] in ("bare", "tex", "mod"):
                gap = " "                      # the blank that ends the literal
            if src.lstrip(" ")[:1] in ("{", "\\") and prev["after"] in ("dec", "oct", "hex"):
                # the look-ahead after an integer constant executes a following `{` / control
                # sequence, and multiplies by a following register
                tag = "Number-then-register" if sl["kind"] == "tex" else "Number-then-brace-argument"
                if tag in ex:
                    # cannot be rendered without the known construct (\relax would become the
                    # next argument): give up on this draw
                    return draw(signature_case())
                tags.append(tag)
        if (prev is None or ends_cs(text)) and src[:1].isalpha() and not gap:
            gap = " "
        text += gap + src
        prev = sl
    # ---- the continuation ----------------------------------------------------------------------------
    trailing_absent = False
    for sl in reversed(slots):
        if sl["present"]:
            break
        trailing_absent = True
    remaining = plain_text(cont)
    if prev is not None and prev["kind"] == "tex":
        if not cont.startswith((" ", "\\relax")):
            cont = " " + cont
            remaining = plain_text(cont)
        if cont.startswith(" "):
            remaining = remaining.lstrip(" ")     # TeX: one optional space ends the literal
        if prev["after"] in ("dec", "oct", "hex") and cont.lstrip(" ").startswith("{"):
            if "Number-then-brace-argument" in ex:
                cont = " REST"
                remaining = "REST"
            else:
                tags.append("Number-then-brace-argument")
        low = cont.lstrip(" ").lower()
        if low[:1] == "l" and prev["after"] == "fil":
            cont, remaining = " REST", "REST"
    elif prev is None or ends_cs(text):
        # blanks after a control word are skipped by the tokenizer
        if cont[:1].isalpha():
            cont = " " + cont
        remaining = plain_text(cont).lstrip(" ")
    if trailing_absent:
        remaining = remaining.lstrip(" ")
        tags.append("trailing-optional-absent")
    return {"args": args, "call": text, "cont": cont, "expect": expect,
            "remaining": remaining, "tags": sorted(set(tags)),
            "types": [sp["type"] + "/" + sp["delim"] for sp in specs]}


# --------------------------------------------------------------------------
# signature oracle
# --------------------------------------------------------------------------
def plain(s):
    """an exact `str` (DOM Text / Token objects are str subclasses that drag their document
    along and cannot be pickled into a replay)"""
    return "".join(s)


def text_of(v):
    """textContent of a bound value (fragment, element, token, string) as a plain str"""
    if v is None:
        return None
    if isinstance(v, str) and not hasattr(v, "nodeType"):
        return plain(v)
    tc = getattr(v, "textContent", None)
    if tc is not None:
        return plain(tc)
    if isinstance(v, (list, tuple)):
        return "".join(text_of(x) or "" for x in v)
    return plain(str(v))


def squeeze(s):
    return re.sub(r"[ \n]+", " ", s).strip()


def compare_binding(name, exp, got, env):
    """None when the bound value `got` is the expected one, else a dict describing the
    difference.  `exp` is the JSON expectation written by the generator."""
    if exp is None:
        if got is not None:
            return {"expected": None, "observed": repr(got)[:200]}
        return None
    if got is None:
        return {"expected": exp, "observed": None}
    kind, val = list(exp.items())[0]
    if kind in ("text", "str"):
        if kind == "str" and not isinstance(got, str):
            return {"expected": exp, "observed": repr(got)[:200], "why": "not a string"}
        t = text_of(got)
        if squeeze(t) != squeeze(val):
            return {"expected": exp, "observed": t[:200]}
        return None
    if kind == "tok":
        from plasTeX.Tokenizer import Token
        if getattr(got, "catcode", None) == Token.CC_ESCAPE:
            t = "\\" + plain(str(got))
        else:
            t = plain(str(got))
        if t != val or isinstance(got, (list, tuple)):
            return {"expected": exp, "observed": repr(got)[:200]}
        return None
    if kind == "nox":
        if not isinstance(got, (list, tuple)):
            return {"expected": exp, "observed": repr(got)[:200], "why": "not a token list"}
        want = norm_model_tokens(texnum.lex(val), texnum.Env())
        have = norm_real_tokens(got, texnum.Env())
        if want != have:
            return {"expected": want, "observed": have}
        return None
    if kind in ("int", "number"):
        want = texnum.scan("int", val, env)[0]
        if not isinstance(got, int) or int(got) != want:
            return {"expected": want, "literal": val, "observed": repr(got)[:200]}
        return None
    if kind == "float":
        txt = val.replace(",", ".")
        sign = -1 if txt.count("-") % 2 else 1
        body = txt.lstrip("+-")
        if body[:1] in ("'", '"'):
            want = sign * Fraction(int(body[1:], 8 if body[0] == "'" else 16))
        else:
            want = sign * Fraction(body if body not in (".",) else "0") if body.strip(".") else Fraction(0)
        # (a radix constant comes back as the integer it denotes: the same value)
        types = (int, float) if body[:1] in ("'", '"') else float
        if not isinstance(got, types) or isinstance(got, bool) or \
                abs(Fraction(got) - want) > Fraction(1, 10 ** 9) * max(1, abs(want)):
            return {"expected": float(want), "literal": val, "observed": repr(got)[:200]}
        return None
    if kind == "dimen":
        want = texnum.scan("dimen", val, env)[0]
        from plasTeX import dimen
        if not isinstance(got, dimen):
            return {"expected": want.as_json(), "observed": repr(got)[:200], "why": "not a dimen"}
        bad = compare_dimen(got, want, "dimen")
        if bad:
            bad["literal"] = val
        return bad
    if kind == "glue":
        want = texnum.scan("glue", val, env)[0]
        from plasTeX import dimen, glue
        if not isinstance(got, glue):
            return {"expected": want.as_json(), "observed": repr(got)[:200], "why": "not a glue"}
        bad = compare_dimen(dimen(got), want.width, "width")
        for nm, rp, part in (("stretch", got.stretch, want.stretch), ("shrink", got.shrink, want.shrink)):
            if bad:
                break
            if part is None:
                if rp is not None and float(rp) != 0.0:
                    bad = {"part": nm, "expected": None, "observed": float(rp)}
            elif rp is None:
                bad = {"part": nm, "expected": part.as_json(), "observed": None}
            else:
                bad = compare_dimen(rp, part, nm)
        if bad:
            bad["literal"] = val
        return bad
    if kind == "list":
        if not isinstance(got, list):
            return {"expected": val, "observed": repr(got)[:200], "why": "not a list"}
        have = [x if isinstance(x, int) and not isinstance(x, bool) and not isinstance(val[0], str)
                else squeeze(text_of(x)) for x in got]
        want = [x if isinstance(x, int) else squeeze(x) for x in val]
        if have != want:
            return {"expected": want, "observed": [repr(x)[:60] for x in have]}
        return None
    if kind == "dict":
        if not isinstance(got, dict):
            return {"expected": val, "observed": repr(got)[:200], "why": "not a dict"}
        have = dict((plain(str(k)), (True if v is True else squeeze(text_of(v)))) for k, v in got.items())
        want = dict((k, (True if v is True else squeeze(v))) for k, v in val.items())
        if have != want:
            return {"expected": want, "observed": dict((k, repr(v)[:60]) for k, v in have.items())}
        return None
    raise ValueError(kind)


def texnum_rejects(case):
    for exp in case["expect"].values():
        if exp:
            kind, val = list(exp.items())[0]
            if kind in ("number", "dimen", "glue", "int"):
                try:
                    texnum.scan("int" if kind in ("int", "number") else kind, val, model_env())
                except texnum.TeXError:
                    return True
    return False


SIG_TAG_PRIORITY = ["bracket-hidden-in-braces", "str-with-brace-group", "Number-then-brace-argument",
                    "Number-then-register"]


def check_signature(case):
    from plasTeX.TeX import TeX
    from plasTeX import Command
    env = model_env()
    if texnum_rejects(case):
        return skip("tex-error-in-literal", [])
    feats = set("tag:" + t for t in case["tags"])
    feats.update("type:" + t for t in case["types"])
    feats.add("nargs:%d" % len(case["types"]))
    for nm, lab in (("*modifier*", "star"), ("*equals*", "equals")):
        if nm in case["expect"]:
            feats.add("%s:%s" % (lab, "absent" if case["expect"][nm] is None else "present"))
    if case["cont"].lstrip(" ")[:1] in "[(<" and case["cont"].strip():
        feats.add("cont:opener-that-must-not-be-taken")
    if case["cont"].lstrip(" ")[:1] in "*=" and case["cont"].strip():
        feats.add("cont:modifier-char-that-must-not-be-taken")
    typed = any(not t.startswith(("none/", "str/")) for t in case["types"])
    nontrivial = bool(set(case["tags"]) & set(["optional-absent", "nested-same-kind-bracket",
                                               "bracket-hidden-in-braces",
                                               "escaped-delimiter-inside"])) or typed
    reset_parameter_state()
    tex = fresh_tex()
    doc = tex.ownerDocument
    cls = type("zzcmd", (Command,), {"args": case["args"]})
    doc.context.addGlobal("zzcmd", cls)
    source = "PRE\\zzcmd" + case["call"] + case["cont"]
    tex.input(source)
    out, err = call_real(tex.parse)
    detail = {"args": case["args"], "source": source, "expected": case["expect"],
              "remaining_expected": case["remaining"]}
    state = parameter_state()
    reset_parameter_state()

    def key_for(default):
        for t in SIG_TAG_PRIORITY:
            if t in case["tags"]:
                return TAG_KEYS[t]
        if any(t.startswith("Number/") for t in case["types"]) and \
                re.search(r"[0-9A-F][ \n]+[ \n+-]*\\(%s)(?![A-Za-z])" % "|".join(REG_NAMES), case["call"]):
            return K_INTREGMUL          # (case written without generator tags, e.g. a hand-made replay)
        return default

    if err is not None:
        return fail(key_for(err.key), dict(detail, **err.detail()), feats)
    nodes = out.getElementsByTagName("zzcmd")
    if len(nodes) != 1:
        return fail(key_for("bind:macro-node-count"), dict(detail, count=len(nodes)), feats)
    node = nodes[0]
    attrs = node.attributes
    observed = dict((k, repr(v)[:120]) for k, v in attrs.items())
    detail["observed"] = observed
    detail["argSource"] = plain(node.argSource or "")
    if sorted(attrs.keys()) != sorted(case["expect"].keys()):
        return fail(key_for("bind:attribute-names"), detail, feats)
    specs = dict((t.split("/")[0], t) for t in case["types"])
    order = list(case["expect"].keys())
    for i, name in enumerate(order):
        bad, merr = call_real(compare_binding, name, case["expect"][name], attrs[name], env)
        if merr is not None:
            if merr.type == "TeXError":
                return skip("tex-error-in-literal", feats)
            raise merr.exc
        if bad is not None:
            exp = case["expect"][name]
            kind = "absent" if exp is None else list(exp.keys())[0]
            sym = "none-bound" if attrs[name] is None else ("bound-but-absent" if exp is None else "value")
            return fail(key_for("bind:%s:%s" % (kind, sym)), dict(detail, argument=name, mismatch=bad), feats)
    # the recorded source of the arguments is the call text (blanks aside); only asserted where
    # the source is the text itself and not a re-serialised value (TeX-level number types)
    if not any(t.split("/")[0] in TEX_TYPES for t in case["types"]):
        # (plasTeX writes the token \par as a blank line in `source`: equivalent TeX text)
        want = re.sub(r"[ \n]+", "", re.sub(r"\\par(?![A-Za-z])", "", case["call"].replace(COMMENT, "")))
        have = re.sub(r"[ \n]+", "", node.argSource or "")
        if want != have:
            return fail(key_for("source:argSource-differs-from-call"),
                        dict(detail, argSource_expected=want), feats)
        feats.add("argSource-checked")
    # exactly the call text consumed
    remaining = plain(out.textContent)
    detail["remaining_observed"] = remaining
    if squeeze_keep_edges(remaining) != "PRE" + case["remaining"]:
        return fail(key_for("rest:continuation-differs"), detail, feats)
    if state != (0, True):
        return fail("state:ParameterCommand-enable-counter", dict(detail, state=list(state)), feats)
    return ok(sorted(feats), nontrivial)


def squeeze_keep_edges(s):
    return re.sub(r"[ \n]+", " ", s)


# ==========================================================================
# streams
# ==========================================================================
RULE_SIG = ("signature of 1-6 argument specs (delimiter none/{}/[]/()/<>; type none,str,url,int,float,dimen,"
            "list,list(;),list:int,dict,Tok,cs,nox,Number,Dimen,Glue; optional leading * and an = anywhere) "
            "rendered to an args string and registered as a fresh Command; the call is rendered from "
            "generated values with random legal blanks/newlines, nested brace groups, nested same-kind "
            "brackets, brackets hidden in braces, group-hidden list/dict delimiters, optionals "
            "present/absent, and a continuation (text, a bracket that must not be taken, digit, \\relax, text with a tie and a comment). "
            "Non-trivial: an optional argument absent, or a nested same-kind/hidden bracket, or a typed "
            "(non-text) argument.")
RULE_LIT = ("literal = sign run (<=5 of + - blank) + decimal | 'octal | \"HEX | `c | `\\c | register | "
            "\\value{ctr}; dimensions: int, int.frac, .frac, int. with . or , / blanks / true / 9 physical "
            "units, em, ex, sp in mixed case / register multiples; glue: plus/minus parts with fil, fill, "
            "filll and arbitrary multipliers, whole glue registers; followed by a word (partial keywords, "
            "hex letters), punctuation, digit, \\relax, macro expanding to digits/letters, group, register. "
            "Compared with tex.web 440-462 in exact arithmetic: integers exact, dimensions < 2 sp from TeX's "
            "value or from the exact rational value, fil order exact, and the unconsumed tokens. "
            "Non-trivial: sign run >= 2, non-decimal radix, `c form, fraction, register, or non-pt unit.")

STREAMS = [
    Stream("signatures", "given", lambda tier: signature_case(), check_signature,
           budget={"quick": 1000, "thorough": 25000}, timeout=10.0, rule=RULE_SIG),
    Stream("literals", "given", lambda tier: literal_case(), check_literal,
           budget={"quick": 2400, "thorough": 60000}, timeout=10.0, rule=RULE_LIT),
]


# ==========================================================================
# (a') the same argument readers through the public TeX.readArgument API
#      (expanded=False is the API default and the path the unit tests use; Macro.parse always
#      passes expanded=True except for cs/nox, so castList/castDictionary see raw brace tokens
#      only here)
# ==========================================================================
DIRECT_TYPES = ["str", "int", "float", "dimen", "list", "list(;)", "list:int", "dict", "dict"]


@st.composite
def direct_case(draw):
    ex = excluded_tags()
    typ = draw(st.sampled_from(DIRECT_TYPES))
    delim = draw(st.sampled_from(["none", "none", "[]", "()", "<>"]))
    expanded = draw(st.booleans())
    tags = []
    sp = {"name": "a", "delim": delim, "type": typ}
    for _ in range(20):
        tags = []
        src, exp, _bare = draw(arg_value(sp, tags))
        if expanded or "bracket-hidden-in-braces" not in tags:
            break
    present = delim == "none" or draw(st.integers(0, 3)) > 0
    cont = draw(st.sampled_from(["REST", " REST", "x y", "[z]w", "(z)w", "<z>w", "3", "{g}h", ""]))
    if not present and cont.lstrip(" ")[:1] == delim[0]:
        present = True
    if not expanded:
        # the str-of-fragment defect needs expansion (brace groups become elements)
        tags = [t for t in tags if t != "str-with-brace-group"]
    if present:
        text = (("{" + src + "}") if delim == "none" else delim[0] + src + delim[1])
        lead = draw(st.sampled_from(["", "", " ", "  "]))     # (a newline first would be \par)
        remaining = plain_text(cont)
    else:
        text, lead, exp, tags = "", draw(st.sampled_from(["", " "])), None, []
        remaining = plain_text(cont).lstrip(" ")
    return {"type": typ, "delim": delim, "expanded": expanded, "text": lead + text, "cont": cont,
            "expect": exp, "remaining": remaining, "tags": sorted(set(tags))}


def check_direct(case):
    env = model_env()
    feats = set(["type:" + case["type"], "delim:" + case["delim"],
                 "expanded" if case["expanded"] else "unexpanded",
                 "present" if case["expect"] is not None else "absent"])
    feats.update("tag:" + t for t in case["tags"])
    if case["expect"] is not None and texnum_rejects({"expect": {"a": case["expect"]}}):
        return skip("tex-error-in-literal", feats)
    reset_parameter_state()
    tex = fresh_tex()
    tex.input(case["text"] + case["cont"])
    m = re.match(r"(\w+)(?:\((.)\))?(?::(\w+))?$", case["type"])
    kw = {"type": m.group(1), "expanded": case["expanded"]}
    if m.group(2):
        kw["delim"] = m.group(2)
    if m.group(3):
        kw["subtype"] = m.group(3)
    if case["delim"] != "none":
        kw["spec"] = case["delim"]
    detail = {"call": "TeX.readArgument(%s)" % ", ".join("%s=%r" % kv for kv in sorted(kw.items())),
              "input": case["text"] + case["cont"], "expected": case["expect"],
              "remaining_expected": case["remaining"]}

    def key_for(default):
        for t in SIG_TAG_PRIORITY:
            if t in case["tags"]:
                return TAG_KEYS[t]
        return default

    got, err = call_real(lambda: tex.readArgument(**kw))
    state = parameter_state()
    if err is not None:
        reset_parameter_state()
        return fail(key_for(err.key), dict(detail, **err.detail()), feats)
    detail["observed"] = repr(got)[:200]
    bad, merr = call_real(compare_binding, "a", case["expect"], got, env)
    if merr is not None:
        raise merr.exc
    if bad is not None:
        exp = case["expect"]
        kind = "absent" if exp is None else list(exp.keys())[0]
        return fail(key_for("direct:%s:%s" % (kind, "expanded" if case["expanded"] else "unexpanded")),
                    dict(detail, mismatch=bad), feats)
    out, err = call_real(tex.parse)
    reset_parameter_state()
    if err is not None:
        return fail(key_for(err.key), dict(detail, **err.detail()), feats)
    detail["remaining_observed"] = plain(out.textContent)
    if squeeze_keep_edges(plain(out.textContent)) != case["remaining"]:
        return fail(key_for("direct:continuation-differs"), detail, feats)
    if state != (0, True):
        return fail("state:ParameterCommand-enable-counter", dict(detail, state=list(state)), feats)
    nontrivial = case["expect"] is None or case["type"] != "str" or bool(case["tags"])
    return ok(sorted(feats), nontrivial)


RULE_DIRECT = ("one argument read with TeX.readArgument(spec, type, subtype, delim, expanded) -- the public "
               "API with expanded False (its default: raw brace tokens reach the casts) or True; types str, int, "
               "float, dimen, list, list(;), list:int, dict; delimiters none/[]/()/<>; present or absent; same "
               "value generator and oracle as `signatures`. Non-trivial: absent, non-str type or a nested construct.")

STREAMS.append(Stream("direct", "given", lambda tier: direct_case(), check_direct,
                      budget={"quick": 500, "thorough": 12000}, timeout=10.0, rule=RULE_DIRECT))

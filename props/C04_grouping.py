"""C04 -- grouping restores every local change and leaves the context stack balanced.

Streams
  source          (given)   balanced nestings of group-like constructs with local/global
                            assignments and probes; expected text known by construction
                            (models/scopemodel.SrcModel, TeX save-stack semantics).
  api             (machine) operation histories on a fresh Context(load=False) against a
                            list-of-frames model; invariants after every step.
  api_exhaustive  (enum)    every operation sequence up to a bound over a reduced alphabet.
"""
import logging
import operator

from hypothesis import strategies as st
from hypothesis.stateful import rule, precondition

from vlib import Stream, ok, fail, skip, call_real, known_keys
from vlib.stateful import HistoryMachine, history_check
from models import scopemodel as sm

logging.disable(logging.CRITICAL)

PROPERTY = "C04"
LEVEL = "exploration"
ASSUMPTIONS = [
    "models/scopemodel.py SrcModel is a faithful transcription of TeX's save-stack rules (tex.web sections 268-284) "
    "for macro meanings and category codes; LaTeX counters are global; \\newif switches survive groups (as the "
    "statement of C04 says, although TeX's own \\footrue is local)",
    "macro arguments (\\textbf, \\mbox, \\footnote) may be tokenized either when read or when executed: inside them "
    "a catcode-dependent fragment is generated only where both readings agree",
    "number literals are \\relax-terminated; every control word is followed by a blank or a non-letter; a neutral "
    "marker word follows \\item, & and \\\\ (look-ahead of those commands is not part of C04)",
    "\\catcode`\\c is not issued while c is an ignored character (C01 normal form: plasTeX drops ignored characters "
    "before the escape character can take them)",
    "API level: models/scopemodel.py ApiModel reads the comments of Context.pop as the documented semantics of "
    "pop()/pop(obj); pop(obj) is only called for an object whose frame (or whose \\begin / parent frame) is on the stack; "
    "addLocal/addGlobal are called with key == macroName(value)",
    "default category codes of the observed characters are read from plasTeX.Tokenizer.DEFAULT_CATEGORIES as data",
]

KNOWN = known_keys(PROPERTY)
K_GLOBAL = "text-mismatch:" + sm.T_GLOBAL
K_NEWCMD = "text-mismatch:" + sm.T_NEWCMD
K_CHARLET = "text-mismatch:" + sm.T_CHARLET
K_SHADOW = "text-mismatch:" + sm.T_SHADOW
K_DOLLAR = "text-mismatch:first-token-after@dollar"
K_DECLENV = "scope-leak:" + sm.F_DECL_OWN_ENV


# ===========================================================================
# (a) source level
# ===========================================================================

_CHARNAME = {"@": "at", "|": "bar", "!": "bang", "~": "tilde", "%": "percent"}


def _strip(s):
    return "".join(s.split())


def _parse(src):
    from plasTeX.TeX import TeX
    from plasTeX.Base.TeX.Primitives import MathShift
    if isinstance(getattr(MathShift, "inEnv", None), list):
        MathShift.inEnv[:] = []      # class-level list in older trees (C17's business): keep cases independent
    tex = TeX()
    tex.input(src)
    doc = tex.parse()
    ctx = doc.context
    return {"text": doc.textContent,
            "depth": len(ctx.contexts),
            "depth_attr": ctx.depth,
            "names": [c.name for c in ctx.contexts[1:]],
            "codes": dict((c, int(ctx.whichCode(c))) for c in sm.CHARS)}


def check_source(case):
    m = sm.run_program(case)
    src = m.source()
    expected = m.expected()
    feats = set(m.features)
    feats.add("wrap" if m.wrap else "fragment")
    if m.dropped:
        feats.add("has-dropped-nodes")
    obs, err = call_real(_parse, src)
    if err is not None:
        return fail(err.key, dict(err.detail(), source=src, expected=expected), sorted(feats))
    text = _strip(obs["text"])
    mm = sm.first_mismatch(m.segs, text)
    if mm is not None:
        idx, tag, want, got = mm
        return fail(K_DECLENV if sm.F_DECL_OWN_ENV in feats else "text-mismatch:" + tag,
                    {"source": src, "expected": expected, "observed": text, "segment": idx,
                     "segment_expected": want, "observed_there": got}, sorted(feats))
    if obs["depth"] != 1 or obs["depth_attr"] != 1:
        return fail(K_DECLENV if sm.F_DECL_OWN_ENV in feats else
                    "stack-unbalanced:" + "+".join("group" if n == "{}" else n for n in obs["names"][:6]),
                    {"source": src, "depth": obs["depth"], "depth_attr": obs["depth_attr"],
                     "frames_left": obs["names"]}, sorted(feats))
    if not m.wrap:
        for c in sm.CHARS:
            if obs["codes"][c] != m.cat[c]:
                return fail("final-catcode:%s" % _CHARNAME[c],
                            {"source": src, "char": c, "expected": m.cat[c], "observed": obs["codes"][c]},
                            sorted(feats))
    return ok(sorted(feats), m.nontrivial)


# ---- generator: draws nodes while the model runs alongside ------------------

_INTS = {}


def _upto(n):
    st_ = _INTS.get(n)
    if st_ is None:
        st_ = _INTS[n] = st.integers(0, n)
    return st_


class Gen(object):
    """Builds the body of a program; self.m is the model in the state reached so far."""

    def __init__(self, draw, m, allow, budget):
        self.draw = draw
        self.m = m
        self.allow = allow
        self.budget = budget

    def pick(self, seq):
        seq = list(seq)
        return seq[self.draw(_upto(len(seq) - 1))]

    def chance(self, num, den):
        return self.draw(_upto(den - 1)) < num

    def emit(self, out, node):
        """apply a leaf node to the model; keep it only if it was meaningful"""
        if self.m.act(node):
            out.append(node)
            self.budget -= 1
            return True
        self.m.dropped -= 1
        return False

    # -- names ---------------------------------------------------------------
    def usable_names(self):
        m = self.m
        names = list(sm.NAMES)
        for n in sm.PROBE_NAMES:
            for c in sm.NAMECHARS:
                names.append(sm.composite(n, c))
        return [n for n in names if m.name_ok(n)]

    def writable(self, name, glob):
        m = self.m
        if not self.allow["charlet"] and m.is_charlet(name):
            return False
        if glob and not self.allow["shadow"] and m.would_shadow(name):
            return False
        return True

    # -- changes ---------------------------------------------------------------
    def change(self, out):
        """one assignment, followed (usually) by a probe that reads it"""
        m = self.m
        kind = self.pick(["def", "def", "def", "gdef", "gdef", "let", "clet", "cat", "cat", "cat", "at",
                          "ctr", "if", "renew", "newcmd", "global"])
        node = None
        if kind in ("def", "gdef", "global"):
            v = self.pick("de") if kind != "gdef" else self.pick("gx")
            glob = kind != "def"
            if kind == "global" and not self.allow["global"]:
                return
            names = [n for n in self.usable_names() if self.writable(n, glob)]
            if not names:
                return
            node = {"k": "def", "n": self.pick(names), "v": v}
            if kind == "global":
                node["pre"] = "global"
        elif kind == "let":
            names = self.usable_names()
            srcs = [n for n in names if m.defined(n) and not m.is_charlet(n)
                    and (self.allow["shadow"] or not m.ambiguous(n))
                    and (n not in m.taint)]
            dests = [n for n in names if self.writable(n, False)]
            if not srcs or not dests:
                return
            node = {"k": "let", "n": self.pick(dests), "s": self.pick(srcs)}
            if self.allow["global"] and self.chance(1, 6):
                node["pre"] = "global"
        elif kind == "clet":
            dests = [n for n in ("za", "zb") if self.writable(n, False)]
            if not dests or (m.argdepth and not self.allow["charlet"]):
                return
            node = {"k": "clet", "n": self.pick(dests), "ch": self.pick(sm.LETCHARS)}
        elif kind == "cat":
            c = self.pick(sm.CHARS)
            codes = [k for k in sm.ALLOWED_CODES[c] if k != m.cat[c]]
            node = {"k": "cat", "c": c, "code": self.pick(codes), "tight": self.pick([False, False, True])}
        elif kind == "at":
            node = {"k": "cat", "c": "@", "code": 12 if m.cat["@"] == 11 else 11, "form": "at",
                    "tight": self.pick([False, False, True])}
        elif kind == "ctr":
            op = self.pick(["set", "step", "add", "new"])
            if op == "new":
                cands = [c for c in sm.COUNTERS_NEW if c not in m.ctr]
                if not cands:
                    op = "step"
                else:
                    node = {"k": "ctr", "op": "new", "c": cands[0]}
            if node is None:
                node = {"k": "ctr", "op": op, "c": self.pick(sorted(m.ctr)),
                        "v": self.draw(_upto(15)) - 3}
        elif kind == "if":
            node = {"k": "ifset", "n": self.pick(sm.IFS), "v": self.chance(1, 2)}
        elif kind == "renew":
            if not self.allow["newcmd"]:
                return
            names = [n for n in sm.NAMES if self.writable(n, False)]
            if not names:
                return
            node = {"k": "renew", "n": self.pick(names), "braced": self.chance(1, 2)}
        elif kind == "newcmd":
            if not self.allow["newcmd"]:
                return
            node = {"k": "newcmd", "n": self.pick(sm.FRESH)}
        if node is None or not self.emit(out, node):
            return
        if self.chance(3, 4):
            self.probe_for(out, node)

    def probe_for(self, out, node):
        k = node["k"]
        if k in ("def", "let", "clet", "renew"):
            self.probe_name(out, node["n"])
        elif k == "newcmd":
            self.emit(out, self.pick([{"k": "isdef", "n": node["n"]}, {"k": "call", "n": node["n"]}]))
        elif k == "cat":
            self.probe_char(out, node["c"])
        elif k == "ctr":
            self.emit(out, {"k": "pctr", "c": node["c"]})
        elif k == "ifset":
            self.emit(out, {"k": "pif", "n": node["n"]})

    def probe_ok(self, name):
        m = self.m
        if not self.allow["shadow"] and name not in m.taint and m.ambiguous(name):
            return False
        return True

    def probe_name(self, out, name):
        if not self.probe_ok(name):
            return
        if name in sm.FRESH:
            self.emit(out, {"k": "isdef", "n": name})
            if self.m.defined(name):
                self.emit(out, {"k": "call", "n": name})
            return
        if name in sm.PROBE_NAMES and self.chance(1, 3):
            self.emit(out, {"k": "nprobe", "n": name, "c": self.pick(sm.NAMECHARS)})
        else:
            self.emit(out, {"k": "call", "n": name})

    def probe_char(self, out, c):
        if c in sm.NAMECHARS and self.chance(1, 2):
            names = [n for n in sm.PROBE_NAMES if self.probe_ok(n)
                     and self.probe_ok(sm.composite(n, c))]
            if names:
                self.emit(out, {"k": "nprobe", "n": self.pick(names), "c": c})
                return
        self.emit(out, {"k": "cprobe", "c": c})

    def probe_any(self, out):
        kind = self.pick(["name", "name", "char", "char", "ctr", "if", "txt", "isdef"])
        if kind == "name":
            names = [n for n in self.usable_names() if self.m.defined(n)]
            if names:
                self.probe_name(out, self.pick(names))
        elif kind == "char":
            self.probe_char(out, self.pick(sm.CHARS))
        elif kind == "ctr":
            self.emit(out, {"k": "pctr", "c": self.pick(sorted(self.m.ctr))})
        elif kind == "if":
            self.emit(out, {"k": "pif", "n": self.pick(sm.IFS)})
        elif kind == "isdef":
            if self.allow["newcmd"]:
                self.probe_name(out, self.pick(sm.FRESH))
        else:
            self.emit(out, {"k": "txt"})

    def probes_after_group(self, out, before):
        """probe what the group that just closed changed (restored keys, globals it wrote)"""
        m = self.m
        pend = [k for k in sorted(m.restored) if k not in before or before[k] != m.restored[k]]
        if len(pend) > 3:
            i = self.draw(_upto(len(pend) - 3))
            pend = pend[i:i + 3]
        for key in pend:
            if not self.chance(4, 5):
                continue
            if key[0] == "m":
                self.probe_name(out, key[1]) if m.name_ok(key[1]) else None
            elif key[0] == "c":
                self.probe_char(out, key[1])
            elif key[0] == "k":
                self.emit(out, {"k": "pctr", "c": key[1]})
            elif key[0] == "i":
                self.emit(out, {"k": "pif", "n": key[1]})

    # -- blocks and groups ---------------------------------------------------------
    def block(self, out, lo=1, hi=4):
        n = lo + self.draw(_upto(hi - lo))
        for _ in range(n):
            if self.budget <= 0:
                break
            r = self.draw(_upto(10))
            if r < 4:
                self.change(out)
            elif r < 6:
                self.probe_any(out)
            elif r == 10:
                # (listed finding: the declaration directly inside the environment of the same name)
                own = sm.DECL_ENVS.get(self.m.save[-1].kind) if self.m.save else None
                ds = [d for d in sm.DECLS if not (d == own and not self.allow["declenv"])]
                self.emit(out, {"k": "decl", "d": self.pick(ds)}) or self.probe_any(out)
            else:
                self.group(out)

    def group(self, out):
        m = self.m
        kinds = [k for k in sm.GROUP_KINDS if m.can_open(k)]
        if not kinds or self.budget <= 0:
            self.probe_any(out)
            return
        kind = self.pick(kinds)
        before = dict(m.restored)
        globals_before = dict((n, v.text) for n, v in m.val.items())
        self.budget -= 1
        if kind == "tabular":
            nrows = 1 + self.draw(_upto(2))
            ncols = 1 + self.draw(_upto(2))
            shape = [1 + self.draw(_upto(ncols - 1)) for _ in range(nrows)]
            node = {"k": "g", "t": "tabular", "rows": [], "trail": self.chance(1, 2)}
            m.open("tabular", max(shape))
            for i, nc in enumerate(shape):
                row = []
                if i:
                    m.next_row()
                for j in range(nc):
                    if j:
                        m.next_cell()
                    cell = []
                    self.block(cell, 0, 3)
                    row.append(cell)
                node["rows"].append(row)
            if node["trail"]:
                m.src.append("\\\\")
            m.close()
        elif kind == "itemize":
            node = {"k": "g", "t": "itemize", "items": []}
            m.open("itemize")
            for _ in range(1 + self.draw(_upto(2))):
                m.item()
                it = []
                self.block(it, 0, 3)
                node["items"].append(it)
            m.close()
        else:
            node = {"k": "g", "t": kind, "body": []}
            m.open(kind)
            self.block(node["body"], 1, 4)
            if kind == "dollar" and not self.allow["dollar"]:
                node["pad"] = True
            m.close(bool(node.get("pad")))
        out.append(node)
        self.probes_after_group(out, before)
        # names whose global meaning was changed inside the group
        changed = [n for n, v in sorted(m.val.items())
                   if globals_before.get(n) != v.text and m.name_ok(n)]
        for n in changed[:2]:
            if self.chance(2, 3):
                self.probe_name(out, n)


def allow_flags():
    return {"global": K_GLOBAL not in KNOWN, "newcmd": K_NEWCMD not in KNOWN,
            "charlet": K_CHARLET not in KNOWN, "shadow": K_SHADOW not in KNOWN,
            "dollar": K_DOLLAR not in KNOWN, "declenv": K_DECLENV not in KNOWN}


@st.composite
def programs(draw, size):
    wrap = draw(st.integers(0, 5)) == 0
    m = sm.SrcModel(wrap)
    m.walk(sm.prefix_nodes())
    if wrap:
        m.dfr.append({})
    g = Gen(draw, m, allow_flags(), size)
    body = []
    g.block(body, 2, 6)
    assert not m.save
    return {"wrap": wrap, "body": body}


def make_source(tier):
    return programs(40 if tier == "quick" else 60)


RULE_SOURCE = (
    "composite strategy that draws a program node by node while the scoping model runs alongside: blocks of "
    "(assignment+probe | probe | group), groups from {brace, begingroup, center, quote, itemize(+items), "
    "tabular(+cells, rows), $, \\(, \\[, \\textbf, \\mbox, \\footnote} nested to depth <= 6 under LaTeX's mode "
    "rules, assignments from {def, edef, gdef, xdef, let, let-to-character, catcode of @|!~% (codes 9/11/12/13/14), "
    "makeatletter/makeatother, counters, newif setters, [global prefix, renewcommand/newcommand unless listed as "
    "known]}, probes = macro call, name probe \\x@y., comment/char probe, counter, switch, definedness; after each "
    "group the restored keys are probed. 1/6 of the programs are wrapped in an article document. Non-trivial: at "
    "least one probe reads a key that a closed group had changed locally (restored value) or a global value written "
    "inside a closed group. Distinct by sha1 of the AST.")


# ===========================================================================
# (b) API level
# ===========================================================================

API_NAMES = ["n1", "n2", "n3"]
API_CHARS = ["@", "%", "|", "a", "{", "\\", " "]
LET_CHARS = {"a": "Letter", "1": "Other", "{": "BeginGroup"}
OBJ_CLASSES = {"oA": ["n1"], "oB": ["n1", "n2"], "oC": [], "eE": ["n2"], "oF": [], "endoF": []}

_world = None


def world():
    """Real classes/tokens used by the sessions (built once per process; immutable)."""
    global _world
    if _world is not None:
        return _world
    import plasTeX
    from plasTeX import Command, Environment
    from plasTeX import Tokenizer as T
    w = {"reg": {}, "cls": {}, "Command": Command}
    for n in API_NAMES:
        for i in range(3):
            w["reg"]["V:%s:%d" % (n, i)] = type(n, (Command,), {})
    for oc, loc in OBJ_CLASSES.items():
        attrs = {}
        for n in loc:
            c = type(n, (Command,), {})
            w["reg"]["L:%s:%s" % (oc, n)] = c
            attrs[n] = c
        base = Environment if oc == "eE" else Command
        cls = type(oc, (base,), attrs)
        got = cls().locals()
        if sorted(got) != sorted(loc) or any(got[n] is not attrs[n] for n in loc):
            raise RuntimeError("harness: locals() of %s is %r" % (oc, got))
        w["cls"][oc] = cls
    w["T"] = T
    w["default"] = {}
    for ch in API_CHARS:
        codes = [i for i in range(16) if ch in T.DEFAULT_CATEGORIES[i]]
        w["default"][ch] = codes[0] if codes else 12
    w["Definition"] = plasTeX.Definition
    w["NewCommand"] = plasTeX.NewCommand
    w["Unrecognized"] = plasTeX.UnrecognizedMacro
    _world = w
    return w


class ApiSession(object):

    def __init__(self, cfg):
        from plasTeX.Context import Context
        cfg = cfg or {}
        self.final_only = bool(cfg.get("final_only"))
        self.w = world()
        self.ctx = Context(load=False)
        self.model = sm.ApiModel(self.w["default"], [c for c in API_CHARS if c.isalpha()])
        self.reg = dict(self.w["reg"])          # model value id -> real object
        self.objs = {}                          # inst -> real instance
        self.ninst = 0
        self.nval = 0
        self.features = set()
        self.invalid = False
        self.maxdepth = 1

    # ---- real-side helpers ------------------------------------------------
    def _new_obj(self, cls, end=False, parent=None):
        self.ninst += 1
        o = self.w["cls"][cls]()
        if end:
            o.macroMode = self.w["Command"].MODE_END
        if parent is not None:
            o.parentNode = self.objs[parent]
        self.objs[self.ninst] = o
        return sm.MObj(self.ninst, cls, end, parent), o

    def _tok(self, name):
        return self.w["T"].EscapeSequence(name)

    def _noop(self):
        self.invalid = True
        self.features.add("noop")
        return None

    def apply(self, op):
        r = self._apply(op)
        if r is not None:
            return r
        if self.model.depth > self.maxdepth:
            self.maxdepth = self.model.depth
        if self.final_only:
            return None
        return self.invariants(op)

    def _real(self, fn, *a):
        v, err = call_real(fn, *a)
        if err is not None:
            return fail(err.key, dict(err.detail()), sorted(self.features))
        return None

    def _apply(self, op):
        ctx, m = self.ctx, self.model
        k = op["op"]
        self.features.add("op:" + k)
        d0 = m.depth
        if k == "push":
            m.push()
            return self._real(ctx.push)
        if k == "pushobj":
            mo, o = self._new_obj(op["cls"])
            m.push(mo, dict((n, "L:%s:%s" % (op["cls"], n)) for n in OBJ_CLASSES[op["cls"]]))
            return self._real(ctx.push, o)
        if k == "pop":
            if m.depth > 1 and m.frames[-1].obj is not None:
                self.features.add("pop()-through-named-frame")
            m.pop()
            r = self._real(ctx.pop)
        elif k in ("popobj", "popend", "popnamed", "popchild"):
            stack = m.on_stack()
            if k == "popend":
                stack = [o for o in stack if o.cls == "eE"]
            elif k == "popnamed":
                stack = [o for o in stack if o.cls == "oF"]
            if not stack:
                return self._noop()
            tgt = stack[op.get("i", 0) % len(stack)]
            if k == "popobj":
                mo, o = tgt, self.objs[tgt.inst]
            elif k == "popend":
                mo, o = self._new_obj("eE", end=True)
            elif k == "popnamed":
                mo, o = self._new_obj("endoF")
            else:
                mo, o = self._new_obj("oC", parent=tgt.inst)
            m.pop(mo)
            r = self._real(ctx.pop, o)
            if d0 - m.depth >= 2:
                self.features.add("pop(obj)-through-several-frames")
        elif k in ("addLocal", "addGlobal"):
            vid = "V:%s:%d" % (op["n"], op["v"])
            if k == "addLocal":
                if m.depth > 1 and any(op["n"] in fr.macros for fr in m.frames[:-1]):
                    self.features.add("local-write-shadows-outer")
                m.add_local(op["n"], vid)
                return self._real(ctx.addLocal, op["n"], self.reg[vid])
            m.add_global(op["n"], vid)
            if m.depth > 1:
                self.features.add("global-write-inside-frame")
            if op.get("via") == "setitem":
                return self._real(operator.setitem, ctx, op["n"], self.reg[vid])
            return self._real(ctx.addGlobal, op["n"], self.reg[vid])
        elif k == "newdef":
            if not op["local"] and any(op["n"] in fr.macros for fr in m.frames[1:]):
                # a \gdef while a local definition of the same name is live: what a look-up
                # must give until that group ends depends on the reading of "global"
                # (see notes/C04.md, shadowed global); decided at source level only
                self.features.add("newdef-global-over-local-skipped")
                return self._noop()
            self.nval += 1
            vid = "def:%s:%d" % (op["n"], self.nval)
            body = "b%d" % self.nval
            local = bool(op["local"])
            r = self._real(ctx.newdef, op["n"], None, body, local)
            if r is not None:
                return r
            (m.add_local if local else m.add_global)(op["n"], vid)
            got = dict.get(ctx.contexts[-1 if local else 0], op["n"])
            if got is None or not isinstance(got, type) or not issubclass(got, self.w["Definition"]) \
                    or "".join(got.definition or []) != body:
                return fail("newdef-not-stored", {"op": op, "got": repr(got)}, sorted(self.features))
            self.reg[vid] = got
            return None
        elif k == "newcommand":
            self.nval += 1
            vid = "nc:%s:%d" % (op["n"], self.nval)
            body = "c%d" % self.nval
            cur = m.lookup(op["n"])
            r = self._real(ctx.newcommand, op["n"], 0, body)
            if r is not None:
                return r
            # documented guard: an existing macro that is not itself a \newcommand, a \def or
            # an unrecognised placeholder is left alone
            if cur is None or cur.split(":")[0] in ("def", "nc", "unrec"):
                m.add_global(op["n"], vid)
                got = dict.get(ctx.contexts[0], op["n"])
                if got is None or not isinstance(got, type) or not issubclass(got, self.w["NewCommand"]) \
                        or "".join(got.definition or []) != body:
                    return fail("newcommand-not-stored", {"op": op, "got": repr(got)}, sorted(self.features))
                self.reg[vid] = got
            else:
                self.features.add("newcommand-blocked-by-existing")
            return None
        elif k == "let":
            missing = m.lookup(op["s"]) is None
            r = self._real(ctx.let, self._tok(op["d"]), self._tok(op["s"]))
            if r is not None:
                return r
            m.let_cs(op["d"], op["s"])
            if missing:
                r = self._register_unrec(op["s"])
                if r is not None:
                    return r
            return None
        elif k == "letc":
            tok = getattr(self.w["T"], LET_CHARS[op["ch"]])(op["ch"])
            m.let_char(op["d"], (LET_CHARS[op["ch"]], op["ch"]))
            return self._real(ctx.let, self._tok(op["d"]), tok)
        elif k == "catcode":
            m.catcode(op["ch"], op["code"])
            return self._real(ctx.catcode, op["ch"], op["code"])
        elif k == "verbatim":
            m.verbatim()
            return self._real(ctx.setVerbatimCatcodes)
        elif k == "lookup":
            missing = m.lookup(op["n"]) is None
            v, err = call_real(operator.getitem, ctx, op["n"])
            if err is not None:
                return fail(err.key, dict(err.detail()), sorted(self.features))
            vid = m.lookup_or_create(op["n"])
            if missing:
                self.features.add("lookup-creates-placeholder")
                r = self._register_unrec(op["n"])
                if r is not None:
                    return r
            if v is not self.reg[vid]:
                return fail("lookup-identity", {"op": op, "expected": vid, "got": repr(v)},
                            sorted(self.features))
            return None
        else:
            raise ValueError("unknown op %r" % (op,))
        # pops end up here
        if r is not None:
            return r
        if "catcode-then-pop" in m.events:
            self.features.add("catcode-then-pop")
        if d0 == m.depth:
            self.features.add("pop-at-bottom")
        return None

    def _register_unrec(self, name):
        vid = self.model.frames[0].macros[name]
        got = dict.get(self.ctx.contexts[0], name)
        if got is None or not isinstance(got, type) or not issubclass(got, self.w["Unrecognized"]):
            return fail("placeholder-not-global", {"name": name, "got": repr(got)}, sorted(self.features))
        self.reg[vid] = got
        return None

    # ---- invariants ---------------------------------------------------------
    def invariants(self, op=None):
        ctx, m = self.ctx, self.model
        F = sorted(self.features)
        if ctx.depth != m.depth or len(ctx.contexts) != m.depth:
            return fail("depth", {"op": op, "expected": m.depth, "depth": ctx.depth,
                                  "len": len(ctx.contexts)}, F)
        vis = m.visible()
        for n in API_NAMES:
            exp = m.lookup(n)
            (has, err) = call_real(lambda: n in ctx)
            if err is not None:
                return fail(err.key, err.detail(), F)
            if bool(has) != (exp is not None):
                return fail("membership", {"op": op, "name": n, "expected": exp is not None,
                                           "got": has}, F)
            if exp is not None:
                got, err = call_real(operator.getitem, ctx, n)
                if err is not None:
                    return fail(err.key, err.detail(), F)
                if got is not self.reg[exp]:
                    return fail("lookup-identity", {"op": op, "name": n, "expected": exp,
                                                    "got": repr(got)}, F)
        keys, err = call_real(lambda: set(str(k) for k in ctx.keys()))
        if err is not None:
            return fail(err.key, err.detail(), F)
        if keys != vis:
            return fail("keys", {"op": op, "expected": sorted(vis), "got": sorted(keys)}, F)
        for n in API_NAMES:
            tok = self._tok(n)
            got, err = call_real(ctx.get_let, tok)
            if err is not None:
                return fail(err.key, err.detail(), F)
            exp = m.get_let(n)
            if exp is None:
                if got is not tok:
                    return fail("get_let", {"op": op, "name": n, "expected": None, "got": repr(got)}, F)
            elif (type(got).__name__, str(got)) != exp:
                return fail("get_let", {"op": op, "name": n, "expected": exp,
                                        "got": [type(got).__name__, str(got)]}, F)
        for ch in API_CHARS:
            got, err = call_real(ctx.whichCode, ch)
            if err is not None:
                return fail(err.key, err.detail(), F)
            if got != m.code(ch):
                return fail("whichCode", {"op": op, "char": ch, "expected": m.code(ch), "got": got}, F)
        # every frame's own table (a write in an inner frame must not show in an outer one)
        for i, fr in enumerate(ctx.contexts):
            table = fr.categories
            for ch in API_CHARS:
                codes = [c for c in range(16) if ch in table[c]]
                if len(codes) > 1:
                    return fail("catcode-not-a-partition", {"op": op, "frame": i, "char": ch, "codes": codes}, F)
                got = codes[0] if codes else 12
                if got != m.code(ch, i):
                    return fail("frame-table", {"op": op, "frame": i, "char": ch,
                                                "expected": m.code(ch, i), "got": got}, F)
        for j in range(1, m.depth):
            if m.frames[j].table != m.frames[j - 1].table and \
                    ctx.contexts[j].categories is ctx.contexts[j - 1].categories:
                return fail("table-aliased", {"op": op, "frames": [j - 1, j]}, F)
        return None

    def finish(self):
        if self.final_only:
            if self.invalid:
                return skip("sequence-with-inapplicable-op", sorted(self.features))
            r = self.invariants()
            if r is not None:
                return r
        self.features.add("maxdepth:%d" % min(self.maxdepth, 8))
        if self.model.shadow_pop:
            self.features.add("pop-after-shadowing-write")
        return ok(sorted(self.features), self.model.shadow_pop)


class ApiMachine(HistoryMachine):
    SESSION = ApiSession
    CONFIG = {}

    def __init__(self):
        super().__init__()
        self.start({})

    names = st.sampled_from(API_NAMES)

    @rule()
    def push(self):
        self.do({"op": "push"})

    @rule(cls=st.sampled_from(["oA", "oB", "oC", "eE", "oF"]))
    def pushobj(self, cls):
        self.do({"op": "pushobj", "cls": cls})

    @precondition(lambda self: self.model.depth > 1)
    @rule()
    def pop(self):
        self.do({"op": "pop"})

    @rule()
    def pop_any(self):
        self.do({"op": "pop"})

    @precondition(lambda self: self.model.on_stack())
    @rule(i=st.integers(0, 7), kind=st.sampled_from(["popobj", "popobj", "popobj", "popchild"]))
    def popobj(self, i, kind):
        self.do({"op": kind, "i": i})

    @precondition(lambda self: any(o.cls == "eE" for o in self.model.on_stack()))
    @rule(i=st.integers(0, 3))
    def popend(self, i):
        self.do({"op": "popend", "i": i})

    @precondition(lambda self: any(o.cls == "oF" for o in self.model.on_stack()))
    @rule(i=st.integers(0, 3))
    def popnamed(self, i):
        self.do({"op": "popnamed", "i": i})

    @rule(n=names, v=st.integers(0, 2))
    def add_local(self, n, v):
        self.do({"op": "addLocal", "n": n, "v": v})

    @rule(n=names, v=st.integers(0, 2), via=st.sampled_from(["method", "setitem"]))
    def add_global(self, n, v, via):
        self.do({"op": "addGlobal", "n": n, "v": v, "via": via})

    @rule(n=names, local=st.booleans())
    def newdef(self, n, local):
        self.do({"op": "newdef", "n": n, "local": local})

    @rule(n=names)
    def newcommand(self, n):
        self.do({"op": "newcommand", "n": n})

    @rule(d=names, s=names)
    def let(self, d, s):
        self.do({"op": "let", "d": d, "s": s})

    @rule(d=names, ch=st.sampled_from(sorted(LET_CHARS)))
    def letc(self, d, ch):
        self.do({"op": "letc", "d": d, "ch": ch})

    @rule(ch=st.sampled_from(["@", "%", "|", "a"]), code=st.sampled_from([0, 9, 11, 12, 13, 14, 15]))
    def catcode(self, ch, code):
        self.do({"op": "catcode", "ch": ch, "code": code})

    @rule()
    def verbatim(self):
        self.do({"op": "verbatim"})

    @rule(n=names)
    def lookup(self, n):
        self.do({"op": "lookup", "n": n})


RULE_API = (
    "state machine on a fresh Context(load=False): push(), push(obj) for objects with 0-2 local macros (commands, an "
    "environment, a \\foo/\\endfoo pair), pop(), pop(obj) for an object on the stack, pop(\\end instance), "
    "pop(\\endfoo), pop(child of an object on the stack), addLocal/addGlobal/__setitem__ from a colliding pool of 3 "
    "names x 3 classes, newdef local/global, newcommand, let to a control sequence / to a character token, "
    "catcode(ch, code), setVerbatimCatcodes(), look-up (creates a placeholder when unknown); up to 40/60 steps. After "
    "every step: depth, membership, look-up identity, keys(), get_let, whichCode for 7 characters, every frame's own "
    "category table (partition + content), no aliasing of a written table with its parent. Non-trivial: at least one "
    "pop removed a local binding that shadowed an outer one (or a local let).")


# ===========================================================================
# (c) exhaustive enumeration over a reduced alphabet
# ===========================================================================

ENUM_OPS = [
    {"op": "push"},
    {"op": "pushobj", "cls": "oA"},
    {"op": "pushobj", "cls": "eE"},
    {"op": "pop"},
    {"op": "popobj", "i": 7},            # topmost named frame's object
    {"op": "popend", "i": 0},
    {"op": "addLocal", "n": "n1", "v": 0},
    {"op": "addLocal", "n": "n2", "v": 0},
    {"op": "addGlobal", "n": "n1", "v": 1},
    {"op": "let", "d": "n2", "s": "n1"},
    {"op": "letc", "d": "n1", "ch": "a"},
    {"op": "catcode", "ch": "@", "code": 11},
    {"op": "catcode", "ch": "%", "code": 12},
    {"op": "verbatim"},
    {"op": "lookup", "n": "n2"},
]
ENUM_LEN = {"quick": 5, "thorough": 6}


def make_enum(tier):
    k = len(ENUM_OPS)
    L = ENUM_LEN[tier]
    offsets = [0]
    for l in range(1, L + 1):
        offsets.append(offsets[-1] + k ** l)
    total = offsets[-1]

    def fn(i):
        l = 1
        while i >= offsets[l]:
            l += 1
        i -= offsets[l - 1]
        ops = []
        for _ in range(l):
            ops.append(ENUM_OPS[i % k])
            i //= k
        return {"config": {"final_only": True}, "ops": ops}
    return total, fn


RULE_ENUM = (
    "complete enumeration of all operation sequences of length 1..L (quick L=5, thorough L=6) over 15 operations "
    "(push, push(oA with local n1), push(environment eE with local n2), pop, pop(topmost object), pop(\\end eE), "
    "addLocal n1/n2, addGlobal n1, let n2:=n1, let n1:=character, catcode @:=11, catcode %:=12, verbatim catcodes, "
    "look-up n2); the invariants of the api stream are checked after the last step of each sequence (every prefix is "
    "itself enumerated). Sequences containing an inapplicable pop(obj) are counted as excluded. Non-trivial: a pop "
    "removed a shadowing local binding.")


STREAMS = [
    Stream("source", "given", make_source, check_source,
           budget={"quick": 1000, "thorough": 25000}, timeout=20.0, rule=RULE_SOURCE,
           hang_is_violation=False),
    Stream("api", "machine", lambda tier: ApiMachine, history_check(ApiSession),
           budget={"quick": 400, "thorough": 10000}, timeout=10.0, rule=RULE_API,
           steps={"quick": 40, "thorough": 60}),
    Stream("api_exhaustive", "enum", make_enum, history_check(ApiSession),
           budget={"quick": 1, "thorough": 1}, timeout=10.0, rule=RULE_ENUM),
]

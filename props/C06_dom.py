"""C06 -- the document tree stays a consistent tree under any sequence of DOM edits.

Streams
  history     state machine (<= 40 steps) over a pool of elements, text nodes, fragments,
              clones, attribute-held fragments and `self`-aliased elements
  exhaustive  complete enumeration of every valid op sequence up to a bound over a small pool

Oracle: models/dommodel.py (list-of-lists tree) compared with the real
plasTeX.DOM objects after EVERY step, over every live node (reachable from the
document or from a detached pool node).
"""
import signal

from hypothesis import strategies as st
from hypothesis.stateful import initialize, rule, precondition

from vlib import Stream, ok, fail, call_real, known_keys
from vlib.stateful import HistoryMachine, history_check
from models import dommodel
from models.dommodel import DomModel, INDEX_ERROR, NOT_FOUND

PROPERTY = "C06"
LEVEL = "exploration"
ASSUMPTIONS = [
    "models/dommodel.py is a faithful reading of the C06 statement: containers are Python lists, "
    "insert/pop/item assignment follow list index semantics, fragment insertion is a splice at the "
    "once-normalised index, item assignment of a fragment is L[i:i+1] = items",
    "a fragment given to an edit is consumed (never reused); arguments are detached nodes or fragments, "
    "never an ancestor of the target, refChild != newChild",
    "children listed by a fragment may name the fragment or the fragment's own parentNode as parent "
    "(both documented by Node.append / NamedNodeMap._resetPosition); an attribute-held fragment gets "
    "parentNode = the element before it is stored, as TeX.expandTokens does",
    "parentNode of a node that is listed nowhere (removed child, clone) is not asserted",
    "shallow cloneNode is used only on nodes without children and attributes",
    "compareDocumentPosition is asserted for pairs inside one tree whose ancestor chains run through "
    "child lists of the document / plain elements only",
]

KNOWN = known_keys(PROPERTY)

K_SETITEM_NEG = "child-order:setitem:negative-index"
K_SETITEM_FRAG_NEG = "child-order:setitem:frag:negative-index"
K_INSERT_FRAG_NEG = "child-order:insert:frag:negative-index"
K_SETITEM_OOR = "child-order:setitem:out-of-range"
K_SETITEM_FRAG_OOR = "child-order:setitem:frag:out-of-range"
K_SETITEM_NOERR = "exception:setitem:expected-IndexError:got-none"
K_SETITEM_FRAG_NOERR = "exception:setitem:frag:expected-IndexError:got-none"
K_CDP_LCA = "cdp-wrong:topmost-common-ancestor-used"
K_CYCLE = "parent-cycle:stale-parentNode-after-removal"
K_CYCLE_CLONE = "parent-cycle:clone-keeps-parentNode"
K_CLONE_ATTR = "clone-shares-nodes:attribute"
K_CLONE_HANG = "clone-nonterminating:self-alias-shares-child-list"
K_GEBTN_DUP = "gebtn-duplicates:self-alias"

NEG_KNOWN = bool(KNOWN & {K_SETITEM_NEG, K_SETITEM_FRAG_NEG, K_INSERT_FRAG_NEG})
OOR_KNOWN = bool(KNOWN & {K_SETITEM_OOR, K_SETITEM_NOERR, K_SETITEM_FRAG_OOR, K_SETITEM_FRAG_NOERR})
CLONE_KNOWN = bool(KNOWN & {K_CLONE_ATTR, K_CLONE_HANG})
SKIP = sorted((["cdp-risky"] if K_CDP_LCA in KNOWN else []) + (["cycle"] if KNOWN & {K_CYCLE, K_CYCLE_CLONE} else []) +
              (["gebtn-alias"] if K_GEBTN_DUP in KNOWN else []))

TAGS = ["a", "b", "c", "s"]
TAG_GROUPS = [["a", "c"], ("b", "a"), ("s",)]        # "the name or list of names": lists and tuples of names
POS = {"preceding": 0x02, "following": 0x04, "contains": 0x08, "contained_by": 0x10}

HISTORY_CFG = {"elems": ["a", "a", "b", "b", "c", "a"], "texts": ["x", "x", "y", ""], "frags": 2}
ENUM_CFG = {"elems": ["a", "a", "b"], "texts": ["x"], "frags": 1}


class _Runaway(BaseException):
    pass


def _vt_alarm(signum, frame):
    raise _Runaway()


def bounded(fn, seconds=0.05):
    """Run fn() with a CPU-time stop (only used around cloneNode of a subtree
    holding a `self`-aliased element, which can grow a list without end)."""
    old = signal.signal(signal.SIGVTALRM, _vt_alarm)
    signal.setitimer(signal.ITIMER_VIRTUAL, seconds)
    try:
        return fn()
    finally:
        signal.setitimer(signal.ITIMER_VIRTUAL, 0)
        signal.signal(signal.SIGVTALRM, old)


def opclass(op, model_before_len=None):
    """Root-cause class of an op for bucket keys: name[:frag][:negative-index|:out-of-range]."""
    s = op["op"]
    if op.get("_frag"):
        s += ":frag"
    i = op.get("i")
    n = model_before_len
    if i is not None and n is not None:
        if not -n <= i < n and op["op"] in ("setitem", "pop"):
            s += ":out-of-range"
        elif i < 0:
            s += ":negative-index"
    return s


class Session(object):
    def __init__(self, cfg):
        from plasTeX.DOM import Document
        self.cfg = cfg or HISTORY_CFG
        self.doc = Document()
        self.model = DomModel(self.cfg)
        self.real = {"D": self.doc}
        for kind, nid in self.model.initial:
            if kind == "elem":
                self.real[nid] = self.doc.createElement(self.model.name[nid])
            elif kind == "text":
                self.real[nid] = self.doc.createTextNode(self.model.data[nid])
            else:
                self.real[nid] = self.doc.createDocumentFragment()
        self.features = set()
        self.nontrivial = False
        self.removed_at = {}        # container -> smallest index removed so far
        self.clone_roots = set()
        self.step = 0
        self.light = bool(self.cfg.get("light"))
        # view classes the GENERATOR asked not to judge (set only while the matching
        # known finding is listed; part of the case, so a replay is self-contained)
        self.skip = set(self.cfg.get("skip", ()))

    # ------------------------------------------------------------------
    def name_of(self, obj):
        for k, v in self.real.items():
            if v is obj:
                return k
        if obj is None:
            return None
        return "?%s" % type(obj).__name__

    def names(self, objs):
        return [self.name_of(o) for o in objs]

    # ------------------------------------------------------------------
    def apply(self, op, check=True):
        m, R = self.model, self.real
        self.step += 1
        name = op["op"]
        t = op.get("t")
        x = op.get("x")
        before_len = len(m.children[t]) if t in m.children else None
        op = dict(op)
        if x is not None and x in m.kind and m.kind[x] == "frag" and name != "mkself" and name != "setattr":
            op["_frag"] = True
            nitems = len(m.children[x])
        else:
            nitems = None
        opc = opclass(op, before_len)
        clone_alias = name == "clone" and op["deep"] and m.has_alias_below(op["x"])
        clone_src = op.get("x") if name == "clone" else None
        # ---- features / non-triviality (from the model state before the step)
        self._classify(op, before_len, nitems)
        # ---- real call (objects resolved first: a harness slip must not look like a plasTeX error)
        Rt = R[t] if t is not None else None
        Rx = R[x] if x is not None else None
        idx = op.get("i")
        if name == "create":
            fn = (lambda: self.doc.createElement(op["name"])) if op["kind"] == "elem" else \
                 (lambda: self.doc.createTextNode(op["data"]))
        elif name == "append":
            fn = lambda: Rt.append(Rx)
        elif name == "insert":
            fn = lambda: Rt.insert(idx, Rx)
        elif name == "setitem":
            fn = lambda: Rt.__setitem__(idx, Rx)
        elif name == "pop":
            fn = (lambda: Rt.pop()) if idx is None else (lambda: Rt.pop(idx))
        elif name == "removeChild":
            Rc = R[op["c"]]
            fn = lambda: Rt.removeChild(Rc)
        elif name in ("insertBefore", "insertAfter", "replaceChild"):
            Rref = R[op["ref"]]
            meth = getattr(Rt, name)
            fn = lambda: meth(Rx, Rref)
        elif name == "extend":
            Rxs = [R[i] for i in op["xs"]]
            fn = lambda: Rt.extend(Rxs)
        elif name == "extendfrag":
            fn = lambda: Rt.extend(Rx)
        elif name == "normalize":
            fn = lambda: Rt.normalize()
        elif name == "clone":
            deep = op["deep"]
            if clone_alias:
                fn = lambda: bounded(lambda: Rx.cloneNode(deep))
            else:
                fn = lambda: Rx.cloneNode(deep)
        elif name == "setattr":
            m_kind_x = m.kind[x]
            key = op["k"]

            def fn():
                if m_kind_x == "frag":
                    Rx.parentNode = Rt          # what TeX.expandTokens(parentNode=...) does
                Rt.attributes[key] = Rx
        elif name == "mkself":
            def fn():
                e = self.doc.createElement(op["name"])
                Rx.parentNode = e
                e.attributes["self"] = Rx
                return e
        else:
            raise dommodel.ModelError("unknown op %r" % (name,))

        text_before = None
        if name == "normalize":
            text_before = m.text_content(t)
        exp = m.apply(op)                      # model step (raises ModelError outside the domain)
        value, err = call_real(fn)
        detail = {"op": op, "class": opc}
        # ---- exceptions ----------------------------------------------------
        got = None
        if err is not None:
            if err.type == "_Runaway":
                shared = False
                try:
                    src = R[clone_src]
                    shared = any(R[a].childNodes is R[m.alias[a]] for a in m.alias if a in R)
                except Exception:
                    pass
                return fail(K_CLONE_HANG, dict(detail, note="cloneNode(deep) did not finish within the CPU bound; "
                                               "the clone's child list is the original's `self` fragment",
                                               alias_lists_shared=shared), self.features)
            if err.type == "IndexError":
                got = INDEX_ERROR
            elif err.type == "NotFoundErr":
                got = NOT_FOUND
            else:
                return fail(err.key, dict(detail, **err.detail()), self.features)
        if got != exp.raises:
            if exp.raises is None:
                return fail("exception:%s:unexpected-%s" % (opc.split(":out-of")[0].split(":neg")[0], got),
                            dict(detail, **err.detail()), self.features)
            base = name + (":frag" if op.get("_frag") else "")
            return fail("exception:%s:expected-%s:got-%s" % (base, exp.raises, got or "none"),
                        detail, self.features)
        if exp.raises is not None:
            self.features.add("expected-" + exp.raises)
        # ---- return value ---------------------------------------------------
        if exp.raises is None and exp.result is not None and value is not R.get(exp.result):
            return fail("return-value:%s" % name, dict(detail, expected=exp.result, got=self.name_of(value)),
                        self.features)
        # ---- bind new ids -------------------------------------------------------
        for b in exp.binds:
            how, nid = b[0], b[1]
            obj = None
            try:
                if how == "result":
                    obj = value
                elif how == "new":
                    obj = self.doc.createDocumentFragment()
                elif how == "child":
                    obj = list(R[b[2]])[b[3]]
                elif how == "attr":
                    obj = R[b[2]].attributes[b[3]]
            except (IndexError, KeyError, TypeError, AttributeError):
                obj = None
            if obj is None:
                return fail("shape:%s" % name, dict(detail, missing=list(b)), self.features)
            R[nid] = obj
        for nid in list(R):
            if nid in m.retired:
                del R[nid]
        # ---- op specific checks ------------------------------------------------------
        if name == "clone":
            self.clone_roots.add(exp.binds[0][1])
            r = self._check_clone(op, exp, detail)
            if r is not None:
                return r
        if name == "normalize":
            if m.text_content(t) != text_before:
                raise dommodel.ModelError("model normalize changed text")
        if check:
            r = self.walk(opc, detail)
            if r is not None:
                return r
        if name == "normalize":
            # idempotence: a second normalize changes nothing (structure; text nodes are re-created)
            snap = self._shape(t)
            _, err = call_real(Rt.normalize)
            if err is not None:
                return fail(err.key, dict(detail, second=True, **err.detail()), self.features)
            if self._shape(t) != snap:
                return fail("normalize-not-idempotent", dict(detail, before=snap, after=self._shape(t)),
                            self.features)
            # re-bind the re-created text nodes
            e2 = m.apply({"op": "normalize", "t": t})
            for b in e2.binds:
                try:
                    R[b[1]] = list(R[b[2]])[b[3]]
                except IndexError:
                    return fail("shape:normalize", dict(detail, missing=list(b)), self.features)
            for nid in list(R):
                if nid in m.retired:
                    del R[nid]
            if check:
                r = self.walk("normalize:second", detail)
                if r is not None:
                    return r
        return None

    def _shape(self, t):
        def sh(o):
            if o.nodeType == 3:
                return "T:" + str.__str__(o)
            a = []
            if o.nodeType == 1 and o.attributes:
                a = [(k, sh(v)) for k, v in o.attributes.items()]
            return [o.nodeName, a, [sh(c) for c in o]]
        return sh(self.real[t])

    def _classify(self, op, n, nitems):
        m = self.model
        f = self.features
        name = op["op"]
        i = op.get("i")
        t = op.get("t")
        if op.get("_frag"):
            f.add("frag-arg")
            if nitems == 0:
                f.add("frag-arg-empty")
            if nitems >= 2:
                f.add("frag-arg>=2")
            if name in ("append", "insert", "setitem", "insertBefore", "insertAfter", "replaceChild",
                        "extendfrag"):
                self.nontrivial = True
            if t is not None and m.kind[t] == "frag":
                f.add("frag-into-frag")
        if i is not None and n is not None:
            if i < 0:
                f.add("neg-index")
            if not -n <= i < n:
                f.add("index-out-of-range")
            if name in ("insert", "setitem") and t in self.removed_at and 0 <= self.removed_at[t] < \
                    (i if i >= 0 else i + n):
                f.add("index-after-removal")
                self.nontrivial = True
        if name in ("pop", "removeChild", "replaceChild", "setitem") and t in m.children:
            L = m.children[t]
            j = None
            if name == "pop":
                k = -1 if i is None else i
                if -len(L) <= k < len(L):
                    j = k % len(L)
            elif name == "removeChild" and op["c"] in L:
                j = L.index(op["c"])
            elif name == "replaceChild" and op["ref"] in L:
                j = L.index(op["ref"])
            if j is not None:
                self.removed_at[t] = min(j, self.removed_at.get(t, j))
        if name == "normalize":
            if m.adjacent_texts(t) >= 1:
                f.add("normalize-merges")
                self.nontrivial = True
            else:
                f.add("normalize-noop")
        if name == "clone":
            f.add("clone-deep" if op["deep"] else "clone-shallow")
            if m.kind[op["x"]] == "elem" and m.children[op["x"]]:
                f.add("clone-with-children")
            if m.has_attr_below(op["x"]):
                f.add("clone-with-attrs")
        if name == "setattr":
            f.add("attr-" + m.kind[op["x"]])
        if name == "mkself":
            f.add("self-alias")
        if t is not None and t in m.kind:
            if t in m.alias:
                f.add("target-self-aliased")
            if m.kind[t] == "frag":
                f.add("target-attr-frag" if t in m.where else "target-pool-frag")
            if m.kind[t] == "doc":
                f.add("target-doc")
            if m.depth(t) >= 2:
                f.add("target-depth>=2")
            if t != "D" and m.root_of(t) != "D":
                f.add("target-in-detached-tree")
        f.add("op:" + name)

    # ------------------------------------------------------------------
    def _check_clone(self, op, exp, detail):
        m, R = self.model, self.real
        src = op["x"]
        new = exp.binds[0][1]
        a, b = R[src], R[new]
        if a is b:
            return fail("clone-is-original", detail, self.features)
        sub_src = m.subtree(src)
        sub_new = m.subtree(new)
        ids_src = dict((id(R[i]), i) for i in sub_src)
        for i in sub_new:
            if id(R[i]) in ids_src:
                w = m.where.get(i)
                kind = "attribute" if (w is not None and w[0] == "attr") or \
                    (w is not None and m.where.get(w[1], ("",))[0] == "attr") else "child"
                if kind == "child" and m.has_attr_below(src):
                    kind = "attribute"
                return fail("clone-shares-nodes:%s" % kind,
                            dict(detail, shared=ids_src[id(R[i])], clone_node=i), self.features)
        if op["deep"] or m.kind[src] == "text":
            eq, err = call_real(lambda: (a == b) and (b == a))
            if err is not None:
                return fail(err.key, dict(detail, **err.detail()), self.features)
            if not eq:
                return fail("clone-not-equal", detail, self.features)
        return None

    # ------------------------------------------------------------------
    def walk(self, opc, detail):
        m, R = self.model, self.real
        doc = self.doc
        kind = m.kind
        F = self.features
        for nid in m.order:
            if kind[nid] == "text":
                continue
            obj = R[nid]
            want = m.children[nid]
            got = list(obj)
            if len(got) != len(want) or any(g is not R[w] for g, w in zip(got, want)) or len(obj) != len(want):
                return fail("child-order:%s" % opc, dict(detail, container=nid, expected=list(want),
                                                          got=self.names(got)), F)
        for nid in m.order:
            obj = R[nid]
            k = kind[nid]
            # a node that no container lists (removed, replaced, never inserted) names no parent
            if nid != "D" and m.up(nid) is None and obj.parentNode is not None:
                return fail("detached-node-keeps-parent:%s" % ("clone" if nid in self.clone_roots else opc),
                            dict(detail, node=nid, got=self.name_of(obj.parentNode)), F)
            if obj.ownerDocument is not doc:
                return fail("ownerDocument:%s" % opc, dict(detail, node=nid,
                                                            got=self.name_of(obj.ownerDocument)), F)
            if k == "text":
                if str.__str__(obj) != m.data[nid]:
                    return fail("text-data:%s" % opc, dict(detail, node=nid, got=str.__str__(obj),
                                                           expected=m.data[nid]), F)
                continue
            want = m.children[nid]
            got = list(obj)
            opts = [None if o is None else R[o] for o in m.parent_options(nid)]
            direct = [o for o in (R[nid], R.get(m.alias.get(nid))) if o is not None]
            last = len(want) - 1
            for idx, c in enumerate(want):
                co = got[idx]
                p = co.parentNode
                if not any(p is o for o in opts):
                    return fail("parentNode:%s" % opc, dict(detail, container=nid, child=c,
                                                            got=self.name_of(p),
                                                            accepted=m.parent_options(nid)), F)
                if any(p is o for o in direct):
                    ps, ns = co.previousSibling, co.nextSibling
                    eprev = got[idx - 1] if idx > 0 else None
                    enext = got[idx + 1] if idx < last else None
                    if ps is not eprev or ns is not enext:
                        return fail("sibling:%s" % opc,
                                    dict(detail, container=nid, child=c, index=idx,
                                         got=[self.name_of(ps), self.name_of(ns)],
                                         expected=[self.name_of(eprev), self.name_of(enext)]), F)
            fc, lc = obj.firstChild, obj.lastChild
            if (fc is not (got[0] if got else None)) or (lc is not (got[-1] if got else None)):
                return fail("first-last:%s" % opc, dict(detail, container=nid,
                                                        got=[self.name_of(fc), self.name_of(lc)]), F)
            tc = obj.textContent
            if str.__str__(tc) != m.text_content(nid):
                return fail("textContent:%s" % opc, dict(detail, container=nid, got=str.__str__(tc),
                                                         expected=m.text_content(nid)), F)
            if k == "elem":
                wa = m.attrs[nid]
                ga = obj.attributes
                if list(ga.keys()) != list(wa.keys()) or any(ga[key] is not R[v] for key, v in wa.items()):
                    return fail("attributes:%s" % opc, dict(detail, elem=nid, expected=dict(wa),
                                                            got=dict((key, self.name_of(v))
                                                                     for key, v in ga.items())), F)
                for key, v in wa.items():
                    if R[v].parentNode is not obj:
                        return fail("attr-parentNode:%s" % opc,
                                    dict(detail, elem=nid, key=key, got=self.name_of(R[v].parentNode)), F)
        # ---- views from the roots ------------------------------------------------
        roots = ["D"] + [r for r in m.detached_roots() if kind[r] != "text"]
        for r in roots:
            alias_below = m.has_alias_below(r, nonempty=True)
            if alias_below and "gebtn-alias" in self.skip:
                F.add("gebtn-skipped-known")
            else:
                for tag in TAGS + TAG_GROUPS:
                    res, err = call_real(R[r].getElementsByTagName, tag)
                    if err is not None:
                        return fail(err.key, dict(detail, root=r, **err.detail()), F)
                    want = m.by_tag(r, tag)
                    if len(res) != len(want) or any(g is not R[w] for g, w in zip(res, want)):
                        gn = self.names(res)
                        dedup = []
                        for g in gn:
                            if g not in dedup:
                                dedup.append(g)
                        if alias_below and dedup == want:
                            return fail(K_GEBTN_DUP, dict(detail, root=r, tag=tag, expected=want, got=gn), F)
                        return fail("gebtn-mismatch:%s" % opc,
                                    dict(detail, root=r, tag=tag, expected=want, got=gn), F)
            if kind[r] in ("doc", "elem") and not self.light:
                rr = self._check_positions(r, opc, detail)
                if rr is not None:
                    return rr
        return None

    def _chain_ok(self, obj):
        seen = set()
        n = 0
        while obj is not None:
            if id(obj) in seen or n > 500:
                return False
            seen.add(id(obj))
            obj = obj.parentNode
            n += 1
        return True

    def _cycle_cause(self, obj):
        m = self.model
        seen = set()
        while obj is not None and id(obj) not in seen:
            seen.add(id(obj))
            nid = self.name_of(obj)
            if nid in m.kind and m.up(nid) is None and obj.parentNode is not None:
                return nid, ("clone" if nid in self.clone_roots else "removal")
            obj = obj.parentNode
        return None, "removal"

    def _check_positions(self, r, opc, detail):
        m, R = self.model, self.real
        F = self.features
        nodes = m.clean_nodes(r)
        n = len(nodes)
        if n < 2:
            return None
        if n <= 5:
            pairs = [(i, j) for i in range(n) for j in range(n) if i != j]
        else:
            pairs = []
            for i in range(n):
                j = (i * 3 + self.step) % n
                if j != i:
                    pairs.append((i, j))
                j2 = (i + 1 + (self.step % 2)) % n
                if j2 != i and j2 != j:
                    pairs.append((i, j2))
        top_clean = R[r].parentNode is None
        for i, j in pairs:
            a, ca = nodes[i]
            b, cb = nodes[j]
            if not (self._chain_ok(R[a]) and self._chain_ok(R[b])):
                if "cycle" in self.skip:
                    F.add("cdp-skipped-known-cycle")
                    continue
                culprit, why = self._cycle_cause(R[a] if not self._chain_ok(R[a]) else R[b])
                return fail(K_CYCLE_CLONE if why == "clone" else K_CYCLE,
                            dict(detail, node=a, other=b, unlisted_node_with_parent=culprit, cause=why,
                                 note="following parentNode from this node never ends: a node that is in "
                                      "nobody's child list (removed child / fresh clone) still names a "
                                      "parent and later received that parent as a descendant; "
                                      "compareDocumentPosition would not return"), F)
            rel = m.position(a, ca, b, cb)
            cd = m.common_depth(ca, a, cb, b)
            La = m.children[ca[-1]] if ca else None
            adjacent = bool(ca) and bool(cb) and ca[-1] == cb[-1] and abs(La.index(a) - La.index(b)) == 1
            risky = rel in ("following", "preceding") and not adjacent and (cd > 0 or not top_clean)
            if risky and "cdp-risky" in self.skip:
                F.add("cdp-skipped-known")
                continue
            got, err = call_real(R[a].compareDocumentPosition, R[b])
            if err is not None:
                return fail(err.key, dict(detail, node=a, other=b, **err.detail()), F)
            F.add("cdp-" + rel)
            if cd > 0 and rel in ("following", "preceding") and not adjacent:
                F.add("cdp-deep-common-ancestor")
            if got != POS[rel]:
                key = K_CDP_LCA if risky else "cdp-wrong:%s" % opc
                return fail(key, dict(detail, node=a, other=b, expected=rel, got=got,
                                      common_ancestor_depth=cd, root=r, root_has_stale_parent=not top_clean), F)
        return None

    def finish(self):
        return ok(sorted(self.features), self.nontrivial)


# --------------------------------------------------------------------------
# generator side: which ops are inside the asserted domain in a model state
# --------------------------------------------------------------------------
def setitem_allowed(m, t, i, x):
    n = len(m.children[t])
    inrange = -n <= i < n
    if not inrange and OOR_KNOWN:
        return False
    if i < 0 and inrange and NEG_KNOWN:
        return False
    return True


def insert_allowed(m, t, i, x):
    if i < 0 and m.kind[x] == "frag" and len(m.children[x]) >= 2 and NEG_KNOWN:
        return False
    if i < -len(m.children[t]) and m.kind[x] == "frag" and len(m.children[x]) >= 2 and NEG_KNOWN:
        return False
    return True


def clone_allowed(m, x, deep):
    if m.kind[x] not in ("elem", "text"):
        return False
    if not deep:
        return m.kind[x] == "text" or not (m.children[x] or m.attrs[x])
    if CLONE_KNOWN and m.has_attr_below(x):
        return False
    return True


class Machine(HistoryMachine):
    SESSION = Session
    MAXNODES = 48

    @initialize()
    def init(self):
        self.start(dict(HISTORY_CFG, skip=SKIP) if SKIP else dict(HISTORY_CFG))
        self.excluded = 0

    # -- helpers ---------------------------------------------------------
    def pick(self, seq, k):
        return seq[k % len(seq)] if seq else None

    def target(self, k):
        """Half of the draws: a container inside the document tree (so that the tree grows
        deep enough to be interesting); otherwise any container, detached ones included."""
        m = self.model
        conts = m.containers()
        if k % 2 == 0:
            indoc = [c for c in conts if m.root_of(c) == "D"]
            return self.pick(indoc, k // 2)
        return self.pick(conts, k // 2)

    def fresh(self, kind, k):
        """A detached node of the kind, created on demand."""
        m = self.model
        have = [i for i in m.detached_roots() if m.kind[i] == kind and
                (kind != "elem" or not (m.children[i] or m.attrs[i]))]
        if have and k % 3:
            return self.pick(have, k)
        if m.size() >= self.MAXNODES:
            return self.pick(have, k)
        if kind == "elem":
            self.do({"op": "create", "kind": "elem", "name": TAGS[k % 3]})
        else:
            self.do({"op": "create", "kind": "text", "data": ["x", "y", "", "zz"][k % 4]})
        if self.failed is not None:
            return None
        return m.order[-1]

    def index(self, t, k):
        n = len(self.model.children[t])
        return -n - 1 + k % (2 * n + 3)

    def skip_known(self):
        self.sess.features.add("excluded-known-construct")

    # -- rules -----------------------------------------------------------------
    @rule(kind=st.sampled_from(["elem", "elem", "text"]), name=st.sampled_from(TAGS[:3]),
          data=st.sampled_from(["x", "y", "", "zz"]))
    def create(self, kind, name, data):
        if self.model.size() >= self.MAXNODES:
            return
        if kind == "elem":
            self.do({"op": "create", "kind": "elem", "name": name})
        else:
            self.do({"op": "create", "kind": "text", "data": data})

    @rule(tk=st.integers(0, 999), xk=st.integers(0, 999))
    def append(self, tk, xk):
        t = self.target(tk)
        x = self.pick(self.model.args_for(t), xk)
        if x is not None:
            self.do({"op": "append", "t": t, "x": x})

    @rule(fk=st.integers(0, 9), ks=st.lists(st.integers(0, 999), min_size=1, max_size=3))
    def fill_fragment(self, fk, ks):
        f = self.pick(self.model.pool_frags(), fk)
        if f is None:
            return
        for k in ks:
            x = self.fresh("elem" if k % 2 else "text", k)
            if x is not None and self.failed is None:
                self.do({"op": "append", "t": f, "x": x})

    @rule(tk=st.integers(0, 999), ks=st.lists(st.integers(0, 999), min_size=2, max_size=3), nest=st.booleans())
    def text_run(self, tk, ks, nest):
        """Adjacent text nodes (what normalize has to merge), optionally inside a new child element."""
        t = self.target(tk)
        if t is None:
            return
        m = self.model
        held = [c for c in m.containers() if m.kind[c] == "frag" and c in m.where]
        if tk % 5 == 0 and held:
            t, nest = self.pick(held, tk // 5), False
        if nest:
            e = self.fresh("elem", ks[0])
            if e is None or self.failed is not None or e == self.model.root_of(t):
                return
            self.do({"op": "append", "t": t, "x": e})
            t = e
        for k in ks:
            x = self.fresh("text", k)
            if x is not None and self.failed is None:
                self.do({"op": "append", "t": t, "x": x})

    @rule(tk=st.integers(0, 999), jk=st.integers(0, 99), ik=st.integers(1, 3), xk=st.integers(0, 999),
          assign=st.booleans())
    def remove_then_edit_behind(self, tk, jk, ik, xk, assign):
        """An insert / item assignment at an index behind an earlier removal in the same container."""
        m = self.model
        big = [c for c in m.containers() if len(m.children[c]) >= 3]
        t = self.pick(big, tk)
        if t is None:
            return
        n = len(m.children[t])
        j = jk % (n - 1)
        self.do({"op": "pop", "t": t, "i": j})
        if self.failed is not None:
            return
        x = self.pick(m.args_for(t), xk)
        if x is None:
            return
        i = min(j + ik, len(m.children[t]) - (1 if assign else 0))
        if i <= j:
            return
        if assign:
            if setitem_allowed(m, t, i, x):
                self.do({"op": "setitem", "t": t, "i": i, "x": x})
        elif insert_allowed(m, t, i, x):
            self.do({"op": "insert", "t": t, "i": i, "x": x})

    @rule(tk=st.integers(0, 999), xk=st.integers(0, 999), ik=st.integers(0, 999))
    def insert(self, tk, xk, ik):
        t = self.target(tk)
        x = self.pick(self.model.args_for(t), xk)
        if x is None:
            return
        i = self.index(t, ik)
        if not insert_allowed(self.model, t, i, x):
            return self.skip_known()
        self.do({"op": "insert", "t": t, "i": i, "x": x})

    @rule(tk=st.integers(0, 999), fk=st.integers(0, 9), ik=st.integers(0, 999),
          how=st.sampled_from(["insert", "setitem", "setitem", "append", "extendfrag", "replaceChild",
                               "insertBefore", "insertAfter"]),
          fill=st.lists(st.integers(0, 999), min_size=0, max_size=3))
    def fragment_edit(self, tk, fk, ik, how, fill):
        """A fragment (filled first with 0-3 fresh nodes) spliced into a target."""
        m = self.model
        t = self.target(tk)
        if t is None:
            return
        x = self.pick(m.args_for(t, kinds=("frag",)), fk)
        if x is None:
            return
        for k in fill:
            y = self.fresh("elem" if k % 2 else "text", k)
            if y is None or self.failed is not None:
                return
            if y != m.root_of(t):
                self.do({"op": "append", "t": x, "x": y})
        if self.failed is not None:
            return
        n = len(m.children[t])
        i = self.index(t, ik)
        if ik % 2 and n:
            i = ik % n                      # in range, non-negative
        if how == "insert":
            if not insert_allowed(m, t, i, x):
                return self.skip_known()
            self.do({"op": "insert", "t": t, "i": i, "x": x})
        elif how == "setitem":
            if not setitem_allowed(m, t, i, x):
                return self.skip_known()
            self.do({"op": "setitem", "t": t, "i": i, "x": x})
        elif how in ("replaceChild", "insertBefore", "insertAfter"):
            if n:
                self.do({"op": how, "t": t, "x": x, "ref": m.children[t][ik % n]})
        else:
            self.do({"op": how, "t": t, "x": x})

    @rule(tk=st.integers(0, 999), xk=st.integers(0, 999), ik=st.integers(0, 999))
    def setitem(self, tk, xk, ik):
        t = self.target(tk)
        x = self.pick(self.model.args_for(t), xk)
        if x is None:
            return
        i = self.index(t, ik)
        if not setitem_allowed(self.model, t, i, x):
            return self.skip_known()
        self.do({"op": "setitem", "t": t, "i": i, "x": x})

    @rule(tk=st.integers(0, 999), ik=st.integers(0, 999), default=st.booleans())
    def pop(self, tk, ik, default):
        t = self.target(tk)
        self.do({"op": "pop", "t": t, "i": None if default else self.index(t, ik)})

    @rule(tk=st.integers(0, 999), ck=st.integers(0, 999), foreign=st.integers(0, 9))
    def remove_child(self, tk, ck, foreign):
        m = self.model
        t = self.target(tk)
        if foreign == 0 or not m.children[t]:
            cands = [i for i in m.order if i != "D" and i not in m.children[t] and i != t]
        else:
            cands = m.children[t]
        c = self.pick(cands, ck)
        if c is not None:
            self.do({"op": "removeChild", "t": t, "c": c})

    @rule(tk=st.integers(0, 999), xk=st.integers(0, 999), rk=st.integers(0, 999), foreign=st.integers(0, 9),
          how=st.sampled_from(["insertBefore", "insertAfter", "replaceChild"]))
    def ref_edit(self, tk, xk, rk, foreign, how):
        m = self.model
        t = self.target(tk)
        x = self.pick(m.args_for(t), xk)
        if x is None:
            return
        if foreign == 0 or not m.children[t]:
            cands = [i for i in m.order if i != "D" and i not in m.children[t] and i != x]
        else:
            cands = m.children[t]
        ref = self.pick(cands, rk)
        if ref is not None:
            self.do({"op": how, "t": t, "x": x, "ref": ref})

    @rule(tk=st.integers(0, 999), ks=st.lists(st.integers(0, 999), min_size=0, max_size=3))
    def extend(self, tk, ks):
        t = self.target(tk)
        args = self.model.args_for(t)
        xs = []
        for k in ks:
            x = self.pick(args, k)
            if x is not None and x not in xs:
                xs.append(x)
        self.do({"op": "extend", "t": t, "xs": xs})

    @rule(tk=st.integers(0, 999), root=st.booleans())
    def normalize(self, tk, root):
        m = self.model
        t = "D" if root else self.target(tk)
        if tk % 3 == 0:
            rich = [c for c in m.containers() if m.adjacent_texts(c)]
            t = self.pick(rich, tk // 3) or t
        self.do({"op": "normalize", "t": t})

    @rule(xk=st.integers(0, 999), deep=st.sampled_from([True, True, True, False]))
    def clone(self, xk, deep):
        m = self.model
        if m.size() >= self.MAXNODES:
            return
        cands = [i for i in m.order if m.kind[i] in ("elem", "text") and len(m.subtree(i)) <= 12]
        if xk % 3:
            deepc = [i for i in cands if m.kind[i] == "elem" and
                     any(m.kind[c] == "elem" and m.children[c] for c in m.children[i])]
            cands = deepc or [i for i in cands if m.kind[i] == "elem" and m.children[i]] or cands
        x = self.pick(cands, xk // 3)
        if x is None:
            return
        if not deep and not clone_allowed(m, x, False):
            deep = True
        if not clone_allowed(m, x, deep):
            return self.skip_known()
        self.do({"op": "clone", "x": x, "deep": deep})

    @rule(tk=st.integers(0, 999), xk=st.integers(0, 999), key=st.sampled_from(["k1", "k2"]),
          frag=st.booleans())
    def set_attribute(self, tk, xk, key, frag):
        m = self.model
        elems = [i for i in m.order if m.kind[i] == "elem" and key not in m.attrs[i]]
        t = self.pick(elems, tk)
        if t is None:
            return
        x = self.pick(m.args_for(t, kinds=("frag",) if frag else ("elem", "text")), xk)
        if x is not None:
            self.do({"op": "setattr", "t": t, "k": key, "x": x})

    @rule(fk=st.integers(0, 9))
    def make_self_aliased(self, fk):
        m = self.model
        if m.size() >= self.MAXNODES:
            return
        f = self.pick(m.pool_frags(), fk)
        if f is not None:
            self.do({"op": "mkself", "name": "s", "x": f})


# --------------------------------------------------------------------------
# exhaustive enumeration
# --------------------------------------------------------------------------
ALPHABETS = {
    # name: pool, index range, op set, length bound, prefix length (= sharding unit)
    "quick3": {"cfg": {"elems": ["a", "a"], "texts": ["x"], "frags": 1},
               "index": [-2, -1, 0, 1, 2], "depth": 3, "prefix": 2,
               "ops": {"append", "insert", "setitem", "ref", "extendfrag", "pop", "removeChild", "normalize",
                       "clone"}},
    "rich3": {"cfg": {"elems": ["a", "a", "b"], "texts": ["x"], "frags": 1},
              "index": [-2, -1, 0, 1, 2, 3], "depth": 3, "prefix": 2,
              "ops": {"append", "insert", "setitem", "ref", "foreign-ref", "extendfrag", "extend", "pop",
                      "removeChild", "normalize", "clone"}},
    "core4": {"cfg": {"elems": ["a", "a"], "texts": ["x"], "frags": 1},
              "index": [-1, 0, 1], "depth": 4, "prefix": 2,
              "ops": {"append", "insert", "setitem", "pop", "before"}},
}


def enum_ops(m, alph):
    """Every op of the bounded alphabet that is inside the domain in model state m
    (modulo renaming of untouched interchangeable pool nodes)."""
    ops = []
    A = alph["ops"]
    IDX = alph["index"]
    hidden = m.hidden()
    conts = [c for c in m.containers() if c not in hidden]
    for t in conts:
        L = m.children[t]
        args = [a for a in m.args_for(t) if a not in hidden]
        for x in args:
            ops.append({"op": "append", "t": t, "x": x})
            for i in IDX:
                if insert_allowed(m, t, i, x):
                    ops.append({"op": "insert", "t": t, "i": i, "x": x})
                if setitem_allowed(m, t, i, x):
                    ops.append({"op": "setitem", "t": t, "i": i, "x": x})
            for ref in L:
                if "ref" in A:
                    for how in ("insertBefore", "insertAfter", "replaceChild"):
                        ops.append({"op": how, "t": t, "x": x, "ref": ref})
                elif "before" in A:
                    ops.append({"op": "insertBefore", "t": t, "x": x, "ref": ref})
            if m.kind[x] == "frag" and "extendfrag" in A:
                ops.append({"op": "extendfrag", "t": t, "x": x})
        if args and "foreign-ref" in A:
            foreign = [i for i in m.order if i != "D" and i not in L and i != args[0] and i not in hidden]
            if foreign:
                ops.append({"op": "insertBefore", "t": t, "x": args[0], "ref": foreign[0]})
        plain = [a for a in args if m.kind[a] != "frag"]
        if len(plain) >= 2 and "extend" in A:
            ops.append({"op": "extend", "t": t, "xs": plain[:2]})
        for i in IDX:
            ops.append({"op": "pop", "t": t, "i": i})
        if "removeChild" in A:
            for c in L:
                ops.append({"op": "removeChild", "t": t, "c": c})
        if "normalize" in A and L and any(m.kind[c] == "text" for c in L):
            ops.append({"op": "normalize", "t": t})
    if "clone" in A:
        for x in m.order:
            if m.kind[x] == "elem" and m.children[x] and clone_allowed(m, x, True) and m.size() < 9:
                ops.append({"op": "clone", "x": x, "deep": True})
    return ops


def enum_prefixes(alph):
    """All valid op sequences of exactly alph['prefix'] ops (model only)."""
    out = []

    def rec(prefix):
        if len(prefix) == alph["prefix"]:
            out.append(prefix)
            return
        m = DomModel(alph["cfg"])
        for op in prefix:
            m.apply(op)
        for op in enum_ops(m, alph):
            rec(prefix + [op])
    rec([])
    return out


def run_path(ops, cfg, check_from=0):
    s = Session(cfg)
    for i, op in enumerate(ops):
        r = s.apply(op, check=(i >= check_from))
        if r is not None and not r.ok:
            if isinstance(r.detail, dict):
                r.detail["step"] = i
                r.detail["ops"] = ops
            return r, s
    return None, s


def enum_check(case):
    """case = {"alphabet": name, "prefix": [ops]}: runs the prefix and EVERY valid
    continuation up to the alphabet's length bound; each path is re-executed on a fresh
    document, all invariants are checked after its last op (its earlier ops were
    checked by the path that ended there)."""
    alph = ALPHABETS[case["alphabet"]]
    prefix, depth = case["prefix"], alph["depth"]
    cfg = dict(alph["cfg"], skip=case.get("skip", []))
    feats = set()
    count = [0, False]
    fails = {}

    def rec(path, first):
        r, s = run_path(path, cfg, 0 if first else len(path) - 1)
        count[0] += 1
        feats.update(s.features)
        count[1] = count[1] or s.nontrivial
        if r is not None:
            if r.key not in fails:
                fails[r.key] = r
            return
        if len(path) >= depth:
            return
        for op in enum_ops(s.model, alph):
            rec(path + [op], False)
    rec(list(prefix), True)
    b = 1
    while b * 4 <= count[0]:
        b *= 4
    feats.add("paths>=%d" % b)
    if fails:
        k = sorted(fails, key=lambda kk: (len(fails[kk].detail.get("ops", [])), kk))[0]
        r = fails[k]
        r.detail["paths_run"] = count[0]
        r.detail["other_buckets_in_subtree"] = sorted(x for x in fails if x != k)
        return fail(r.key, r.detail, sorted(feats))
    res = ok(sorted(feats), count[1])
    return res


def make_enum(names):
    def make(tier):
        name = names[tier]
        alph = ALPHABETS[name]
        prefixes = enum_prefixes(alph)
        return len(prefixes), (lambda i: {"alphabet": name, "prefix": prefixes[i], "skip": SKIP})
    return make


def history_or_path(case):
    if "prefix" in case:
        return enum_check(case)
    return history_check(Session)(case)


RULE_H = ("state machine over one Document, pool of 6 elements (duplicate names), 4 text nodes (duplicates, one "
          "empty), 2 fragments, plus created/cloned nodes (<=48): append, insert(i), insertBefore/After, "
          "replaceChild, removeChild, pop(i), node[i]=x, extend(list), extend(fragment), fragment "
          "insert/assign/append (empty, >=2 items, fragment into fragment), normalize, cloneNode, attribute-held "
          "node/fragment, element whose `self` attribute aliases childNodes; arguments detached and never an "
          "ancestor; indices in -len-1..len+1. All invariants checked after every step over every live node. "
          "Non-trivial: a fragment insertion, or an insert/assign at an index behind an earlier removal in the "
          "same container, or a normalize that merges adjacent text.")
RULE_E = ("complete enumeration (exhaustive=true) of every op sequence inside the domain up to length 3, modulo "
          "renaming of untouched equal pool nodes. quick: pool {document, 2 elements (equal names), 1 text, 1 "
          "fragment}, indices -2..2, alphabet per state = append, insert(i), node[i]=x, "
          "insertBefore/insertAfter/replaceChild at every child, extend(fragment), pop(i), removeChild, normalize, "
          "deep clone, every detached node or fragment as argument, every container (document, elements, "
          "fragment) as target (about 1.6 million sequences when no finding is listed). thorough: 3 elements, "
          "indices -2..3, plus extend(list) and a foreign refChild (about 13 million). A case is a 2-op prefix and "
          "runs ALL its continuations; all invariants are checked after every op. Non-trivial as for history.")
RULE_E4 = ("complete enumeration of every op sequence up to length 4 over {document, 2 elements, 1 text, 1 fragment}, "
           "indices -1..1, alphabet append, insert(i), node[i]=x, pop(i), insertBefore at every child (about 32 "
           "million sequences); thorough tier only.")

STREAMS = [
    Stream("history", "machine", lambda tier: Machine, history_or_path,
           budget={"quick": 200, "thorough": 4000}, timeout=20.0, rule=RULE_H,
           hang_is_violation=True, steps={"quick": 40, "thorough": 40}),
    Stream("exhaustive", "enum", make_enum({"quick": "quick3", "thorough": "rich3"}), enum_check,
           timeout=600.0, rule=RULE_E, hang_is_violation=True),
    Stream("exhaustive4", "enum", make_enum({"thorough": "core4"}), enum_check, timeout=1200.0, rule=RULE_E4,
           hang_is_violation=True, tiers=("thorough",)),
]
